"""Python function -> Lean definition, for the small pure arithmetic functions of cnvkit.

The accepted subset is deliberately narrow; anything outside it raises `Untranslatable`, which the check treats
as a broken tie (the generated file then fails to build, or the lock differs), never as silence.

Reading of the source
* every parameter and local is a rational number (`Rat`); array parameters are read ELEMENTWISE: the numpy code
  `x[mask] -= f(y[mask])` means "where mask holds, x becomes x - f(y)", so `a[mask]` is read as `a` and a masked
  augmented assignment as a conditional update (the functions translated here contain no reductions over arrays);
* `2 ** name` (the antilog of a log2 value) becomes a fresh parameter `name_pow2` -- the models work in ratio
  space, where the exact value of that double is an input;
* `len(name)` becomes the parameter `name_len`; `name.median()` the parameter `name_median`;
* truthiness of a number (`purity and purity < 1.0`) is `≠ 0`; `x is None` / `is not None` are resolved by the
  `given` argument (which optional parameters are supplied);
* `if cond: raise ...` guards and `assert` statements are dropped (the models state these as preconditions),
  unless the raise is the only way out of an else-branch, in which case the branch yields `default_on_raise`;
* `int(e)` truncates toward zero, `math.ceil`/`np.ceil` and `//` are exact on rationals, `round` is not accepted;
* float literals are the exact doubles.

Typed reading (class `TFn`, used by the extractors `exprs_bygene.py` / `exprs_genemetrics.py`; property C16).  The code
read here is index / selection logic, not arithmetic, so values carry a type (Rat, Int, Nat, String, List _):
* a field of a table row `row.log2` / `row["log2"]` / a column used elementwise `self.data["log2"]` becomes the parameter
  `row_log2` / `log2`, typed by the column (log2, depth, weight: Rat; start, end, probes: Int; gene, chromosome: String);
  a plain name that is never bound is a parameter whose type is taken from what it is compared / combined with;
* a name that is indexed, measured or searched is a list: `v[0]` is `v.headD 0`, `v[-1]` is `v.getLastD 0`, `len(v)` is
  `v.length` (the length of a table that is not otherwise read is the parameter `v_len`), `x in v` is `x ∈ v`, `sum(c for s in v)` is `v.countP c`, `a + b` on lists is `++`, `tuple(v)` / `list(v)` is `v`,
  a tuple / list literal is a list literal from which `np.nan` is dropped (NaN is equal to no name);
* the parameters of a generated definition come in a canonical order (the enclosing function's own parameters and the
  loop targets first, then row fields / columns / lengths in table order, then other free names by first use);
* truthiness: of a number `≠ 0`, of a string `≠ ""`, of a list `≠ []`; `a < b < c` is `a < b ∧ b < c`; a comparison bound to a
  name and updated with `|=` / `&=` is the disjunction / conjunction (elementwise reading of a boolean mask);
* in a function of WHOLE COLUMNS (`segment_mean`) `table["log2"]` is the list of the column's values, `len(table)` the
  parameter `table_len`, `col.sum()` is `col.sum`, `col.mean()` is `col.sum / col.length`, `col.any()` is "some value ≠ 0",
  `np.average(a, weights=w)` is `(zipWith (·*·) a w).sum / w.sum`, `col.iat[-1]` is `col[-1]`; the result is an `Option`:
  `return np.nan` is `none`;
* in such a function `outrow = table[0].copy()` starts a ROW RECORD, `outrow["col"] = e` sets a field, and yielding the
  record yields the tuple (chromosome, start, end, gene, log2, depth, weight, probes) of its fields, a field never set
  being the first row's (`col.headD`); a table is true when `table_len ≠ 0`; the result of a named function of another
  module bound to a name (`segmean = segment_mean(rows, skip_low)`) is a parameter of the declared type; a float
  (NaN included) `is None` is false; a parameter whose name is a Lean keyword gets a trailing underscore (`end_`);
* `int(e)`, `math.ceil(e)` of an Int-typed `e` are `e`; float literals are the exact doubles; `params.ANTITARGET_ALIASES`
  (not a plain literal, so not inlined) is the definition of that name in Generated/Consts.lean;
* a loop body is read as ONE ITERATION: a function from the loop-carried variables (the names bound before the loop and
  re-bound in it) to the list of values it yields (`yield v`, or `acc.append(v)`) and the new values of those variables;
  `continue` ends the iteration, `logging.*(...)` calls and `if`s that only log are skipped, an `if` is a case split of the
  whole rest of the body; `"depth" in table` / `"weight" in table` hold (the models' tables carry both columns: the harness
  models a missing one as the constant 1); `return table[mask]` is read as the predicate "the row is kept";
* a yielded table slice `wrapper(table.iloc[a:b])` is read as the pair of positions `(a, some b)`, `table.iloc[a:]` as
  `(a, none)` -- which rows those positions select is the model's `slice` / `drop`.
"""
from __future__ import annotations

import ast
from fractions import Fraction


class Untranslatable(Exception):
    pass


def _rat(x):
    f = Fraction(x)
    if f.denominator == 1:
        return f"({f.numerator} : Rat)" if f.numerator >= 0 else f"(({f.numerator}) : Rat)"
    return f"(({f.numerator} : Rat) / {f.denominator})"


class Fn:
    def __init__(self, fn: ast.FunctionDef, given=(), absent=(), default_on_raise=None, rename=None, callees=None):
        self.callees = callees or {}
        self.fn = fn
        self.given = set(given)      # optional parameters known to be supplied (not None)
        self.absent = set(absent)    # optional parameters known to be None
        self.params = []             # Lean parameters in order of first use
        self.default_on_raise = default_on_raise
        self.rename = rename or {}

    # -- parameters ------------------------------------------------------------------------------
    def param(self, name):
        name = self.rename.get(name, name)
        if name not in self.params:
            self.params.append(name)
        return name

    # -- expressions -----------------------------------------------------------------------------
    def expr(self, e, env):
        if isinstance(e, ast.Constant):
            if isinstance(e.value, bool) or e.value is None:
                raise Untranslatable(f"constant {e.value!r} in arithmetic position")
            if isinstance(e.value, (int, float)):
                return _rat(e.value)
            raise Untranslatable(f"constant {e.value!r}")
        if isinstance(e, ast.Name):
            if e.id in env:
                return env[e.id]
            return self.param(e.id)
        if isinstance(e, ast.Subscript):
            # elementwise reading of `array[mask]`
            if isinstance(e.value, ast.Name) and isinstance(e.slice, ast.Name):
                return self.expr(e.value, env)
            raise Untranslatable("subscript " + ast.unparse(e))
        if isinstance(e, ast.UnaryOp):
            if isinstance(e.op, ast.USub):
                return f"(-{self.expr(e.operand, env)})"
            if isinstance(e.op, ast.UAdd):
                return self.expr(e.operand, env)
            raise Untranslatable(ast.unparse(e))
        if isinstance(e, ast.BinOp):
            if isinstance(e.op, ast.Pow):
                if isinstance(e.left, ast.Constant) and e.left.value == 2 and isinstance(e.right, ast.Name) \
                        and e.right.id not in env:
                    return self.param(e.right.id + "_pow2")
                if isinstance(e.right, ast.Constant) and isinstance(e.right.value, int) and e.right.value >= 0:
                    return f"({self.expr(e.left, env)} ^ {e.right.value})"
                raise Untranslatable("power " + ast.unparse(e))
            a, b = self.expr(e.left, env), self.expr(e.right, env)
            if isinstance(e.op, ast.Add):
                return f"({a} + {b})"
            if isinstance(e.op, ast.Sub):
                return f"({a} - {b})"
            if isinstance(e.op, ast.Mult):
                return f"({a} * {b})"
            if isinstance(e.op, ast.Div):
                return f"({a} / {b})"
            if isinstance(e.op, ast.FloorDiv):
                return f"(((({a}) / ({b})).floor : Int) : Rat)"
            raise Untranslatable(ast.unparse(e))
        if isinstance(e, ast.IfExp):
            return f"(if {self.cond(e.test, env)} then {self.expr(e.body, env)} else {self.expr(e.orelse, env)})"
        if isinstance(e, ast.Call):
            f = ast.unparse(e.func)
            args = e.args
            if f in ("abs", "np.abs", "np.absolute") and len(args) == 1:
                x = self.expr(args[0], env)
                return f"(if {x} < 0 then -{x} else {x})"
            if isinstance(e.func, ast.Attribute) and e.func.attr == "abs" and not args:
                x = self.expr(e.func.value, env)
                return f"(if {x} < 0 then -{x} else {x})"
            if isinstance(e.func, ast.Attribute) and e.func.attr == "median" and not args \
                    and isinstance(e.func.value, ast.Name):
                return self.param(e.func.value.id + "_median")
            if f in ("max", "np.maximum") and len(args) == 2:
                return f"(max {self.expr(args[0], env)} {self.expr(args[1], env)})"
            if f in ("min", "np.minimum") and len(args) == 2:
                return f"(min {self.expr(args[0], env)} {self.expr(args[1], env)})"
            binops = {"np.divide": "/", "np.true_divide": "/", "np.multiply": "*", "np.add": "+", "np.subtract": "-"}
            if f in binops and len(args) == 2 and not e.keywords:
                return f"({self.expr(args[0], env)} {binops[f]} {self.expr(args[1], env)})"
            if f == "np.square" and len(args) == 1:
                return f"({self.expr(args[0], env)} ^ 2)"
            if f == "np.negative" and len(args) == 1:
                return f"(-{self.expr(args[0], env)})"
            if f == "np.where" and len(args) == 3:
                return f"(if {self.cond(args[0], env)} then {self.expr(args[1], env)} else {self.expr(args[2], env)})"
            if f == "len" and len(args) == 1 and isinstance(args[0], ast.Name):
                return self.param(args[0].id + "_len")
            if f in ("math.ceil", "np.ceil") and len(args) == 1:
                return f"((({self.expr(args[0], env)}).ceil : Int) : Rat)"
            if f in ("math.floor", "np.floor") and len(args) == 1:
                return f"((({self.expr(args[0], env)}).floor : Int) : Rat)"
            if f == "int" and len(args) == 1:
                x = self.expr(args[0], env)
                return f"(if {x} < 0 then ((({x}).ceil : Int) : Rat) else ((({x}).floor : Int) : Rat))"
            if f == "float" and len(args) == 1:
                return self.expr(args[0], env)
            if isinstance(e.func, ast.Name) and e.func.id in self.callees and not e.keywords:
                # a call to another plain function of the same module is inlined: its parameters are renamed to
                # the caller's variables when the arguments are plain parameters, bound as locals otherwise
                callee = self.callees[e.func.id]
                names = [a.arg for a in callee.args.args]
                if len(args) > len(names):
                    raise Untranslatable("call " + ast.unparse(e))
                import copy
                body = copy.deepcopy(callee.body)
                ren, inner_env = {}, {}
                for nm, a in zip(names, args):
                    if isinstance(a, ast.Name) and a.id not in env:
                        ren[nm] = a.id
                    else:
                        inner_env[nm] = self.expr(a, env)

                class R(ast.NodeTransformer):
                    def visit_Name(self, node):
                        if node.id in ren:
                            return ast.copy_location(ast.Name(id=ren[node.id], ctx=node.ctx), node)
                        return node
                body = [R().visit(st) for st in body]
                return self.block(body, inner_env)
            raise Untranslatable("call " + ast.unparse(e))
        raise Untranslatable(ast.unparse(e))

    def cond(self, e, env):
        if isinstance(e, ast.BoolOp):
            op = " ∧ " if isinstance(e.op, ast.And) else " ∨ "
            return "(" + op.join(self.cond(v, env) for v in e.values) + ")"
        if isinstance(e, ast.UnaryOp) and isinstance(e.op, ast.Not):
            return f"(¬ {self.cond(e.operand, env)})"
        if isinstance(e, ast.Compare):
            parts = []
            left = e.left
            for op, right in zip(e.ops, e.comparators):
                if isinstance(op, (ast.Is, ast.IsNot)) and isinstance(right, ast.Constant) and right.value is None \
                        and isinstance(left, ast.Name):
                    if left.id in self.given:
                        parts.append("False" if isinstance(op, ast.Is) else "True")
                    elif left.id in self.absent:
                        parts.append("True" if isinstance(op, ast.Is) else "False")
                    else:
                        raise Untranslatable(f"None-test of `{left.id}` not resolved by given/absent")
                else:
                    sym = {ast.Lt: "<", ast.LtE: "≤", ast.Gt: ">", ast.GtE: "≥", ast.Eq: "=", ast.NotEq: "≠"}.get(type(op))
                    if sym is None:
                        raise Untranslatable(ast.unparse(e))
                    parts.append(f"{self.expr(left, env)} {sym} {self.expr(right, env)}")
                left = right
            if len(parts) == 1 and parts[0] in ("True", "False"):
                return parts[0]
            return "(" + " ∧ ".join(parts) + ")"
        if isinstance(e, ast.Name):
            if e.id in env:
                if env[e.id].startswith("MASK:"):
                    return env[e.id][5:]
                if env[e.id] in ("True", "False"):
                    return env[e.id]
            elif e.id in self.absent:
                return "False"
            return f"({self.expr(e, env)} ≠ 0)"   # truthiness of a number
        if isinstance(e, ast.Constant) and isinstance(e.value, bool):
            return "True" if e.value else "False"
        raise Untranslatable("condition " + ast.unparse(e))

    # -- statements ------------------------------------------------------------------------------
    @staticmethod
    def _only_raises(stmts):
        return bool(stmts) and all(isinstance(s, (ast.Raise, ast.Expr)) for s in stmts) and any(
            isinstance(s, ast.Raise) for s in stmts)

    def block(self, stmts, env):
        if not stmts:
            raise Untranslatable("function falls off its end without a return")
        s, rest = stmts[0], stmts[1:]
        if isinstance(s, ast.Expr) and isinstance(s.value, ast.Constant):
            return self.block(rest, env)  # docstring
        if isinstance(s, ast.Assert):
            return self.block(rest, env)
        if isinstance(s, ast.Return):
            return self.expr(s.value, env)
        if isinstance(s, ast.Raise):
            if self.default_on_raise is None:
                raise Untranslatable("raise reached and no default_on_raise")
            return self.default_on_raise
        if isinstance(s, ast.Assign) and len(s.targets) == 1:
            t = s.targets[0]
            if isinstance(t, ast.Name):
                # a mask (comparison) assigned to a name is kept as a condition
                if isinstance(s.value, ast.Compare):
                    env = dict(env)
                    env[t.id] = "MASK:" + self.cond(s.value, env)
                    return self.block(rest, env)
                env = dict(env)
                env[t.id] = self.expr(s.value, env)
                return self.block(rest, env)
            raise Untranslatable("assignment to " + ast.unparse(t))
        if isinstance(s, ast.AugAssign):
            op = {ast.Add: "+", ast.Sub: "-", ast.Mult: "*", ast.Div: "/"}.get(type(s.op))
            if op is None:
                raise Untranslatable(ast.unparse(s))
            t = s.target
            if isinstance(t, ast.Name):
                env = dict(env)
                env[t.id] = f"({self.expr(t, env)} {op} {self.expr(s.value, env)})"
                return self.block(rest, env)
            if isinstance(t, ast.Subscript) and isinstance(t.value, ast.Name) and isinstance(t.slice, ast.Name):
                mask = env.get(t.slice.id, "")
                if not mask.startswith("MASK:"):
                    raise Untranslatable("masked update with a mask that is not a comparison: " + ast.unparse(s))
                env = dict(env)
                cur = self.expr(t.value, env)
                env[t.value.id] = f"(if {mask[5:]} then ({cur} {op} {self.expr(s.value, env)}) else {cur})"
                return self.block(rest, env)
            raise Untranslatable(ast.unparse(s))
        if isinstance(s, ast.If):
            if self._only_raises(s.body) and not s.orelse:
                return self.block(rest, env)  # guard: a precondition of the model
            c = self.cond(s.test, env)
            if c == "True":
                return self.block(list(s.body) + rest, env)
            if c == "False":
                return self.block(list(s.orelse) + rest, env)
            th = self.block(list(s.body) + rest, dict(env))
            el = self.block(list(s.orelse) + rest, dict(env))
            return f"(if {c} then {th} else {el})"
        raise Untranslatable(type(s).__name__ + ": " + ast.unparse(s)[:80])

    def translate(self, lean_name, comment=None):
        # parameters in signature order first (so that the Lean signature is stable), then discovered ones
        body = self.block(list(self.fn.body), {})
        if "MASK:" in body:
            raise Untranslatable("a mask escaped into an arithmetic position")
        sig = [self.rename.get(a.arg, a.arg) for a in self.fn.args.args]
        ordered = [p for p in sig if p in self.params] + [p for p in self.params if p not in sig]
        # `2 ** x` parameters replace x itself when x is not otherwise used
        ps = " ".join(ordered)
        head = f"def {lean_name} ({ps} : Rat) : Rat :=\n  {body}" if ordered else f"def {lean_name} : Rat :=\n  {body}"
        doc = f"/-- {comment} -/\n" if comment else ""
        return doc + head, ordered


def emit(repo, o, specs):
    """translate each (file, function, lean name, Fn kwargs, comment); a function outside the subset leaves a
    comment instead of a definition, so that only the theorems about THAT function stop checking"""
    import os
    from .translate import parse, find_func
    for path, fname, lean, kw, comment in specs:
        try:
            tree, _src = parse(os.path.join(repo, path))
            fn = find_func(tree, fname)
            callees = {n.name: n for n in tree.body if isinstance(n, ast.FunctionDef) and n.name != fname}
            text, params = Fn(fn, callees=callees, **kw).translate(lean, comment)
        except (Untranslatable, KeyError, OSError, SyntaxError) as e:
            o.lines.append(f"-- NOT TRANSLATED: {path}:{fname}: {type(e).__name__}: {str(e)[:200]}".replace("\n", " "))
            o.info[lean] = {"error": str(e)[:200]}
            continue
        o.lines.append(text)
        o.info[lean] = {"params": params}


# ---------------------------------------------------------------------------------------------------------------------
# typed reading (see the module docstring): conditions, list expressions, one iteration of a loop that yields


def _lean_str(s):
    import json
    return json.dumps(s, ensure_ascii=False)


class TFn:
    """translator state for one generated definition: parameters (in order of first use) with their types"""
    COLUMNS = {"log2": "Rat", "depth": "Rat", "weight": "Rat", "gene": "String", "chromosome": "String",
               "start": "Int", "end": "Int", "probes": "Int"}
    NUMERIC = ("Rat", "Int", "Nat")
    # constants of cnvlib/params.py that are not plain literals (plain ones are inlined by translate.parse): they are
    # read as the definitions of Generated/Consts.lean, which the generated file must import
    PARAMS = {"ANTITARGET_ALIASES": "List String", "IGNORE_GENE_NAMES": "List String", "ANTITARGET_NAME": "String"}

    def __init__(self, hints=None, num="Int", elem="Nat", table_names=("self", "data"), column_lists=False, first=()):
        self.column_lists = column_lists   # `table["col"]` is the whole column (a list), not one row's value
        self.first = [n for n in first]    # names that lead the signature: the function's own parameters, loop targets
        self.derived = {}                  # parameter -> rank of the column / length it stands for
        self.params = {}            # name -> type or None (not yet known)
        self.hints = dict(hints or {})
        self.num = num              # type of a numeric parameter nothing else determines
        self.elem = elem            # element type of a list parameter nothing else determines
        self.table_names = set(table_names)

    # -- parameters ----------------------------------------------------------------------------------------------
    LEAN_KEYWORDS = {"end", "from", "at", "in", "fun", "do", "then", "else", "if", "let", "have", "show", "open", "by"}
    RECORD_ORDER = ["chromosome", "start", "end", "gene", "log2", "depth", "weight", "probes"]

    def param(self, name, typ=None, col=None):
        if name in self.LEAN_KEYWORDS:
            name += "_"
        if col is not None and name not in self.derived:
            self.derived[name] = -1 if col == "len" else self.RECORD_ORDER.index(col)
        if name not in self.params:
            self.params[name] = self.hints.get(name, typ)
        elif self.params[name] is None and typ is not None:
            self.params[name] = typ
        return name, self.params[name]

    def _settle(self, text, typ, want):
        """an untyped parameter takes the type of what it meets"""
        if typ is None and want is not None and want != "num" and text in self.params and self.params[text] is None:
            self.params[text] = want
            return want
        return typ

    def _unify(self, a, ta, b, tb):
        ta = self._settle(a, ta, tb)
        tb = self._settle(b, tb, ta)
        if ta == "num":
            ta = tb
        if tb == "num":
            tb = ta
        return ta if ta is not None else tb

    def _as_list(self, e, env, elem=None):
        t, ty = self.expr(e, env)
        if ty is None:
            ty = "List " + (elem if elem not in (None, "num") else self.elem)
            self.params[t] = ty
        if not str(ty).startswith("List "):
            raise Untranslatable(f"`{ast.unparse(e)}` is used as a list but has type {ty}")
        return t, ty

    @staticmethod
    def _zero(elem):
        return {"String": '""'}.get(elem, "0")

    # -- expressions ---------------------------------------------------------------------------------------------
    def expr(self, e, env):
        """(Lean term, type); type None = a parameter whose type is not known yet, "num" = an integer literal"""
        if isinstance(e, ast.Constant):
            if isinstance(e.value, bool) or e.value is None:
                raise Untranslatable(f"constant {e.value!r} in value position")
            if isinstance(e.value, int):
                return (str(e.value) if e.value >= 0 else f"({e.value})"), "num"
            if isinstance(e.value, float):
                return _rat(e.value), "Rat"
            if isinstance(e.value, str):
                return _lean_str(e.value), "String"
            raise Untranslatable(f"constant {e.value!r}")
        if isinstance(e, ast.Name):
            if e.id in env:
                v = env[e.id]
                if len(v) == 3 and v[0] == "LAZY":   # bound outside the piece being read: translated where it is used
                    return self.expr(v[1], v[2])
                return v
            return self.param(e.id)
        if isinstance(e, ast.Attribute) and isinstance(e.value, ast.Name) and e.value.id == "params" \
                and e.attr in self.PARAMS:
            return e.attr, self.PARAMS[e.attr]   # the constant of Generated/Consts.lean
        if isinstance(e, ast.Attribute) and e.attr in self.COLUMNS and isinstance(e.value, ast.Name) \
                and e.value.id not in env:
            if self.column_lists:
                return self.param(e.attr, "List " + self.COLUMNS[e.attr], col=e.attr)
            return self.param(f"{e.value.id}_{e.attr}", self.COLUMNS[e.attr], col=e.attr)
        if isinstance(e, ast.Subscript):
            sl = e.slice
            if isinstance(sl, ast.Constant) and isinstance(sl.value, str) and sl.value in self.COLUMNS:
                # a column of the table at hand (`self.data["log2"]`), or a field of a row (`row["log2"]`)
                base = e.value
                if isinstance(base, ast.Attribute) and base.attr == "data":
                    base = base.value
                if isinstance(base, ast.Name) and base.id not in env:
                    if self.column_lists:
                        return self.param(sl.value, "List " + self.COLUMNS[sl.value], col=sl.value)
                    if base.id in self.table_names:
                        return self.param(sl.value, self.COLUMNS[sl.value], col=sl.value)
                    return self.param(f"{base.id}_{sl.value}", self.COLUMNS[sl.value], col=sl.value)
            if isinstance(e.value, ast.Attribute) and e.value.attr in ("iat", "iloc"):
                # `column.iat[0]` / `column.iat[-1]`: first / last element, like `column[0]` / `column[-1]`
                return self.expr(ast.Subscript(value=e.value.value, slice=sl, ctx=ast.Load()), env)
            idx = None
            if isinstance(sl, ast.Constant) and isinstance(sl.value, int):
                idx = sl.value
            elif isinstance(sl, ast.UnaryOp) and isinstance(sl.op, ast.USub) and isinstance(sl.operand, ast.Constant):
                idx = -sl.operand.value
            if idx in (0, -1):
                t, ty = self._as_list(e.value, env)
                el = ty[5:]
                return f"({t}.{'headD' if idx == 0 else 'getLastD'} {self._zero(el)})", el
            raise Untranslatable("subscript " + ast.unparse(e))
        if isinstance(e, ast.UnaryOp) and isinstance(e.op, ast.USub):
            t, ty = self.expr(e.operand, env)
            return f"(-{t})", ty
        if isinstance(e, (ast.Tuple, ast.List)):
            items = []
            el = None
            for x in e.elts:
                if ast.unparse(x) in ("np.nan", "numpy.nan", "float('nan')", "math.nan"):
                    continue
                t, ty = self.expr(x, env)
                el = el or ty
                items.append(t)
            return "[" + ", ".join(items) + "]", "List " + (el or self.elem)
        if isinstance(e, ast.BinOp):
            a, ta = self.expr(e.left, env)
            b, tb = self.expr(e.right, env)
            if isinstance(e.op, ast.Add) and (str(ta).startswith("List ") or str(tb).startswith("List ")):
                ty = ta if str(ta).startswith("List ") else tb
                self._settle(a, ta, ty)
                self._settle(b, tb, ty)
                return f"({a} ++ {b})", ty
            sym = {ast.Add: "+", ast.Sub: "-", ast.Mult: "*"}.get(type(e.op))
            if sym is None:
                raise Untranslatable(ast.unparse(e))
            ty = self._unify(a, ta, b, tb)
            if ty is not None and ty != "num" and ty not in self.NUMERIC:
                raise Untranslatable(f"arithmetic on {ty}: " + ast.unparse(e))
            return f"({a} {sym} {b})", ty
        if isinstance(e, ast.Call):
            f = ast.unparse(e.func)
            args = e.args
            if f in ("abs", "np.abs", "np.absolute") and len(args) == 1 and not e.keywords:
                t, ty = self.expr(args[0], env)
                return f"(if {t} < 0 then -{t} else {t})", ty
            if f in ("tuple", "list") and len(args) == 1 and not e.keywords:
                return self._as_list(args[0], env, "String" if self.elem is None else None)
            if f == "len" and len(args) == 1:
                a0 = args[0]
                if isinstance(a0, ast.Name) and a0.id not in env and not str(
                        self.params.get(a0.id) or self.hints.get(a0.id) or "").startswith("List "):
                    return self.param(a0.id + "_len", "Nat", col="len")   # the length of a table: a parameter of its own
                t, _ty = self._as_list(a0, env)
                return f"{t}.length", "Nat"
            if f in ("int", "math.ceil", "np.ceil", "float") and len(args) == 1 and not e.keywords:
                t, ty = self.expr(args[0], env)
                if ty in ("Int", "Nat") or (f == "float" and ty == "Rat"):
                    return t, ty
                raise Untranslatable(f"{f} of a value of type {ty}: " + ast.unparse(e))
            if isinstance(e.func, ast.Attribute) and e.func.attr in ("sum", "mean", "any") and not args and not e.keywords:
                t, ty = self.expr(e.func.value, env)
                if str(ty).startswith("List ") and ty[5:] in self.NUMERIC:
                    if e.func.attr == "sum":
                        return f"{t}.sum", ty[5:]
                    if e.func.attr == "mean" and ty == "List Rat":
                        return f"({t}.sum / ({t}.length : Rat))", "Rat"
                    if e.func.attr == "any":
                        return f"({t}.any (fun x => decide (x ≠ 0)))", "Bool"
                raise Untranslatable(f"reduction {e.func.attr} of {ty}: " + ast.unparse(e))
            if f in ("np.average", "numpy.average") and len(args) == 1 and len(e.keywords) == 1 \
                    and e.keywords[0].arg == "weights":
                a, ta = self.expr(args[0], env)
                w, tw = self.expr(e.keywords[0].value, env)
                if ta == "List Rat" and tw == "List Rat":
                    return f"((List.zipWith (· * ·) {a} {w}).sum / {w}.sum)", "Rat"
                raise Untranslatable("np.average of " + f"{ta}, {tw}")
            if f == "sum" and len(args) == 1 and isinstance(args[0], ast.GeneratorExp) and len(args[0].generators) == 1:
                g = args[0].generators[0]
                if isinstance(g.target, ast.Name) and not g.ifs:
                    lt, lty = self._as_list(g.iter, env)
                    inner = dict(env)
                    inner[g.target.id] = (g.target.id, lty[5:])
                    c = self.cond(args[0].elt, inner)
                    return f"({lt}.countP (fun {g.target.id} => decide {c}))", "Nat"
            raise Untranslatable("call " + ast.unparse(e))
        raise Untranslatable(ast.unparse(e))

    def cond(self, e, env):
        """a Lean proposition (decidable)"""
        if isinstance(e, ast.BoolOp):
            op = " ∧ " if isinstance(e.op, ast.And) else " ∨ "
            return "(" + op.join(self.cond(v, env) for v in e.values) + ")"
        if isinstance(e, ast.UnaryOp) and isinstance(e.op, (ast.Not, ast.Invert)):
            return f"(¬ {self.cond(e.operand, env)})"
        if isinstance(e, ast.Compare):
            parts = []
            left = e.left
            for op, right in zip(e.ops, e.comparators):
                if isinstance(op, (ast.Is, ast.IsNot)) and isinstance(right, ast.Constant) and right.value is None:
                    _a, ta = self.expr(left, env)
                    if ta in ("Rat", "Option Rat"):   # a float (NaN included) is never None
                        parts.append("False" if isinstance(op, ast.Is) else "True")
                        left = right
                        continue
                    raise Untranslatable("None-test of a value of type " + str(ta))
                if isinstance(op, (ast.In, ast.NotIn)):
                    a, ta = self.expr(left, env)
                    l, lty = self._as_list(right, env, ta)
                    self._settle(a, ta, lty[5:])
                    parts.append(f"{a} ∈ {l}" if isinstance(op, ast.In) else f"¬ {a} ∈ {l}")
                else:
                    sym = {ast.Lt: "<", ast.LtE: "≤", ast.Gt: ">", ast.GtE: "≥", ast.Eq: "=", ast.NotEq: "≠"}.get(type(op))
                    if sym is None:
                        raise Untranslatable(ast.unparse(e))
                    a, ta = self.expr(left, env)
                    b, tb = self.expr(right, env)
                    self._unify(a, ta, b, tb)
                    parts.append(f"{a} {sym} {b}")
                left = right
            if len(parts) == 1 and parts[0] in ("True", "False"):
                return parts[0]
            return "(" + " ∧ ".join(parts) + ")"
        if isinstance(e, ast.Constant) and isinstance(e.value, bool):
            return "True" if e.value else "False"
        if isinstance(e, ast.Compare) and False:
            pass
        # truthiness of a value
        if isinstance(e, ast.Name) and self.column_lists and e.id in self.table_names and e.id not in env:
            return f"({self.param(e.id + '_len', 'Nat', col='len')[0]} ≠ 0)"   # a table is true when it has rows
        if isinstance(e, ast.Name) and e.id in env and len(env[e.id]) == 2 and env[e.id][1] == "Prop":
            return env[e.id][0]
        t, ty = self.expr(e, env)
        if ty is None:
            ty = self._settle(t, ty, self.num)
        if ty in self.NUMERIC or ty == "num":
            return f"({t} ≠ 0)"
        if ty == "Bool":
            return f"({t} = true)"
        if ty == "String":
            return f'({t} ≠ "")'
        if str(ty).startswith("List "):
            return f"({t} ≠ [])"
        raise Untranslatable("truth value of " + ast.unparse(e))

    # -- one iteration of a loop / a straight-line block that yields ------------------------------------------------
    def _slice_pair(self, e, env):
        """`wrapper(table.iloc[a:b])` / `table.iloc[a:b]` -> (a, some b) / (a, none); None if `e` is not such a slice"""
        x = e
        while isinstance(x, ast.Call) and len(x.args) == 1 and not x.keywords and isinstance(x.func, ast.Attribute):
            x = x.args[0]
        if isinstance(x, ast.Subscript) and isinstance(x.value, ast.Attribute) and x.value.attr == "iloc" \
                and isinstance(x.slice, ast.Slice) and x.slice.step is None:
            lo = ("0", "num") if x.slice.lower is None else self.expr(x.slice.lower, env)
            self._settle(lo[0], lo[1], "Nat")
            if x.slice.upper is None:
                return f"({lo[0]}, none)"
            hi = self.expr(x.slice.upper, env)
            self._settle(hi[0], hi[1], "Nat")
            return f"({lo[0]}, some {hi[0]})"
        return None

    opaque_calls = ()

    def _first_row(self, v):
        """`table[0]`, `table[0].copy()`, `table.iloc[0]`"""
        if isinstance(v, ast.Call) and isinstance(v.func, ast.Attribute) and v.func.attr == "copy" and not v.args:
            v = v.func.value
        if isinstance(v, ast.Subscript) and isinstance(v.slice, ast.Constant) and v.slice.value == 0:
            b = v.value
            if isinstance(b, ast.Attribute) and b.attr == "iloc":
                b = b.value
            return isinstance(b, ast.Name) and b.id in self.table_names
        return False

    def yielded(self, e, env):
        if isinstance(e, ast.Name) and e.id in env and env[e.id][0] == "REC":
            # a row record: the fields in table order; a field that was not assigned is the first row's
            rec, out = env[e.id][1], []
            for col in self.RECORD_ORDER:
                if col in rec:
                    out.append(rec[col])
                elif col in self.COLUMNS and col != "probes":
                    t, ty = self.param(col, "List " + self.COLUMNS[col], col=col)
                    out.append(f"({t}.headD {self._zero(ty[5:])})")
            return "(" + ", ".join(out) + ")"
        if isinstance(e, ast.Tuple):
            return "(" + ", ".join(self.yielded(x, env) for x in e.elts) + ")"
        sp = self._slice_pair(e, env)
        if sp is not None:
            return sp
        return self.expr(e, env)[0]

    def step(self, stmts, env, ys, state):
        """the rest of one iteration: a term of type `List Y` (no loop-carried variables) or `List Y × S₁ × …`"""
        if not stmts or isinstance(stmts[0], ast.Continue):
            out = "[" + ", ".join(ys) + "]"
            if not state:
                return out
            return "(" + ", ".join([out] + [self.expr(ast.Name(id=v, ctx=ast.Load()), env)[0] for v in state]) + ")"
        s, rest = stmts[0], list(stmts[1:])
        if isinstance(s, ast.Expr):
            v = s.value
            if isinstance(v, ast.Constant):
                return self.step(rest, env, ys, state)
            if isinstance(v, ast.Yield) and v.value is not None:
                return self.step(rest, env, ys + [self.yielded(v.value, env)], state)
            if isinstance(v, ast.Call) and isinstance(v.func, ast.Attribute):
                if isinstance(v.func.value, ast.Name) and v.func.value.id == "logging":
                    return self.step(rest, env, ys, state)
                if v.func.attr == "append" and len(v.args) == 1 and not v.keywords:
                    return self.step(rest, env, ys + [self.yielded(v.args[0], env)], state)
            raise Untranslatable("statement " + ast.unparse(s)[:80])
        if isinstance(s, ast.Assign) and len(s.targets) == 1 and isinstance(s.targets[0], ast.Name) \
                and self.column_lists and self._first_row(s.value):
            env = dict(env)
            env[s.targets[0].id] = ("REC", {})   # a copy of the table's first row
            return self.step(rest, env, ys, state)
        if isinstance(s, ast.Assign) and len(s.targets) == 1 and isinstance(s.targets[0], ast.Subscript) \
                and isinstance(s.targets[0].value, ast.Name) and s.targets[0].value.id in env \
                and env[s.targets[0].value.id][0] == "REC" and isinstance(s.targets[0].slice, ast.Constant) \
                and s.targets[0].slice.value in self.RECORD_ORDER:
            env = dict(env)
            rec = dict(env[s.targets[0].value.id][1])
            rec[s.targets[0].slice.value] = self.expr(s.value, env)[0]
            env[s.targets[0].value.id] = ("REC", rec)
            return self.step(rest, env, ys, state)
        if isinstance(s, ast.Assign) and len(s.targets) == 1 and isinstance(s.targets[0], ast.Name) \
                and isinstance(s.value, ast.Call) and isinstance(s.value.func, ast.Name) \
                and s.targets[0].id in self.hints and s.value.func.id in self.opaque_calls:
            env = dict(env)
            env[s.targets[0].id] = self.param(s.targets[0].id)   # the result of another module's function
            return self.step(rest, env, ys, state)
        if isinstance(s, ast.Assign) and len(s.targets) == 1 and isinstance(s.targets[0], ast.Name):
            env = dict(env)
            if isinstance(s.value, (ast.Compare, ast.BoolOp)):
                env[s.targets[0].id] = (self.cond(s.value, env), "Prop")
            else:
                env[s.targets[0].id] = self.expr(s.value, env)
            return self.step(rest, env, ys, state)
        if isinstance(s, ast.AugAssign) and isinstance(s.target, ast.Name) and isinstance(s.op, (ast.BitOr, ast.BitAnd)) \
                and s.target.id in env and env[s.target.id][1] == "Prop":
            env = dict(env)
            op = "∨" if isinstance(s.op, ast.BitOr) else "∧"
            env[s.target.id] = (f"({env[s.target.id][0]} {op} {self.cond(s.value, env)})", "Prop")
            return self.step(rest, env, ys, state)
        if isinstance(s, ast.Return) and not state and not ys and s.value is not None and self.column_lists:
            # a function of whole columns that may return NaN: `Option`, NaN = none
            if ast.unparse(s.value) in ("np.nan", "numpy.nan", "math.nan", "float('nan')"):
                return "none"
            return f"some {self.expr(s.value, env)[0]}"
        if isinstance(s, ast.Return) and not state and not ys and s.value is not None:
            v = s.value
            if isinstance(v, ast.Subscript) and isinstance(v.value, ast.Name) and v.value.id in self.table_names:
                return f"decide {self.cond(v.slice, env)}"   # `table[mask]`: the rows it keeps
            return self.expr(v, env)[0]
        if isinstance(s, ast.If) and not s.orelse and all(
                isinstance(b, ast.Expr) and isinstance(b.value, ast.Call) and isinstance(b.value.func, ast.Attribute)
                and isinstance(b.value.func.value, ast.Name) and b.value.func.value.id == "logging" for b in s.body):
            return self.step(rest, env, ys, state)   # an `if` that only logs
        if isinstance(s, ast.If):
            c = self.cond(s.test, env)
            if c == "True":
                return self.step(list(s.body) + rest, dict(env), list(ys), state)
            if c == "False":
                return self.step(list(s.orelse) + rest, dict(env), list(ys), state)
            th = self.step(list(s.body) + rest, dict(env), list(ys), state)
            el = self.step(list(s.orelse) + rest, dict(env), list(ys), state)
            return f"(if {c} then {th} else {el})"
        raise Untranslatable(type(s).__name__ + ": " + ast.unparse(s)[:80])

    # -- emission ------------------------------------------------------------------------------------------------
    def ordered(self):
        """the parameters in CANONICAL order, so that a rewrite which only changes where a name is first used keeps
        the signature: the enclosing function's own parameters and the loop targets (`first`, in that order), then the
        fields / columns / lengths read off rows and tables (in table order, equal ones in order of first use), then
        any other free name in order of first use"""
        use = {n: k for k, n in enumerate(self.params)}

        def key(n):
            if n in self.first:
                return (0, self.first.index(n), 0)
            if n in self.derived:
                return (1, self.derived[n], use[n])
            return (2, use[n], 0)
        return sorted(self.params, key=key)

    def signature(self):
        out = []
        for name in self.ordered():
            ty = self.params[name]
            ty = ty or self.num
            out.append(f"({name} : {ty})")
        return " ".join(out)

    def define(self, lean_name, ret, body, comment=None):
        doc = f"/-- {comment} -/\n" if comment else ""
        sig = self.signature()
        return doc + f"def {lean_name} {sig + ' ' if sig else ''}: {ret} :=\n  {body}", self.ordered()


def emit_typed(o, lean_name, build, comment=None):
    """`build()` returns (TFn, return type, body); a piece outside the subset leaves a comment instead of a definition,
    so that exactly the theorems about it stop checking"""
    try:
        t, ret, body = build()
        text, params = t.define(lean_name, ret, body, comment)
    except (Untranslatable, KeyError, IndexError, StopIteration, OSError, SyntaxError, AttributeError) as e:
        o.lines.append(f"-- NOT TRANSLATED: {lean_name}: {type(e).__name__}: {str(e)[:200]}".replace("\n", " "))
        o.info[lean_name] = {"error": str(e)[:200]}
        return
    o.lines.append(text)
    o.info[lean_name] = {"params": params}
