"""Python function -> Lean definition, for the small pure arithmetic functions of cnvkit.

The accepted subset is deliberately narrow; anything outside it raises `Untranslatable`, which the check treats
as a broken tie (the generated file then fails to build, or the lock differs), never as silence.

Reading of the source
* every parameter and local is a rational number (`Rat`); array parameters are read ELEMENTWISE: the numpy code
  `x[mask] -= f(y[mask])` means "where mask holds, x becomes x - f(y)", so `a[mask]` is read as `a` and a masked
  augmented assignment as a conditional update (the functions translated here contain no reductions over arrays);
* `2 ** name` (the antilog of a log2 value) becomes a fresh parameter `name_pow2` -- the models work in ratio
  space, where the exact value of that double is an input;
* `len(name)` becomes the parameter `name_len`; `name.median()` the parameter `name_median`;
* truthiness of a number (`purity and purity < 1.0`) is `≠ 0`; `x is None` / `is not None` are resolved by the
  `given` argument (which optional parameters are supplied);
* `if cond: raise ...` guards and `assert` statements are dropped (the models state these as preconditions),
  unless the raise is the only way out of an else-branch, in which case the branch yields `default_on_raise`;
* `int(e)` truncates toward zero, `math.ceil`/`np.ceil` and `//` are exact on rationals, `round` is not accepted;
* float literals are the exact doubles.

Added for the decision code of C15 (classes `FnOpt`, `BoolFn` at the end of this file; used by
harness/extractors/exprs_sex.py, and the statement-shape reader harness/extractors/exprs_center.py):
* `FnOpt`: `a, b = helper(x, ...)` from a helper named `opaque` leaves `a`, `b` as the helper's results (bound by the
  caller of the translator: the helper itself and `+` on its array argument stay abstract); `and`/`or` over resolved
  `is None` tests are folded; with `decimal_floats` a float literal is the DECIMAL written in the source (`0.01` = 1/100);
* `BoolFn`: functions over flags and boolean masks read elementwise -- every name a `Bool`; `and or not & | ~` as
  `&& || !`; `.values` transparent; `self.m(args)` an opaque mask atom `m_args`; `<x>.<col> == self.<label>` the atom
  `<col>_eq_<label>`; `m &= e`; `arr = np.zeros(..)` / `self.copy()` start an element at 0 (the CHANGE of the element for a
  copy), `arr[mask] = c`, `arr[mask, "col"] += c` update it; `if p is None: p = ...` is skipped for a parameter given.
"""
from __future__ import annotations

import ast
from fractions import Fraction


class Untranslatable(Exception):
    pass


def _rat(x):
    f = Fraction(x)
    if f.denominator == 1:
        return f"({f.numerator} : Rat)" if f.numerator >= 0 else f"(({f.numerator}) : Rat)"
    return f"(({f.numerator} : Rat) / {f.denominator})"


class Fn:
    def __init__(self, fn: ast.FunctionDef, given=(), absent=(), default_on_raise=None, rename=None, callees=None):
        self.callees = callees or {}
        self.fn = fn
        self.given = set(given)      # optional parameters known to be supplied (not None)
        self.absent = set(absent)    # optional parameters known to be None
        self.params = []             # Lean parameters in order of first use
        self.default_on_raise = default_on_raise
        self.rename = rename or {}

    # -- parameters ------------------------------------------------------------------------------
    def param(self, name):
        name = self.rename.get(name, name)
        if name not in self.params:
            self.params.append(name)
        return name

    # -- expressions -----------------------------------------------------------------------------
    def expr(self, e, env):
        if isinstance(e, ast.Constant):
            if isinstance(e.value, bool) or e.value is None:
                raise Untranslatable(f"constant {e.value!r} in arithmetic position")
            if isinstance(e.value, (int, float)):
                return _rat(e.value)
            raise Untranslatable(f"constant {e.value!r}")
        if isinstance(e, ast.Name):
            if e.id in env:
                return env[e.id]
            return self.param(e.id)
        if isinstance(e, ast.Subscript):
            # elementwise reading of `array[mask]`
            if isinstance(e.value, ast.Name) and isinstance(e.slice, ast.Name):
                return self.expr(e.value, env)
            raise Untranslatable("subscript " + ast.unparse(e))
        if isinstance(e, ast.UnaryOp):
            if isinstance(e.op, ast.USub):
                return f"(-{self.expr(e.operand, env)})"
            if isinstance(e.op, ast.UAdd):
                return self.expr(e.operand, env)
            raise Untranslatable(ast.unparse(e))
        if isinstance(e, ast.BinOp):
            if isinstance(e.op, ast.Pow):
                if isinstance(e.left, ast.Constant) and e.left.value == 2 and isinstance(e.right, ast.Name) \
                        and e.right.id not in env:
                    return self.param(e.right.id + "_pow2")
                if isinstance(e.right, ast.Constant) and isinstance(e.right.value, int) and e.right.value >= 0:
                    return f"({self.expr(e.left, env)} ^ {e.right.value})"
                raise Untranslatable("power " + ast.unparse(e))
            a, b = self.expr(e.left, env), self.expr(e.right, env)
            if isinstance(e.op, ast.Add):
                return f"({a} + {b})"
            if isinstance(e.op, ast.Sub):
                return f"({a} - {b})"
            if isinstance(e.op, ast.Mult):
                return f"({a} * {b})"
            if isinstance(e.op, ast.Div):
                return f"({a} / {b})"
            if isinstance(e.op, ast.FloorDiv):
                return f"(((({a}) / ({b})).floor : Int) : Rat)"
            raise Untranslatable(ast.unparse(e))
        if isinstance(e, ast.IfExp):
            return f"(if {self.cond(e.test, env)} then {self.expr(e.body, env)} else {self.expr(e.orelse, env)})"
        if isinstance(e, ast.Call):
            f = ast.unparse(e.func)
            args = e.args
            if f in ("abs", "np.abs", "np.absolute") and len(args) == 1:
                x = self.expr(args[0], env)
                return f"(if {x} < 0 then -{x} else {x})"
            if isinstance(e.func, ast.Attribute) and e.func.attr == "abs" and not args:
                x = self.expr(e.func.value, env)
                return f"(if {x} < 0 then -{x} else {x})"
            if isinstance(e.func, ast.Attribute) and e.func.attr == "median" and not args \
                    and isinstance(e.func.value, ast.Name):
                return self.param(e.func.value.id + "_median")
            if f in ("max", "np.maximum") and len(args) == 2:
                return f"(max {self.expr(args[0], env)} {self.expr(args[1], env)})"
            if f in ("min", "np.minimum") and len(args) == 2:
                return f"(min {self.expr(args[0], env)} {self.expr(args[1], env)})"
            binops = {"np.divide": "/", "np.true_divide": "/", "np.multiply": "*", "np.add": "+", "np.subtract": "-"}
            if f in binops and len(args) == 2 and not e.keywords:
                return f"({self.expr(args[0], env)} {binops[f]} {self.expr(args[1], env)})"
            if f == "np.square" and len(args) == 1:
                return f"({self.expr(args[0], env)} ^ 2)"
            if f == "np.negative" and len(args) == 1:
                return f"(-{self.expr(args[0], env)})"
            if f == "np.where" and len(args) == 3:
                return f"(if {self.cond(args[0], env)} then {self.expr(args[1], env)} else {self.expr(args[2], env)})"
            if f == "len" and len(args) == 1 and isinstance(args[0], ast.Name):
                return self.param(args[0].id + "_len")
            if f in ("math.ceil", "np.ceil") and len(args) == 1:
                return f"((({self.expr(args[0], env)}).ceil : Int) : Rat)"
            if f in ("math.floor", "np.floor") and len(args) == 1:
                return f"((({self.expr(args[0], env)}).floor : Int) : Rat)"
            if f == "int" and len(args) == 1:
                x = self.expr(args[0], env)
                return f"(if {x} < 0 then ((({x}).ceil : Int) : Rat) else ((({x}).floor : Int) : Rat))"
            if f == "float" and len(args) == 1:
                return self.expr(args[0], env)
            if isinstance(e.func, ast.Name) and e.func.id in self.callees and not e.keywords:
                # a call to another plain function of the same module is inlined: its parameters are renamed to
                # the caller's variables when the arguments are plain parameters, bound as locals otherwise
                callee = self.callees[e.func.id]
                names = [a.arg for a in callee.args.args]
                if len(args) > len(names):
                    raise Untranslatable("call " + ast.unparse(e))
                import copy
                body = copy.deepcopy(callee.body)
                ren, inner_env = {}, {}
                for nm, a in zip(names, args):
                    if isinstance(a, ast.Name) and a.id not in env:
                        ren[nm] = a.id
                    else:
                        inner_env[nm] = self.expr(a, env)

                class R(ast.NodeTransformer):
                    def visit_Name(self, node):
                        if node.id in ren:
                            return ast.copy_location(ast.Name(id=ren[node.id], ctx=node.ctx), node)
                        return node
                body = [R().visit(st) for st in body]
                return self.block(body, inner_env)
            raise Untranslatable("call " + ast.unparse(e))
        raise Untranslatable(ast.unparse(e))

    def cond(self, e, env):
        if isinstance(e, ast.BoolOp):
            op = " ∧ " if isinstance(e.op, ast.And) else " ∨ "
            return "(" + op.join(self.cond(v, env) for v in e.values) + ")"
        if isinstance(e, ast.UnaryOp) and isinstance(e.op, ast.Not):
            return f"(¬ {self.cond(e.operand, env)})"
        if isinstance(e, ast.Compare):
            parts = []
            left = e.left
            for op, right in zip(e.ops, e.comparators):
                if isinstance(op, (ast.Is, ast.IsNot)) and isinstance(right, ast.Constant) and right.value is None \
                        and isinstance(left, ast.Name):
                    if left.id in self.given:
                        parts.append("False" if isinstance(op, ast.Is) else "True")
                    elif left.id in self.absent:
                        parts.append("True" if isinstance(op, ast.Is) else "False")
                    else:
                        raise Untranslatable(f"None-test of `{left.id}` not resolved by given/absent")
                else:
                    sym = {ast.Lt: "<", ast.LtE: "≤", ast.Gt: ">", ast.GtE: "≥", ast.Eq: "=", ast.NotEq: "≠"}.get(type(op))
                    if sym is None:
                        raise Untranslatable(ast.unparse(e))
                    parts.append(f"{self.expr(left, env)} {sym} {self.expr(right, env)}")
                left = right
            if len(parts) == 1 and parts[0] in ("True", "False"):
                return parts[0]
            return "(" + " ∧ ".join(parts) + ")"
        if isinstance(e, ast.Name):
            if e.id in env:
                if env[e.id].startswith("MASK:"):
                    return env[e.id][5:]
                if env[e.id] in ("True", "False"):
                    return env[e.id]
            elif e.id in self.absent:
                return "False"
            return f"({self.expr(e, env)} ≠ 0)"   # truthiness of a number
        if isinstance(e, ast.Constant) and isinstance(e.value, bool):
            return "True" if e.value else "False"
        raise Untranslatable("condition " + ast.unparse(e))

    # -- statements ------------------------------------------------------------------------------
    @staticmethod
    def _only_raises(stmts):
        return bool(stmts) and all(isinstance(s, (ast.Raise, ast.Expr)) for s in stmts) and any(
            isinstance(s, ast.Raise) for s in stmts)

    def block(self, stmts, env):
        if not stmts:
            raise Untranslatable("function falls off its end without a return")
        s, rest = stmts[0], stmts[1:]
        if isinstance(s, ast.Expr) and isinstance(s.value, ast.Constant):
            return self.block(rest, env)  # docstring
        if isinstance(s, ast.Assert):
            return self.block(rest, env)
        if isinstance(s, ast.Return):
            return self.expr(s.value, env)
        if isinstance(s, ast.Raise):
            if self.default_on_raise is None:
                raise Untranslatable("raise reached and no default_on_raise")
            return self.default_on_raise
        if isinstance(s, ast.Assign) and len(s.targets) == 1:
            t = s.targets[0]
            if isinstance(t, ast.Name):
                # a mask (comparison) assigned to a name is kept as a condition
                if isinstance(s.value, ast.Compare):
                    env = dict(env)
                    env[t.id] = "MASK:" + self.cond(s.value, env)
                    return self.block(rest, env)
                env = dict(env)
                env[t.id] = self.expr(s.value, env)
                return self.block(rest, env)
            raise Untranslatable("assignment to " + ast.unparse(t))
        if isinstance(s, ast.AugAssign):
            op = {ast.Add: "+", ast.Sub: "-", ast.Mult: "*", ast.Div: "/"}.get(type(s.op))
            if op is None:
                raise Untranslatable(ast.unparse(s))
            t = s.target
            if isinstance(t, ast.Name):
                env = dict(env)
                env[t.id] = f"({self.expr(t, env)} {op} {self.expr(s.value, env)})"
                return self.block(rest, env)
            if isinstance(t, ast.Subscript) and isinstance(t.value, ast.Name) and isinstance(t.slice, ast.Name):
                mask = env.get(t.slice.id, "")
                if not mask.startswith("MASK:"):
                    raise Untranslatable("masked update with a mask that is not a comparison: " + ast.unparse(s))
                env = dict(env)
                cur = self.expr(t.value, env)
                env[t.value.id] = f"(if {mask[5:]} then ({cur} {op} {self.expr(s.value, env)}) else {cur})"
                return self.block(rest, env)
            raise Untranslatable(ast.unparse(s))
        if isinstance(s, ast.If):
            if self._only_raises(s.body) and not s.orelse:
                return self.block(rest, env)  # guard: a precondition of the model
            c = self.cond(s.test, env)
            if c == "True":
                return self.block(list(s.body) + rest, env)
            if c == "False":
                return self.block(list(s.orelse) + rest, env)
            th = self.block(list(s.body) + rest, dict(env))
            el = self.block(list(s.orelse) + rest, dict(env))
            return f"(if {c} then {th} else {el})"
        raise Untranslatable(type(s).__name__ + ": " + ast.unparse(s)[:80])

    def translate(self, lean_name, comment=None):
        # parameters in signature order first (so that the Lean signature is stable), then discovered ones
        body = self.block(list(self.fn.body), {})
        if "MASK:" in body:
            raise Untranslatable("a mask escaped into an arithmetic position")
        sig = [self.rename.get(a.arg, a.arg) for a in self.fn.args.args]
        ordered = [p for p in sig if p in self.params] + [p for p in self.params if p not in sig]
        # `2 ** x` parameters replace x itself when x is not otherwise used
        ps = " ".join(ordered)
        head = f"def {lean_name} ({ps} : Rat) : Rat :=\n  {body}" if ordered else f"def {lean_name} : Rat :=\n  {body}"
        doc = f"/-- {comment} -/\n" if comment else ""
        return doc + head, ordered


def emit(repo, o, specs):
    """translate each (file, function, lean name, Fn kwargs, comment); a function outside the subset leaves a
    comment instead of a definition, so that only the theorems about THAT function stop checking"""
    import os
    from .translate import parse, find_func
    for path, fname, lean, kw, comment in specs:
        try:
            tree, _src = parse(os.path.join(repo, path))
            fn = find_func(tree, fname)
            callees = {n.name: n for n in tree.body if isinstance(n, ast.FunctionDef) and n.name != fname}
            text, params = Fn(fn, callees=callees, **kw).translate(lean, comment)
        except (Untranslatable, KeyError, OSError, SyntaxError) as e:
            o.lines.append(f"-- NOT TRANSLATED: {path}:{fname}: {type(e).__name__}: {str(e)[:200]}".replace("\n", " "))
            o.info[lean] = {"error": str(e)[:200]}
            continue
        o.lines.append(text)
        o.info[lean] = {"params": params}


# ------------------------------------------------------------------------------------------------------------
# Additions for decision code that is not plain arithmetic (C15: cnary.shift_xx, expect_flat_log2, chr_x_filter,
# compare_sex_chromosomes and its nested helper compare_chrom).  Further reading rules (trusted base):
# * `FnOpt`: a tuple assignment `a, b = helper(first_arg, ...)` from a helper named in `opaque` leaves `a`, `b` as
#   results of that helper (free names, bound by the caller of the translator); `x is None` tests on such names are
#   resolved by given/absent as before, and `and`/`or` over resolved tests are folded (`True ∧ c` = `c`, ...), so a
#   branch that cannot be taken does not mention the absent name.  With `decimal_floats` a float literal is read as
#   the DECIMAL written in the source (`0.01` = 1/100; the models of this group state their floors and thresholds
#   as decimals, the exact double differs by less than one ulp).
# * `BoolFn`: a function over flags and boolean masks, read ELEMENTWISE: every parameter / local is a `Bool`;
#   `and or not`, `& | ~` are `&& || !`; `.values` is transparent; a method call on `self` that returns a mask
#   (`self.chr_x_filter(g)`) is an opaque atom named after the method and the names of its arguments;
#   `<anything>.<col> == self.<label>` is the atom `<col>_eq_<label>`; `m &= e` / `m |= e` update a mask;
#   `arr = np.zeros(...)`, `arr[mask] = c`, `arr[mask, "col"] += c` are read as the value of one element (start 0 /
#   the increment), `if x is None: x = ...` defaulting statements are skipped for parameters named in `given`.
# ------------------------------------------------------------------------------------------------------------

class FnOpt(Fn):
    def __init__(self, fn, opaque=(), decimal_floats=False, **kw):
        super().__init__(fn, **kw)
        self.opaque = set(opaque)
        self.opaque_calls = []   # (targets, call node) in source order
        self.decimal_floats = decimal_floats

    def expr(self, e, env):
        if self.decimal_floats and isinstance(e, ast.Constant) and isinstance(e.value, float):
            return _rat(Fraction(repr(e.value)))   # the decimal as written (shortest repr of the double)
        return super().expr(e, env)

    def cond(self, e, env):
        if isinstance(e, ast.BoolOp):
            parts = [self.cond(v, env) for v in e.values]
            if isinstance(e.op, ast.And):
                if "False" in parts:
                    return "False"
                parts = [p for p in parts if p != "True"]
                if not parts:
                    return "True"
            else:
                if "True" in parts:
                    return "True"
                parts = [p for p in parts if p != "False"]
                if not parts:
                    return "False"
            if len(parts) == 1:
                return parts[0]
            return "(" + (" ∧ " if isinstance(e.op, ast.And) else " ∨ ").join(parts) + ")"
        return super().cond(e, env)

    def block(self, stmts, env):
        if stmts:
            s = stmts[0]
            if isinstance(s, ast.Assign) and len(s.targets) == 1 and isinstance(s.targets[0], ast.Tuple) \
                    and isinstance(s.value, ast.Call) and isinstance(s.value.func, ast.Name) \
                    and s.value.func.id in self.opaque \
                    and all(isinstance(t, ast.Name) for t in s.targets[0].elts):
                self.opaque_calls.append(([t.id for t in s.targets[0].elts], s.value))
                return self.block(stmts[1:], env)
        return super().block(stmts, env)


class BoolFn:
    """elementwise reading of a function over flags and boolean masks (see the rules above)"""

    def __init__(self, fn, given=(), absent=()):
        self.fn, self.given, self.absent = fn, set(given), set(absent)
        self.params = []

    def atom(self, name):
        if name not in self.params:
            self.params.append(name)
        return name

    def mask(self, e, env):
        if isinstance(e, ast.Attribute) and e.attr == "values":
            return self.mask(e.value, env)
        if isinstance(e, ast.Name):
            return env[e.id] if e.id in env else self.atom(e.id)
        if isinstance(e, ast.Constant) and isinstance(e.value, bool):
            return "true" if e.value else "false"
        if isinstance(e, ast.BoolOp):
            op = " && " if isinstance(e.op, ast.And) else " || "
            return "(" + op.join(self.mask(v, env) for v in e.values) + ")"
        if isinstance(e, ast.BinOp) and isinstance(e.op, (ast.BitAnd, ast.BitOr)):
            op = " && " if isinstance(e.op, ast.BitAnd) else " || "
            return f"({self.mask(e.left, env)}{op}{self.mask(e.right, env)})"
        if isinstance(e, ast.UnaryOp) and isinstance(e.op, (ast.Not, ast.Invert)):
            return f"(!{self.mask(e.operand, env)})"
        if isinstance(e, ast.Compare) and len(e.ops) == 1:
            l, r = e.left, e.comparators[0]
            if isinstance(e.ops[0], (ast.Is, ast.IsNot)) and isinstance(r, ast.Constant) and r.value is None \
                    and isinstance(l, ast.Name):
                if l.id in self.given:
                    return "false" if isinstance(e.ops[0], ast.Is) else "true"
                if l.id in self.absent:
                    return "true" if isinstance(e.ops[0], ast.Is) else "false"
                raise Untranslatable(f"None-test of `{l.id}` not resolved by given/absent")
            if isinstance(e.ops[0], ast.Eq) and isinstance(l, ast.Attribute) and isinstance(r, ast.Attribute) \
                    and isinstance(r.value, ast.Name) and r.value.id == "self":
                return self.atom(f"{l.attr}_eq_{r.attr}")
        if isinstance(e, ast.Call) and isinstance(e.func, ast.Attribute) and isinstance(e.func.value, ast.Name) \
                and e.func.value.id == "self":
            names = []
            for a in list(e.args) + [k.value for k in e.keywords]:
                if not isinstance(a, ast.Name):
                    raise Untranslatable("mask call " + ast.unparse(e))
                if a.id in self.absent:
                    continue   # passing None on = not passing it
                names.append(a.id)
            return self.atom("_".join([e.func.attr] + names))
        raise Untranslatable("mask " + ast.unparse(e))

    def num(self, e):
        if isinstance(e, ast.UnaryOp) and isinstance(e.op, (ast.USub, ast.UAdd)) and isinstance(e.operand, ast.Constant):
            v = -e.operand.value if isinstance(e.op, ast.USub) else e.operand.value
            return _rat(v)
        if isinstance(e, ast.Constant) and isinstance(e.value, (int, float)) and not isinstance(e.value, bool):
            return _rat(e.value)
        raise Untranslatable("number " + ast.unparse(e))

    def is_default_fill(self, s):
        # `if p is None: p = ...` for a parameter that is given
        return isinstance(s, ast.If) and not s.orelse and isinstance(s.test, ast.Compare) and len(s.test.ops) == 1 \
            and isinstance(s.test.ops[0], ast.Is) and isinstance(s.test.left, ast.Name) and s.test.left.id in self.given \
            and isinstance(s.test.comparators[0], ast.Constant) and s.test.comparators[0].value is None

    # value of one element of the returned array / mask; `val` = current element value (Lean term) of each array local
    def block(self, stmts, env, val):
        if not stmts:
            raise Untranslatable("function falls off its end without a return")
        s, rest = stmts[0], stmts[1:]
        if isinstance(s, ast.Expr) and isinstance(s.value, ast.Constant):
            return self.block(rest, env, val)
        if isinstance(s, ast.Assert) or self.is_default_fill(s):
            return self.block(rest, env, val)
        if isinstance(s, ast.Return):
            if isinstance(s.value, ast.Name) and s.value.id in val:
                return val[s.value.id], "Rat"
            return self.mask(s.value, env), "Bool"
        if isinstance(s, ast.Assign) and len(s.targets) == 1:
            t = s.targets[0]
            if isinstance(t, ast.Name):
                v = s.value
                if isinstance(v, ast.Call) and ast.unparse(v.func) in ("np.zeros", "np.zeros_like"):
                    return self.block(rest, env, {**val, t.id: "(0 : Rat)"})
                if isinstance(v, ast.Call) and isinstance(v.func, ast.Attribute) and v.func.attr == "copy" and not v.args:
                    return self.block(rest, env, {**val, t.id: "(0 : Rat)"})   # a copy: element change starts at 0
                return self.block(rest, {**env, t.id: self.mask(v, env)}, val)
            if isinstance(t, ast.Subscript) and isinstance(t.value, ast.Name) and t.value.id in val:
                m = self.mask(t.slice, env)
                return self.block(rest, env, {**val, t.value.id: f"(if {m} then {self.num(s.value)} else {val[t.value.id]})"})
        if isinstance(s, ast.AugAssign):
            t = s.target
            if isinstance(t, ast.Name) and isinstance(s.op, (ast.BitAnd, ast.BitOr)):
                op = " && " if isinstance(s.op, ast.BitAnd) else " || "
                cur = env[t.id] if t.id in env else self.atom(t.id)
                return self.block(rest, {**env, t.id: f"({cur}{op}{self.mask(s.value, env)})"}, val)
            if isinstance(t, ast.Subscript) and isinstance(t.value, ast.Name) and t.value.id in val \
                    and isinstance(s.op, (ast.Add, ast.Sub)):
                sl = t.slice
                if isinstance(sl, ast.Tuple) and len(sl.elts) == 2 and isinstance(sl.elts[1], ast.Constant):
                    self.atom_cols = getattr(self, "atom_cols", []) + [sl.elts[1].value]
                    sl = sl.elts[0]
                m = self.mask(sl, env)
                op = "+" if isinstance(s.op, ast.Add) else "-"
                cur = val[t.value.id]
                return self.block(rest, env, {**val, t.value.id: f"(if {m} then ({cur} {op} {self.num(s.value)}) else {cur})"})
        if isinstance(s, ast.If):
            c = self.mask(s.test, env)
            if c == "true":
                return self.block(list(s.body) + rest, env, val)
            if c == "false":
                return self.block(list(s.orelse) + rest, env, val)
            th, ty1 = self.block(list(s.body) + rest, dict(env), dict(val))
            el, ty2 = self.block(list(s.orelse) + rest, dict(env), dict(val))
            if ty1 != ty2:
                raise Untranslatable("branches of different type")
            return f"(if {c} then {th} else {el})", ty1
        raise Untranslatable(type(s).__name__ + ": " + ast.unparse(s)[:80])

    def translate(self, lean_name, comment=None):
        body, ty = self.block(list(self.fn.body), {}, {})
        sig = [a.arg for a in self.fn.args.args]
        ordered = [p for p in sig if p in self.params] + [p for p in self.params if p not in sig]
        ps = f" ({' '.join(ordered)} : Bool)" if ordered else ""
        doc = f"/-- {comment} -/\n" if comment else ""
        return doc + f"def {lean_name}{ps} : {ty} :=\n  {body}", ordered
