"""C11 extension (round 5): the state tables and the initial model of EVERY method branch of
`cnvlib/segmentation/hmm.py:hmm_get_model` (`hmm-germline`, `hmm-tumor`, `hmm`), op `hmm_states`.

The real `hmm_get_model(cnarr, method, None, 1)` is run up to its `from_matrix` call (the call is recorded and the
training that follows is skipped by a sentinel exception: Baum-Welch is outside the model).  Observed: the state names,
the means / `frozen` flags of the `NormalDistribution`s, the start vector and the transition matrix.  They are compared
with the constants the translator reads from the source text (`Generated.HMM_<TABLE>_STATES / _MEANS / _FROZEN`,
`Generated.HMM_START_n / HMM_TRANS_n`), which Props/C11HmmM.lean puts under shape obligations.  A difference breaks the
tie (model-vs-real disagreement); no clause of the property speaks about these numbers directly.
"""
from __future__ import annotations

from .core import frac

METHODS = ("hmm-germline", "hmm-tumor", "hmm")


class _Stop(Exception):
    pass


def gen():
    return [{"op": "hmm_states", "tag": "hmm-states:" + m, "in": {"method": m}} for m in METHODS]


def run_impl(case, cna_of):
    import random
    import numpy as np
    from cnvlib.segmentation import hmm
    method = case["in"]["method"]
    seen = {}
    real = hmm.pom

    class _HMM:
        @staticmethod
        def from_matrix(*a, **k):
            seen["args"] = a
            seen["kw"] = dict(k)
            raise _Stop()

    class _Pom:
        HiddenMarkovModel = _HMM

        def __getattr__(self, name):
            return getattr(real, name)

    r = random.Random(7)
    chroms = [{"name": "chr1", "bins": [[1000 * k, 500, (0.0 if k < 120 else -1.0) + r.gauss(0, 0.05), 1.0] for k in range(240)]}]
    hmm.pom = _Pom()
    try:
        hmm.hmm_get_model(cna_of(chroms), method, None, 1)
    except _Stop:
        pass
    finally:
        hmm.pom = real
    trans, dists, start = seen["args"][:3]
    stdevs = {float(d.parameters[1]) for d in dists}
    return {"names": [str(s) for s in seen["kw"].get("state_names", [])],
            "means": [frac(float(d.parameters[0])) for d in dists],
            "frozen": [bool(d.frozen) for d in dists],
            "one_stdev": len(stdevs) == 1 and all(s > 0 for s in stdevs),
            "start": [frac(float(v)) for v in np.asarray(start, dtype=float)],
            "trans": [[frac(float(v)) for v in row] for row in np.asarray(trans, dtype=float)],
            "name": str(seen["kw"].get("name"))}


def to_line(case, impl):
    return {"op": "hmm_states", "in": {"method": case["in"]["method"]}, "impl": None}


def _close(a, b):
    from fractions import Fraction
    a, b = Fraction(a), Fraction(b)
    return abs(a - b) <= Fraction(1, 10 ** 9) * max(1, abs(b))


def judge(case, impl, resp, spec, dis):
    out = resp.get("out")
    m = case["in"]["method"]
    if impl["names"] != out["names"]:
        dis.append(f"{m}: state names handed to from_matrix {impl['names']} differ from the generated table {out['names']}")
    if impl["means"] != out["means"]:
        dis.append(f"{m}: state means of the distributions {impl['means']} differ from the generated table {out['means']}")
    if impl["frozen"] != out["frozen"]:
        dis.append(f"{m}: frozen flags {impl['frozen']} differ from the generated table {out['frozen']}")
    if not impl["one_stdev"]:
        dis.append(f"{m}: the distributions do not share one positive stdev")
    if len(impl["start"]) != len(out["start"]) or not all(_close(a, b) for a, b in zip(impl["start"], out["start"])):
        dis.append(f"{m}: start probabilities differ from the generated vector for {len(out['start'])} states")
    if len(impl["trans"]) != len(out["trans"]) or not all(
            len(r) == len(s) and all(_close(a, b) for a, b in zip(r, s)) for r, s in zip(impl["trans"], out["trans"])):
        dis.append(f"{m}: transition matrix differs from the generated one")
    if impl["name"] != m:
        dis.append(f"{m}: model name {impl['name']}")
