"""C17 (round 5): `cnvlib/bintest.py: p_adjust_bh` -> Lean, an extension of the typed numpy reader `harness/vectrans.py`.

`vectrans.VFn` reads functions that RETURN A NUMBER.  `p_adjust_bh` returns a vector and uses four more numpy idioms; this
module adds them in a subclass (`vectrans.py` itself is untouched, every file it generates stays byte-identical).

Reading rules added here (part of the trusted base, vocabulary in lean/CnvVerif/Model/NpVecBh.lean):
* `x = np.asarray(x)` / `np.asarray(x, dtype=float)` / `np.asanyarray` / `np.array` of a name that is a vector parameter
  (or already a vector) re-binds the same vector (the model works over the rationals: there is no dtype);
* `name = v.argsort()[::-1]` / `np.argsort(v)[::-1]` / `np.flip(v.argsort())` / `v.argsort()[::-1].copy()`: `name`
  becomes a PARAMETER of type index array (the third-party sort's permutation, reversed, is an input of the model as in
  C19: `v` must be readable as a vector); a plain `name = v.argsort()` is read by vectrans as before;
* `perm.argsort()` / `np.argsort(perm)` of an index array: `NpBh.invPerm perm` (the argument is a permutation of 0..n-1,
  so it has no ties and its argsort is the inverse permutation whatever the algorithm);
* `np.arange(a, b, -1)` with lengths / non-negative integer literals `a`, `b`: `NpBh.arangeDown a b` = a, a-1, ..., b+1;
* `np.minimum.accumulate(v)`: `NpBh.minAccumulate v` (running minimum from the left);
* `np.minimum(s, v)` / `np.minimum(v, s)` / `v.clip(max=s)` / `np.clip(v, None, s)` with a scalar `s`: `v.map (min s ·)`;
  `np.minimum(v, w)` of two vectors position by position;
* a `return e` whose value is a vector returns that vector (the generated definition has type `List Rat`).
"""
from __future__ import annotations

import ast

from .exprtrans import Untranslatable
from .vectrans import VFn, NUM, VEC, MASK, IDX, PERM, INT, LEAN_T

_ASARRAY = ("np.asarray", "np.asanyarray", "np.array", "numpy.asarray")


def _is_reversed_argsort(v):
    """the array `a` of `a.argsort()[::-1]`, `np.argsort(a)[::-1]`, `np.flip(a.argsort())`, `(...).copy()`; else None"""
    if isinstance(v, ast.Call) and isinstance(v.func, ast.Attribute) and v.func.attr == "copy" and not v.args \
            and not v.keywords:
        return _is_reversed_argsort(v.func.value)
    inner = None
    if isinstance(v, ast.Subscript) and isinstance(v.slice, ast.Slice):
        s = v.slice
        if s.lower is None and s.upper is None and s.step is not None and ast.unparse(s.step) == "-1":
            inner = v.value
    elif isinstance(v, ast.Call) and ast.unparse(v.func) in ("np.flip", "np.flipud") and len(v.args) == 1 \
            and not v.keywords:
        inner = v.args[0]
    if inner is None or not isinstance(inner, ast.Call) or inner.keywords:
        return None
    if isinstance(inner.func, ast.Attribute) and inner.func.attr == "argsort" and not inner.args \
            and ast.unparse(inner.func.value) not in ("np", "numpy"):
        return inner.func.value
    if ast.unparse(inner.func) in ("np.argsort", "numpy.argsort") and len(inner.args) == 1:
        return inner.args[0]
    return None


class VFnBh(VFn):
    def _vecname(self, node, env):
        """a Name that is (or becomes) a vector"""
        if not isinstance(node, ast.Name):
            raise Untranslatable("asarray of " + ast.unparse(node))
        x = self.expr(node, env)
        if x[1] != VEC:
            raise Untranslatable(f"asarray of a {x[1]}")
        return x

    def call(self, e, env):
        f = ast.unparse(e.func)
        args, kws = e.args, {k.arg: k.value for k in e.keywords}
        if f in _ASARRAY and len(args) == 1 and set(kws) <= {"dtype"} and (
                "dtype" not in kws or ast.unparse(kws["dtype"]) in ("float", "np.float64", "np.float_", "'float'")):
            return self._vecname(args[0], env)
        if f in ("np.minimum.accumulate",) and len(args) == 1 and not kws:
            v = self.expr(args[0], env)
            if v[1] == VEC:
                return f"(NpBh.minAccumulate {v[0]})", VEC
            raise Untranslatable("minimum.accumulate of a " + v[1])
        if f in ("np.minimum",) and len(args) == 2 and not kws:
            a, b = self.expr(args[0], env), self.expr(args[1], env)
            if a[1] == VEC and b[1] == VEC:
                return f"(List.zipWith (fun u v => min u v) {a[0]} {b[0]})", VEC
            if self.scalar(a[1]) and b[1] == VEC:
                return f"({b[0]}.map (fun v => min {self.num(a)} v))", VEC
            if a[1] == VEC and self.scalar(b[1]):
                return f"({a[0]}.map (fun v => min {self.num(b)} v))", VEC
        if f in ("np.clip",) and len(args) == 3 and not kws and isinstance(args[1], ast.Constant) \
                and args[1].value is None:
            a, s = self.expr(args[0], env), self.expr(args[2], env)
            if a[1] == VEC and self.scalar(s[1]):
                return f"({a[0]}.map (fun v => min {self.num(s)} v))", VEC
        if isinstance(e.func, ast.Attribute) and e.func.attr == "clip" and not args and set(kws) == {"max"} \
                and ast.unparse(e.func.value) not in ("np", "numpy"):
            a, s = self.expr(e.func.value, env), self.expr(kws["max"], env)
            if a[1] == VEC and self.scalar(s[1]):
                return f"({a[0]}.map (fun v => min {self.num(s)} v))", VEC
        if f in ("np.arange",) and len(args) == 3 and not kws and ast.unparse(args[2]) == "-1":
            hi, lo = self.expr(args[0], env), self.expr(args[1], env)
            return f"(NpBh.arangeDown {self.idx(hi)} {self.idx(lo)})", VEC
        if f in ("np.argsort", "numpy.argsort") and len(args) == 1 and not kws:
            x = self.expr(args[0], env)
            if x[1] == PERM:
                return f"(NpBh.invPerm {x[0]})", PERM
        if isinstance(e.func, ast.Attribute) and e.func.attr == "argsort" and not args and not kws \
                and ast.unparse(e.func.value) not in ("np", "numpy"):
            x = self.expr(e.func.value, env)
            if x[1] == PERM:
                return f"(NpBh.invPerm {x[0]})", PERM
            raise Untranslatable("argsort of a " + x[1] + " in value position")
        return super().call(e, env)

    def ret(self, e, env):
        x = self.expr(e, env)
        if x[1] != VEC:
            raise Untranslatable(f"a vector was expected as the return value, found a {x[1]}")
        return x[0]

    def block(self, stmts, env, ind):
        if stmts:
            s = stmts[0]
            if isinstance(s, ast.Assign) and len(s.targets) == 1 and isinstance(s.targets[0], ast.Name):
                name, v = s.targets[0].id, s.value
                arr = _is_reversed_argsort(v)
                if arr is not None:
                    if self.expr(arr, env)[1] != VEC:      # the sorted array must be readable as a vector
                        raise Untranslatable("argsort of a non-vector")
                    if name in env:
                        raise Untranslatable(f"`{name}` re-bound to an argsort")
                    self.param(name, PERM)
                    return self.block(stmts[1:], env, ind)
                if isinstance(v, ast.Call) and ast.unparse(v.func) in _ASARRAY and isinstance(v.args[0] if v.args else None,
                                                                                          ast.Name) \
                        and v.args[0].id == name and name not in env:
                    self.call(v, env)                       # checks the shape; the parameter keeps its name
                    return self.block(stmts[1:], env, ind)
                if isinstance(v, ast.Call) and ((isinstance(v.func, ast.Attribute) and v.func.attr == "argsort"
                                                 and not v.args and not v.keywords
                                                 and ast.unparse(v.func.value) not in ("np", "numpy"))
                                                or ast.unparse(v.func) in ("np.argsort", "numpy.argsort")):
                    recv = v.func.value if not v.args else v.args[0]
                    if self.expr(recv, env)[1] == PERM:     # argsort of an index array: the inverse permutation
                        val = self.call(v, env)
                        env = dict(env)
                        env[name] = (name, PERM)
                        pad = "  " * ind
                        return f"{pad}let {name} : {LEAN_T[PERM]} := {val[0]}\n" + self.block(stmts[1:], env, ind)
        return super().block(stmts, env, ind)

    def translate(self, lean_name, comment=None):
        body = self.block(list(self.fn.body), {}, 1)
        sig = [a.arg for a in self.fn.args.args]
        names = [n for n, _t in self.params]
        ordered = [p for p in sig if p in names] + [p for p in names if p not in sig]
        tmap = dict(self.params)
        ps = " ".join(f"({p} : {LEAN_T[tmap[p]]})" for p in ordered)
        doc = f"/-- {comment} -/\n" if comment else ""
        return doc + f"def {lean_name} {ps} : List Rat :=\n{body}", [(p, tmap[p]) for p in ordered]


def emit(repo, o, specs):
    """as vectrans.emit, with the extended reader"""
    import os
    from .translate import parse, find_func
    for path, fname, lean, kw, comment in specs:
        try:
            tree, _src = parse(os.path.join(repo, path))
            text, params = VFnBh(find_func(tree, fname), **kw).translate(lean, comment)
        except (Untranslatable, KeyError, OSError, SyntaxError) as e:
            o.lines.append(f"-- NOT TRANSLATED: {path}:{fname}: {type(e).__name__}: {str(e)[:200]}".replace("\n", " "))
            o.info[lean] = {"error": str(e)[:200]}
            continue
        o.lines.append(text + "\n")
        o.info[lean] = {"params": params}
