import argparse
import os
import sys
import traceback

from . import core


def main():
    ap = argparse.ArgumentParser()
    ap.add_argument("prop")
    ap.add_argument("--tier", default=os.environ.get("VERIF_TIER", "quick"), choices=["quick", "thorough"])
    ap.add_argument("--replay", default=None)
    a = ap.parse_args()
    seed = int(os.environ.get("VERIF_SEED", "0") or 0)
    try:
        rc = core.run_check(a.prop, a.tier, seed, a.replay)
    except core.Infra as e:
        print(f"INFRASTRUCTURE FAILURE ({a.prop}): {e}", file=sys.stderr)
        core.shutdown_pool()
        os._exit(2)
    except Exception:
        traceback.print_exc()
        print(f"INFRASTRUCTURE FAILURE ({a.prop}): harness exception", file=sys.stderr)
        core.shutdown_pool()
        os._exit(2)
    sys.stdout.flush()
    sys.stderr.flush()
    core.shutdown_pool()
    os._exit(rc)


if __name__ == "__main__":
    main()
