import argparse
import os
import sys
import traceback

from . import core


def main():
    # a check that is still running after VERIF_HARD_TIMEOUT seconds (default 30 min) dumps every thread's stack to
    # stderr and ends as an infrastructure failure (exit 2), never as a verdict
    import faulthandler, signal
    hard = int(os.environ.get("VERIF_HARD_TIMEOUT", "1800"))
    faulthandler.enable()

    def _expired(signum, frame):
        faulthandler.dump_traceback(all_threads=True)
        print("INFRASTRUCTURE FAILURE: hard timeout", file=sys.stderr)
        core.shutdown_pool()
        os._exit(2)
    signal.signal(signal.SIGALRM, _expired)
    ap = argparse.ArgumentParser()
    ap.add_argument("prop")
    ap.add_argument("--tier", default=os.environ.get("VERIF_TIER", "quick"), choices=["quick", "thorough"])
    ap.add_argument("--replay", default=None)
    a = ap.parse_args()
    seed = int(os.environ.get("VERIF_SEED", "0") or 0)
    # runs against /repo all regenerate the same Generated/*.lean and may overlap (shared lock); a development run
    # against another tree (VERIF_REPO) rewrites those files with that tree's content and therefore runs alone
    import fcntl
    os.makedirs(os.path.join(core.LEAN_DIR, ".lake"), exist_ok=True)
    _tree_lock = open(os.path.join(core.LEAN_DIR, ".lake", "tree.lock"), "w")
    fcntl.flock(_tree_lock, fcntl.LOCK_SH if core.REPO == "/repo" else fcntl.LOCK_EX)
    signal.alarm(hard)   # the clock starts once the run has the tree (waiting for a development run is not a hang)

    def _leave_tree_clean():
        # a development run against another tree (VERIF_REPO) must not leave that tree's generated files in /verif
        if core.REPO != "/repo":
            from . import translate as tr
            tr.restore_baseline(os.path.join(core.LEAN_DIR, "CnvVerif", "Generated"))
    try:
        rc = core.run_check(a.prop, a.tier, seed, a.replay)
    except core.Infra as e:
        _leave_tree_clean()
        print(f"INFRASTRUCTURE FAILURE ({a.prop}): {e}", file=sys.stderr)
        core.shutdown_pool()
        os._exit(2)
    except Exception:
        _leave_tree_clean()
        traceback.print_exc()
        print(f"INFRASTRUCTURE FAILURE ({a.prop}): harness exception", file=sys.stderr)
        core.shutdown_pool()
        os._exit(2)
    _leave_tree_clean()
    sys.stdout.flush()
    sys.stderr.flush()
    core.shutdown_pool()
    os._exit(rc)


if __name__ == "__main__":
    main()
