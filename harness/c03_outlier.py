"""C03, round 5 -- op `outlier`: `segmentation.drop_outliers(table, width, factor)` against the Lean model
(Model/TileOutlierExt5.lean: decision rule |x - trend| > quants * factor, short-array rule, per-chromosome application,
removal of the flagged rows).  The smoothed trend (`smoothing.savgol`) and the rolling 0.95 quantile of the absolute
residuals (`smoothing.rolling_quantile`) stay black boxes: the harness evaluates them with the real functions on each
chromosome and hands the values to the model as exact rationals.  Imported by harness/props/C03.py."""
from __future__ import annotations

from fractions import Fraction

from .core import frac

Q = 0.95          # the quantile `drop_outliers` asks for (pinned to the source text by Props/C03SrcOutlier.lean)
TOL = Fraction(1, 10 ** 9)


def gen_case(rng, k):
    width = (50, 50, 50, 20, 10, 50)[k % 6]
    nchrom = rng.choice([1, 2, 2, 3, 4])
    sizes_pool = [width - 1, width, width + 1, width + 2, 2 * width + 3, 3 * width, rng.randint(1, 4 * width), 1, 2,
                  rng.randint(width + 1, 3 * width)]
    names = ["chr1", "chr2", "chr5", "chrX", "chrY"]
    rows = []
    for c in range(nchrom):
        n = sizes_pool[(k + 3 * c) % len(sizes_pool)] if c < 2 else rng.choice(sizes_pool)
        n = max(1, n)
        style = rng.choice(["noise", "noise", "noise", "flat", "zero", "steps"])
        level = rng.choice([0.0, -0.5, 0.4, 1.0])
        pos = 1000
        for j in range(n):
            if style == "zero":
                lg = 0.0
            elif style == "flat":
                lg = level
            elif style == "steps":
                lg = level + (0.8 if (j // 37) % 2 else 0.0) + round(rng.gauss(0, 0.05), 3)
            else:
                lg = round(level + rng.gauss(0, rng.choice([0.02, 0.05, 0.2])), 3)
            if style != "zero" and rng.random() < 0.015:
                lg = round(lg + rng.choice([-4, 4, -2.5, 6, -8]), 3)  # an outlier, either side
            w = pos + rng.choice([100, 200, 500])
            rows.append([names[c], pos, w, "G%d" % (j // 5), lg, 1.0, float(2 ** lg)])
            pos = w + rng.choice([0, 0, 50])
        if n > width and style in ("noise", "steps") and rng.random() < 0.8:
            # planted outliers, one on either side of the trend, far enough apart not to share a window's tail
            a, b = rng.randrange(n), rng.randrange(n)
            for p_, d_ in ((a, 6.0), (b, -6.0)) if a != b else ((a, rng.choice([6.0, -6.0])),):
                r_ = rows[len(rows) - n + p_]
                r_[4] = round(r_[4] + d_, 3)
                r_[6] = float(2 ** r_[4])
    factor = (10, 3, 1, 5, 10, 0.5, 2.5, 10, 3)[k % 9]
    return {"op": "outlier", "tag": "w%d" % width, "in": {"bins": rows, "width": width, "factor": factor}}


def _groups(rows):
    out = []
    for k, r in enumerate(rows):
        if out and rows[out[-1][-1]][0] == r[0]:
            out[-1].append(k)
        else:
            out.append([k])
    return out


def run_impl(case):
    import numpy as np
    import pandas as pd
    from cnvlib import segmentation, smoothing
    from cnvlib.cnary import CopyNumArray as CNA
    i = case["in"]
    rows, width, factor = i["bins"], i["width"], i["factor"]
    names = ["chromosome", "start", "end", "gene", "log2", "weight", "depth"]
    df = pd.DataFrame.from_records([tuple(r) for r in rows], columns=names)
    cna = CNA(df, {"sample_id": "S"})
    before = cna.data.copy()
    got = segmentation.drop_outliers(cna, width, factor)
    kept = [int(v) for v in got.data.index]
    untouched = bool(before.equals(cna.data))
    # the black boxes, evaluated chromosome by chromosome as the rule is given them
    pts = [None] * len(rows)
    for g in _groups(rows):
        x = pd.Series([rows[k][4] for k in g], dtype=float)
        if len(x) > width:
            trend = np.asarray(smoothing.savgol(x, width), dtype=float)
            dists = np.abs(np.asarray(x, dtype=float) - trend)
            quants = np.asarray(smoothing.rolling_quantile(dists, width, Q), dtype=float)
            if len(trend) != len(g) or len(quants) != len(g):
                raise AssertionError("harness: savgol / rolling_quantile did not return one value per bin")
        else:
            # never looked at by the real code: values that WOULD flag every bin if the short-array rule were not applied
            trend = np.asarray(x, dtype=float) - 100.0
            quants = np.zeros(len(g))
        for j, k in enumerate(g):
            pts[k] = [frac(float(trend[j])), frac(float(quants[j]))]
    return {"kept": kept, "pts": pts, "untouched": untouched, "columns": list(got.data.columns)}


def to_line(case, impl):
    i = case["in"]
    if isinstance(impl, dict) and "__error__" in impl:
        rows = [[r[0], frac(r[4]), frac(r[4]), "0"] for r in i["bins"]]
    else:
        rows = [[r[0], frac(r[4]), p[0], p[1]] for r, p in zip(i["bins"], impl["pts"])]
    return {"op": "outlier", "in": {"rows": rows, "width": i["width"], "factor": frac(i["factor"])}}


def _knife(case, impl):
    """positions where |x - trend| and quants * factor are within the tolerance of each other (and not both exactly 0):
    the float evaluation of the real code may fall on either side there"""
    i = case["in"]
    m = Fraction(i["factor"])
    out = set()
    sizes = {}
    for g in _groups(i["bins"]):
        for k in g:
            sizes[k] = len(g)
    for k, (r, p) in enumerate(zip(i["bins"], impl["pts"])):
        if sizes[k] <= i["width"]:
            continue
        d = abs(Fraction(r[4]) - Fraction(p[0]))
        qm = Fraction(p[1]) * m
        if d == 0 and qm == 0:
            continue
        if abs(d - qm) <= TOL * max(1, abs(qm)):
            out.add(k)
    return out


def judge(case, impl, resp):
    if isinstance(impl, dict) and "__error__" in impl:
        return ["raises_" + impl["__error__"]], [], None
    if "error" in resp:
        return [], ["model error: " + resp["error"]], None
    n = len(case["in"]["bins"])
    spec, dis = [], []
    kept = impl["kept"]
    # what the property needs of the filter, on the real output: it only removes rows, keeps their order and columns
    if kept != sorted(set(kept)) or any(k < 0 or k >= n for k in kept):
        spec.append("outlier_filter_only_removes_rows")
    if not impl["untouched"]:
        spec.append("outlier_filter_leaves_its_input_alone")
    real = [k not in set(kept) for k in range(n)]
    knife = _knife(case, impl)
    for name, key in (("model", "mask"), ("source-derived rule", "src")):
        m = resp[key]
        if len(m) != n:
            dis.append(f"drop_outliers: {name} mask has {len(m)} elements for {n} rows")
            continue
        bad = [k for k in range(n) if k not in knife and m[k] != real[k]]
        if bad:
            k = bad[0]
            dis.append(f"drop_outliers (width {case['in']['width']}, factor {case['in']['factor']}): {name} says row {k} "
                       f"({case['in']['bins'][k][0]}, log2 {case['in']['bins'][k][4]}) is "
                       f"{'an outlier' if m[k] else 'kept'}, real code {'drops' if real[k] else 'keeps'} it "
                       f"({len(bad)} rows differ)")
    if not knife and not dis:
        if resp["kept"] != kept:
            dis.append("drop_outliers: rows kept by the model != rows kept by the real code")
        if resp["kept_src"] != kept:
            dis.append("drop_outliers: rows kept by the source-derived rule != rows kept by the real code")
    return spec, dis, None


def nontrivial(case, impl, resp):
    if isinstance(impl, dict) and "__error__" in impl:
        return False
    n = len(case["in"]["bins"])
    short = any(len(g) <= case["in"]["width"] for g in _groups(case["in"]["bins"]))
    return len(impl["kept"]) < n or short


def shrink(case):
    # whole chromosomes only: the trend of a chromosome depends on all of its bins
    gs = _groups(case["in"]["bins"])
    if len(gs) > 1:
        for g in gs:
            c = {"op": case["op"], "tag": "shrunk", "in": dict(case["in"])}
            drop = set(g)
            c["in"]["bins"] = [r for k, r in enumerate(case["in"]["bins"]) if k not in drop]
            yield c
