"""Reader for the SEG exporter (C20, round 5b): skgenome/tabio/seg.py `format_seg`, `create_chrom_ids`, the
`chrom_ids in (None, True)` test of `write_seg`, and cnvlib/export.py `export_seg`.  Part of the trusted base.

Reading rules (everything else raises Unreadable, so that an edit the reader does not understand is reported):

format_seg -- read ROW-wise, once with `"probes" in dframe` False and once True:
* `dframe` is a table with the columns chromosome : String, start, end : Int, log2 : Rat and, in the second reading,
  probes : Int (`end` is spelled `end_`).  Further columns a .cns may carry are not given to the reader: a `reindex`
  asking for a column that is not there (pandas: a NaN column) is Unreadable;
* statements: the docstring and `assert`s are skipped; `name = expr` binds a local (a dict / list display of string
  literals is kept as a Python value, a table expression as a table, anything else as a row expression; a later use
  of the name is replaced by what it was bound to, so renaming a local changes nothing); `d["k"] = "v"`,
  `l.insert(k, "v")`, `l.append("v")` update a bound dict / list; `if "probes" in dframe:` runs its body in the second
  reading only;
* table expressions: `dframe`, a bound name, `T.assign(k=rowexpr, ...)` (adds / replaces columns; every keyword sees
  the columns of T, as in pandas, where keyword values are computed from the caller's frame), `T.rename(columns=d)`,
  `T.reindex(columns=l)` / `T[l]` / `T.loc[:, l]`;
* row expressions: `sample_id` : String; `dframe.c` / `dframe["c"]` the column's value in the row; `e + k`, `k + e`,
  `e - k` with an integer literal on an Int column; `e.replace(chrom_ids)` is `Export.renameChrom chrom_ids e`
  (pandas `Series.replace(mapping)`: a name that is a key becomes `str` of its number when the table is written, any
  other name stays); `a if chrom_ids else b` is `if !chrom_ids.isEmpty then a else b` (truthiness of a mapping;
  `False` is read as the empty mapping); `if chrom_ids:` statements are not read;
* the table returned gives `src_seg_columns : Bool -> List String` (its column names per reading) and one definition
  per output column (the expression must be the same in both readings).

create_chrom_ids -- `OrderedDict(...)` / `dict(...)` of ONE generator / list comprehension of pairs, or a dict
comprehension, over `for i, chrom in enumerate(segments.chromosome.drop_duplicates())` (`.unique()` is the same
order of first appearance; `enumerate(..., k)` adds k to the index), with optional `if` conditions, possibly bound to
a local that is returned.  The key must be the loop's chromosome (keys are then distinct, so the mapping is the list
of pairs in order); the number and the conditions are read over `i : Nat`, `chrom : String`: integer literals, `+`,
`str(e)` = `toString e`, `==`, `!=`, `not`, `and`, `or`.

write_seg -- the `if chrom_ids in (<literals>):` statement whose body is `chrom_ids = create_chrom_ids(first)` gives
`src_write_seg_enumerates : Option Bool -> Bool` (None / True / False literals only).
export_seg -- the default of its parameter `chrom_ids` (None / True / False) gives `src_export_seg_default`, and the
function must hand `chrom_ids` unchanged to `write_seg` as third positional or `chrom_ids=` keyword argument.
"""
import ast

from .translate import lstr


class Unreadable(ValueError):
    pass


BASE = [("chromosome", "chromosome", "String"), ("start", "start", "Int"), ("end", "end_", "Int"),
        ("probes", "probes", "Int"), ("log2", "log2", "Rat")]
ROW_PARAMS = ("fun (sample_id : String) (chrom_ids : List (String × Nat)) (chromosome : String) "
              "(start end_ probes : Int) (log2 : Rat) => ")


def _int_lit(n):
    if isinstance(n, ast.Constant) and isinstance(n.value, int) and not isinstance(n.value, bool):
        return n.value
    if isinstance(n, ast.UnaryOp) and isinstance(n.op, ast.USub):
        v = _int_lit(n.operand)
        return None if v is None else -v
    return None


def _strs(n):
    if isinstance(n, (ast.List, ast.Tuple)) and all(isinstance(e, ast.Constant) and isinstance(e.value, str) for e in n.elts):
        return [e.value for e in n.elts]
    return None


def _strdict(n):
    if isinstance(n, ast.Dict) and all(isinstance(k, ast.Constant) and isinstance(k.value, str) for k in n.keys) \
            and all(isinstance(v, ast.Constant) and isinstance(v.value, str) for v in n.values):
        return {k.value: v.value for k, v in zip(n.keys, n.values)}
    return None


class _FormatSeg:
    def __init__(self, fn, has_probes):
        a = [x.arg for x in fn.args.args]
        if a != ["dframe", "sample_id", "chrom_ids"]:
            raise Unreadable(f"format_seg parameters {a}")
        self.hp = has_probes
        self.base = {n: (lean, typ) for n, lean, typ in BASE if has_probes or n != "probes"}
        self.env = {}     # name -> ("val", python) | ("row", (lean, typ)) | ("tab", dict)
        self.result = None
        self.run(fn.body)
        if self.result is None:
            raise Unreadable("format_seg returns no table")

    def run(self, body):
        for st in body:
            if self.result is not None:
                raise Unreadable("statement after return")
            if isinstance(st, ast.Expr) and isinstance(st.value, ast.Constant) and isinstance(st.value.value, str):
                continue
            if isinstance(st, ast.Assert):
                continue
            if isinstance(st, ast.Assign) and len(st.targets) == 1:
                t = st.targets[0]
                if isinstance(t, ast.Name):
                    self.env[t.id] = self.value(st.value)
                    continue
                if isinstance(t, ast.Subscript) and isinstance(t.value, ast.Name) and self.env.get(t.value.id, ("",))[0] == "val" \
                        and isinstance(self.env[t.value.id][1], dict) and isinstance(t.slice, ast.Constant) \
                        and isinstance(st.value, ast.Constant) and isinstance(st.value.value, str):
                    self.env[t.value.id][1][t.slice.value] = st.value.value
                    continue
                raise Unreadable("assignment target in format_seg")
            if isinstance(st, ast.Expr) and isinstance(st.value, ast.Call) and isinstance(st.value.func, ast.Attribute) \
                    and isinstance(st.value.func.value, ast.Name) and self.env.get(st.value.func.value.id, ("",))[0] == "val" \
                    and isinstance(self.env[st.value.func.value.id][1], list):
                lst, c = self.env[st.value.func.value.id][1], st.value
                if c.func.attr == "insert" and len(c.args) == 2 and _int_lit(c.args[0]) is not None \
                        and isinstance(c.args[1], ast.Constant) and isinstance(c.args[1].value, str):
                    lst.insert(_int_lit(c.args[0]), c.args[1].value)
                    continue
                if c.func.attr == "append" and len(c.args) == 1 and isinstance(c.args[0], ast.Constant) \
                        and isinstance(c.args[0].value, str):
                    lst.append(c.args[0].value)
                    continue
                raise Unreadable("list update in format_seg")
            if isinstance(st, ast.If):
                t = st.test
                if isinstance(t, ast.Compare) and len(t.ops) == 1 and isinstance(t.ops[0], ast.In) \
                        and isinstance(t.left, ast.Constant) and t.left.value == "probes" \
                        and isinstance(t.comparators[0], ast.Name) and t.comparators[0].id == "dframe":
                    self.run(st.body if self.hp else st.orelse)
                    continue
                raise Unreadable("`if` other than `if \"probes\" in dframe:` in format_seg")
            if isinstance(st, ast.Return) and st.value is not None:
                k, v = self.value(st.value)
                if k != "tab":
                    raise Unreadable("format_seg does not return a table")
                self.result = v
                continue
            raise Unreadable(f"statement {type(st).__name__} in format_seg")

    def value(self, n):
        s, d = _strs(n), _strdict(n)
        if s is not None and isinstance(n, ast.List):
            return ("val", list(s))
        if d is not None:
            return ("val", dict(d))
        try:
            return ("tab", self.table(n))
        except Unreadable:
            pass
        return ("row", self.row(n, self.base))

    def pyval(self, n, kind):
        v = _strs(n) if kind is list else _strdict(n)
        if v is not None:
            return v
        if isinstance(n, ast.Name) and self.env.get(n.id, ("",))[0] == "val" and isinstance(self.env[n.id][1], kind):
            return self.env[n.id][1]
        raise Unreadable(f"{kind.__name__} of string literals expected")

    def table(self, n):
        if isinstance(n, ast.Name):
            if n.id == "dframe":
                return dict(self.base)
            if self.env.get(n.id, ("",))[0] == "tab":
                return dict(self.env[n.id][1])
            raise Unreadable(f"{n.id} is not a table")
        if isinstance(n, ast.Call) and isinstance(n.func, ast.Attribute):
            m = n.func.attr
            if m == "assign" and not n.args:
                t = self.table(n.func.value)
                new = dict(t)
                for kw in n.keywords:
                    if kw.arg is None:
                        raise Unreadable("assign(**mapping)")
                    new[kw.arg] = self.row(kw.value, t)
                return new
            if m in ("rename", "reindex") and not n.args and len(n.keywords) == 1 and n.keywords[0].arg == "columns":
                t = self.table(n.func.value)
                if m == "rename":
                    d = self.pyval(n.keywords[0].value, dict)
                    out = {}
                    for k, v in t.items():
                        k2 = d.get(k, k)
                        if k2 in out:
                            raise Unreadable(f"rename makes two columns {k2}")
                        out[k2] = v
                    return out
                return self.select(t, self.pyval(n.keywords[0].value, list))
        if isinstance(n, ast.Subscript):
            sl = n.slice
            if isinstance(n.value, ast.Attribute) and n.value.attr == "loc" and isinstance(sl, ast.Tuple) and len(sl.elts) == 2 \
                    and isinstance(sl.elts[0], ast.Slice) and sl.elts[0].lower is None and sl.elts[0].upper is None:
                return self.select(self.table(n.value.value), self.pyval(sl.elts[1], list))
            if isinstance(sl, (ast.List, ast.Name)):
                return self.select(self.table(n.value), self.pyval(sl, list))
        raise Unreadable("table expression")

    @staticmethod
    def select(t, cols):
        out = {}
        for c in cols:
            if c not in t:
                raise Unreadable(f"output column {c!r} is not a column of the table ({sorted(t)}): a NaN column")
            if c in out:
                raise Unreadable(f"column {c!r} twice")
            out[c] = t[c]
        return out

    def row(self, n, t):
        """(lean, type) of a row expression over the table t"""
        if isinstance(n, ast.Name):
            if n.id == "sample_id":
                return ("sample_id", "String")
            if self.env.get(n.id, ("",))[0] == "row":
                return self.env[n.id][1]
            raise Unreadable(f"name {n.id} in a row expression")
        col = None
        if isinstance(n, ast.Attribute) and isinstance(n.value, ast.Name) and n.value.id == "dframe":
            col = n.attr
        if isinstance(n, ast.Subscript) and isinstance(n.value, ast.Name) and n.value.id == "dframe" \
                and isinstance(n.slice, ast.Constant):
            col = n.slice.value
        if col is not None:
            if col not in self.base:
                raise Unreadable(f"dframe has no column {col!r}")
            return self.base[col]
        if isinstance(n, ast.BinOp) and isinstance(n.op, (ast.Add, ast.Sub)):
            kl, kr = _int_lit(n.left), _int_lit(n.right)
            if kr is not None:
                e, typ = self.row(n.left, t)
                if typ == "Int":
                    return (f"({e} {'+' if isinstance(n.op, ast.Add) else '-'} {kr})", "Int")
            if kl is not None and isinstance(n.op, ast.Add):
                e, typ = self.row(n.right, t)
                if typ == "Int":
                    return (f"({kl} + {e})", "Int")
            raise Unreadable("arithmetic other than Int column +- literal")
        if isinstance(n, ast.Call) and isinstance(n.func, ast.Attribute) and n.func.attr == "replace" \
                and len(n.args) == 1 and not n.keywords and isinstance(n.args[0], ast.Name) and n.args[0].id == "chrom_ids":
            e, typ = self.row(n.func.value, t)
            if typ != "String":
                raise Unreadable("replace(chrom_ids) on a column that is not the chromosome")
            return (f"(Export.renameChrom chrom_ids {e})", "String")
        if isinstance(n, ast.IfExp) and isinstance(n.test, ast.Name) and n.test.id == "chrom_ids":
            (a, ta), (b, tb) = self.row(n.body, t), self.row(n.orelse, t)
            if ta != tb:
                raise Unreadable("conditional of two types")
            return (f"(if !chrom_ids.isEmpty then {a} else {b})", ta)
        raise Unreadable(f"row expression {ast.dump(n)[:80]}")


def read_format_seg(fn):
    """(columns without probes, columns with probes, {column: (lean, type)})"""
    r0, r1 = _FormatSeg(fn, False).result, _FormatSeg(fn, True).result
    cells = dict(r1)
    for c, v in r0.items():
        if cells.setdefault(c, v) != v:
            raise Unreadable(f"column {c!r} differs between the readings")
    return list(r0), list(r1), cells


# ---------------------------------------------------------------------------------------------------------------

def _scalar(n, names):
    """(lean, type) over i : Nat, chrom : String"""
    if isinstance(n, ast.Name) and n.id in names:
        return names[n.id]
    k = _int_lit(n)
    if k is not None and k >= 0:
        return (str(k), "Nat")
    if isinstance(n, ast.BinOp) and isinstance(n.op, ast.Add):
        (a, ta), (b, tb) = _scalar(n.left, names), _scalar(n.right, names)
        if ta == tb == "Nat":
            return (f"({a} + {b})", "Nat")
    if isinstance(n, ast.Call) and isinstance(n.func, ast.Name) and n.func.id == "str" and len(n.args) == 1 and not n.keywords:
        a, ta = _scalar(n.args[0], names)
        return (a, "String") if ta == "String" else (f"(toString {a})", "String")
    if isinstance(n, ast.Compare) and len(n.ops) == 1 and isinstance(n.ops[0], (ast.Eq, ast.NotEq)):
        (a, ta), (b, tb) = _scalar(n.left, names), _scalar(n.comparators[0], names)
        if ta == tb and ta in ("Nat", "String"):
            return (f"({a} {'==' if isinstance(n.ops[0], ast.Eq) else '!='} {b})", "Bool")
        raise Unreadable("comparison of a number with a string")
    if isinstance(n, ast.UnaryOp) and isinstance(n.op, ast.Not):
        a, ta = _scalar(n.operand, names)
        if ta == "Bool":
            return (f"(!{a})", "Bool")
    if isinstance(n, ast.BoolOp):
        parts = [_scalar(v, names) for v in n.values]
        if all(t == "Bool" for _, t in parts):
            return ("(" + (" && " if isinstance(n.op, ast.And) else " || ").join(p for p, _ in parts) + ")", "Bool")
    raise Unreadable(f"expression {ast.dump(n)[:80]} in create_chrom_ids")


def read_create_chrom_ids(fn):
    """Lean term : List String -> List (String × Nat)"""
    if len(fn.args.args) != 1:
        raise Unreadable("create_chrom_ids parameters")
    table = fn.args.args[0].arg
    binds, ret = {}, None
    for st in fn.body:
        if isinstance(st, ast.Expr) and isinstance(st.value, ast.Constant):
            continue
        if isinstance(st, ast.Assign) and len(st.targets) == 1 and isinstance(st.targets[0], ast.Name) and ret is None:
            binds[st.targets[0].id] = st.value
        elif isinstance(st, ast.Return) and ret is None:
            ret = st.value
        else:
            raise Unreadable("statement in create_chrom_ids")
    while isinstance(ret, ast.Name) and ret.id in binds:
        ret = binds.pop(ret.id)
    comp = None
    if isinstance(ret, ast.DictComp):
        comp, key, val = ret, ret.key, ret.value
    elif isinstance(ret, ast.Call) and not ret.keywords and len(ret.args) == 1 \
            and (getattr(ret.func, "id", None) or getattr(ret.func, "attr", None)) in ("OrderedDict", "dict") \
            and isinstance(ret.args[0], (ast.GeneratorExp, ast.ListComp)) and isinstance(ret.args[0].elt, ast.Tuple) \
            and len(ret.args[0].elt.elts) == 2:
        comp = ret.args[0]
        key, val = comp.elt.elts
    if comp is None or len(comp.generators) != 1:
        raise Unreadable("create_chrom_ids must return one comprehension of pairs")
    g = comp.generators[0]
    if not (isinstance(g.target, ast.Tuple) and len(g.target.elts) == 2 and all(isinstance(e, ast.Name) for e in g.target.elts)):
        raise Unreadable("loop target must be `i, chrom`")
    iv, cv = (e.id for e in g.target.elts)
    it = g.iter
    if not (isinstance(it, ast.Call) and isinstance(it.func, ast.Name) and it.func.id == "enumerate" and 1 <= len(it.args) <= 2):
        raise Unreadable("loop must run over enumerate(...)")
    off = 0
    if len(it.args) == 2:
        off = _int_lit(it.args[1])
    for kw in it.keywords:
        if kw.arg == "start":
            off = _int_lit(kw.value)
        else:
            raise Unreadable("enumerate keyword")
    if off is None or off < 0:
        raise Unreadable("enumerate start")
    seq = it.args[0]
    if not (isinstance(seq, ast.Call) and isinstance(seq.func, ast.Attribute) and seq.func.attr in ("drop_duplicates", "unique")
            and not seq.args and not seq.keywords):
        raise Unreadable("loop must run over the distinct chromosomes (.drop_duplicates() / .unique())")
    c = seq.func.value
    ok = (isinstance(c, ast.Attribute) and c.attr == "chromosome" and isinstance(c.value, ast.Name) and c.value.id == table) or \
         (isinstance(c, ast.Subscript) and isinstance(c.value, ast.Name) and c.value.id == table
          and isinstance(c.slice, ast.Constant) and c.slice.value == "chromosome")
    if not ok:
        raise Unreadable("the column enumerated is not the chromosome column")
    names = {iv: ("i" if off == 0 else f"(i + {off})", "Nat"), cv: ("chrom", "String")}
    if not (isinstance(key, ast.Name) and key.id == cv):
        raise Unreadable("the key of the mapping must be the chromosome of the loop")
    v, tv = _scalar(val, names)
    if tv != "Nat":
        raise Unreadable("the number of a chromosome must be an integer")
    conds = []
    for cnd in g.ifs:
        e, te = _scalar(cnd, names)
        if te != "Bool":
            raise Unreadable("condition that is not a comparison")
        conds.append(e)
    cond = " && ".join(conds) if conds else "true"
    return ("fun chromosome => (List.zipIdx (List.eraseDups chromosome)).filterMap "
            f"(fun (chrom, i) => if {cond} then some (chrom, {v}) else none)")


def _optbool(n):
    if isinstance(n, ast.Constant) and n.value is None:
        return "none"
    if isinstance(n, ast.Constant) and n.value is True:
        return "some true"
    if isinstance(n, ast.Constant) and n.value is False:
        return "some false"
    raise Unreadable("literal other than None / True / False")


def read_write_seg_test(fn):
    """Lean term : Option Bool -> Bool -- when write_seg numbers the chromosomes of the first sample"""
    hits = []
    for n in ast.walk(fn):
        if isinstance(n, ast.If) and any(
                isinstance(s, ast.Assign) and isinstance(s.value, ast.Call)
                and getattr(s.value.func, "id", None) == "create_chrom_ids" for s in n.body):
            hits.append(n)
    calls = [n for n in ast.walk(fn) if isinstance(n, ast.Call) and getattr(n.func, "id", None) == "create_chrom_ids"]
    if len(hits) != 1 or len(calls) != 1:
        raise Unreadable("write_seg must call create_chrom_ids once, under one `if`")
    blk = hits[0]
    s = blk.body[0]
    if len(blk.body) != 1 or blk.orelse or not (
            isinstance(s.targets[0], ast.Name) and s.targets[0].id == "chrom_ids" and len(s.value.args) == 1
            and isinstance(s.value.args[0], ast.Name) and s.value.args[0].id == "first"):
        raise Unreadable("the `if` must only bind chrom_ids = create_chrom_ids(first)")
    t = blk.test
    if isinstance(t, ast.Compare) and len(t.ops) == 1 and isinstance(t.left, ast.Name) and t.left.id == "chrom_ids":
        op, rhs = t.ops[0], t.comparators[0]
        if isinstance(op, ast.In) and isinstance(rhs, (ast.Tuple, ast.List, ast.Set)):
            alts = [_optbool(e) for e in rhs.elts]
            return "fun chrom_ids => (" + " || ".join(f"chrom_ids == {a}" for a in alts) + ")" if alts else "fun _ => false"
        if isinstance(op, (ast.Is, ast.Eq)):
            return f"fun chrom_ids => (chrom_ids == {_optbool(rhs)})"
    if isinstance(t, ast.BoolOp) and isinstance(t.op, ast.Or):
        alts = []
        for v in t.values:
            if not (isinstance(v, ast.Compare) and len(v.ops) == 1 and isinstance(v.ops[0], (ast.Is, ast.Eq))
                    and isinstance(v.left, ast.Name) and v.left.id == "chrom_ids"):
                raise Unreadable("test of the chrom_ids branch")
            alts.append(_optbool(v.comparators[0]))
        return "fun chrom_ids => (" + " || ".join(f"chrom_ids == {a}" for a in alts) + ")"
    raise Unreadable("test of the chrom_ids branch")


def read_export_seg_default(fn):
    a = [x.arg for x in fn.args.args]
    if a != ["sample_fnames", "chrom_ids"] or len(fn.args.defaults) != 1:
        raise Unreadable(f"export_seg parameters {a}")
    for n in ast.walk(fn):
        if isinstance(n, (ast.Assign, ast.AugAssign, ast.NamedExpr)):
            for t in ast.walk(n.targets[0] if isinstance(n, ast.Assign) else n.target):
                if isinstance(t, ast.Name) and t.id == "chrom_ids":
                    raise Unreadable("export_seg rebinds chrom_ids")
    calls = [n for n in ast.walk(fn) if isinstance(n, ast.Call) and getattr(n.func, "attr", getattr(n.func, "id", None)) == "write_seg"]
    if len(calls) != 1:
        raise Unreadable("export_seg must call write_seg once")
    c = calls[0]
    third = c.args[2] if len(c.args) == 3 else next((k.value for k in c.keywords if k.arg == "chrom_ids"), None)
    if not (isinstance(third, ast.Name) and third.id == "chrom_ids"):
        raise Unreadable("export_seg must hand chrom_ids to write_seg unchanged")
    return _optbool(fn.args.defaults[0])
