"""C10 -- results depend only on the arguments (not workers, RNG state, history); inputs untouched;
guarded writers never overwrite.

Four ops go to the Lean driver (Driver/Effects.lean):

* `history`   a sequence of <= 4 pipeline steps / array methods run by the REAL code on SHARED argument objects,
              every step with its own RNG re-seeding and worker count; for every step the harness records a digest of
              the result, a digest of the same call on fresh copies (1 worker, other RNG state), digests of every
              argument before and after, and the final value of the small list arguments (filter lists, ignore lists).
              The Lean model is the pure function (result = value on fresh copies, heap of list arguments threaded
              through the model of `do_call` / `by_gene` / ... as the code is), the Lean spec checker evaluates the
              property's clauses on the real observations.
* `ensure_path` 1..5 guarded writes (core.ensure_path + tabio.write) to one path in a scratch directory holding
              arbitrary earlier files; the final directory listing is compared with the file-system model.
* `rng_trace` the real np.random calls made by every function of the generated RNG table, recorded at run time,
              matched against the ast-extracted skeleton and checked for "re-seeds before the first draw".
* `gather`    the real parallel.pick_pool(n).map on tasks finishing in scrambled order vs the ordered-gather model.
"""
from __future__ import annotations

import copy
import hashlib
import json
import os
import random as _pyrandom
import shutil
import tempfile

LEVEL = "proof"
RULE = ("histories on SHARED argument objects of seeded data sets (3-4 chromosomes, 100-250 bins, raw coverages + "
        "reference with gc/rmask, baits, access, haar segments, segmetrics and call tables, filter / ignore / threshold "
        "/ statistic lists, combiner dict): quick = EVERY sequence of <= 2 steps over the 46-step base alphabet {target, "
        "antitarget, fix (+- corrections), segment none/haar/haar+skip/hmm/hmm-tumor/hmm-germline, segmetrics (ci/pi/sem, "
        "smoothed bootstrap, skip_low), call none/threshold/clonal x filter lists ci,cn / sem / ampdel / cn,ci,cn, "
        "genemetrics (genes, segments, called segments), breaks, bintest (+target_only), metrics, export bed/vcf/seg/"
        "theta, center_all and shuffle on a copy, merge, flatten, subtract, intersection, subdivide, resize, by_arm, "
        "by_gene (default / list / tuple ignore), squash_genes, transfer_fields, get_gene_intervals} + the worker-count "
        "variants (processes 2,3,16) with sampled partners; thorough = every pair over the full alphabet + 3500 sampled "
        "sequences of 3-4 steps; numpy and python RNG re-seeded with a fresh value before every step, reference = same "
        "call on fresh copies, 1 worker, another RNG state. ensure_path: 1..5 guarded writes x directories holding "
        "the path, numbered backups with gaps, look-alike names, sub-directories. rng_trace: every runnable entry of "
        "the generated RNG table x input shapes, plus functions the table must not list. gather: 0..12 tasks finishing "
        "in scrambled order x workers {1,2,3,16}. non-trivial = a history with >= 2 steps or a step run in > 1 "
        "process, >= 2 writes or a write onto an existing file, a trace with >= 1 draw, a pool with > 1 worker; "
        "distinct by hash")
EXHAUSTIVE = {"quick": True, "thorough": True}  # all histories of length <= 2 (quick: base alphabet; thorough: full)
ASSUMPTIONS = ["argument objects are those a Python caller would pass: CopyNumArray/GenomicArray tables, lists of "
               "strings, dicts; snapshots compare frames incl. index and dtypes, lists, dicts minus chr_x/chr_y meta",
               "results are compared through a canonical digest (floats at 12 significant digits, NaN = null)",
               "the file system is a finite map name -> content inside one scratch directory (no concurrent writers)"]
TRUSTED_EXTRA = ["purity of the CPython/pandas code is not a theorem: it is established by the differential histories",
                 "concurrent.futures.ProcessPoolExecutor.map ordering; os.rename / os.path.isfile semantics",
                 "numpy global RandomState (np.random.seed makes later draws a function of the seed)",
                 "pomegranate HMM fitting, haar numerics (black boxes; only repeatability is observed)",
                 "cbs / flasso segmentation need Rscript (absent in this sandbox): left out"]

# ---------------------------------------------------------------------------------------------
# data sets (built in the worker from a seed; cached per process)

_DS = {}
_REF = {}
SMALL = ("FL_ci_cn", "FL_sem", "FL_ampdel", "FL_cc", "IG_list", "IG_empty", "IG_tuple", "THR", "LOC", "SPR", "IVL")
FILTER_LISTS = {"FL_ci_cn": ["ci", "cn"], "FL_sem": ["sem"], "FL_ampdel": ["ampdel"], "FL_cc": ["cn", "ci", "cn"]}


def _mkds(seed):
    """argument objects of one data set; everything derives from `seed`"""
    import numpy as np
    from skgenome import GenomicArray as GA
    from cnvlib.cnary import CopyNumArray as CNA
    from cnvlib import segmentation, segmetrics, call

    rng = _pyrandom.Random(seed)
    chroms = ["chr1", "chr2", "chrX"] + (["chrY"] if rng.random() < 0.4 else [])
    nb = rng.choice([30, 50, 70])
    rows, raw_t, raw_a, refrows, baits, access = [], [], [], [], [], []
    for c in chroms:
        pos = rng.randint(0, 50000)
        n = nb if c not in ("chrX", "chrY") else max(20, nb // 2)
        if c == "chrY":
            n = 12
        step_at = rng.randint(n // 3, 2 * n // 3) if rng.random() < 0.7 else n + 1
        lvl2 = rng.choice([-0.8, 0.585, 1.0])
        a0 = pos
        for i in range(n):
            anti = (i % 5 == 4)
            sz = rng.randint(100, 400) if not anti else rng.randint(3000, 9000)
            pos += rng.randint(0, 300)
            if i == n // 2 and rng.random() < 0.5:
                pos += rng.randint(150000, 900000)  # centromere-sized gap: by_arm splits
            g = "Antitarget" if anti else rng.choice(["G%s_%d" % (c[3:], i // 8)] * 8 + ["-", "CGH"])
            base = (lvl2 if i >= step_at else 0.0) + (-1.0 if c in ("chrX", "chrY") and seed % 2 else 0.0)
            lg = round(base + rng.gauss(0, 0.12), 5)
            null = rng.random() < 0.03
            if null:
                lg = -20.0
            depth = 0.0 if null else round(40 * 2 ** lg, 4)
            w = round(rng.uniform(0.3, 1.0), 4)
            gc = round(min(0.8, max(0.2, rng.gauss(0.5, 0.1))), 4)
            rm = round(rng.random() * 0.6, 4)
            rows.append((c, pos, pos + sz, g, lg, depth, w))
            rlg = round(rng.gauss(0, 0.2), 5) + (-1.0 if c == "chrY" else 0.0)
            refrows.append((c, pos, pos + sz, g, rlg, round(40 * 2 ** rlg, 4), gc, rm, round(abs(rng.gauss(0.15, 0.08)), 5)))
            slg = round(lg + rlg + 5.0, 5)
            (raw_a if anti else raw_t).append((c, pos, pos + sz, g, slg, round(2 ** slg, 4)))
            if not anti:
                baits.append((c, pos, pos + sz, g if rng.random() < 0.8 else g + "|x,y"))
            pos += sz
        access.append((c, max(0, a0 - 20000), pos + rng.randint(20000, 90000)))
    meta = {"sample_id": "S%d" % seed, "filename": "S%d.cnr" % seed}
    cnr = CNA.from_rows(rows, columns=["chromosome", "start", "end", "gene", "log2", "depth", "weight"], meta_dict=dict(meta))
    cov = ["chromosome", "start", "end", "gene", "log2", "depth"]
    tgt = CNA.from_rows(raw_t, columns=cov, meta_dict=dict(meta))
    anti = CNA.from_rows(raw_a, columns=cov, meta_dict=dict(meta))
    ref = CNA.from_rows(refrows, columns=["chromosome", "start", "end", "gene", "log2", "depth", "gc", "rmask", "spread"],
                        meta_dict={"sample_id": "reference"})
    bait = GA.from_rows(baits, columns=["chromosome", "start", "end", "gene"])
    acc = GA.from_rows(access, columns=["chromosome", "start", "end"])
    np.random.seed(seed)
    seg = segmentation.do_segmentation(cnr.copy(), "haar")
    sm = segmetrics.do_segmetrics(cnr.copy(), seg.copy(), ("mean",), ("sem",), ("ci", "pi"))
    cl = call.do_call(sm.copy(), method="threshold")
    # a second, coarser segmentation (other breakpoints) used as the "other" table of the interval methods
    regions = GA.from_rows([(c, s + 37, e + 1200, "r%d" % k) for k, (c, s, e, *_r) in enumerate(rows) if k % 7 in (0, 1, 3)],
                           columns=["chromosome", "start", "end", "gene"])
    ds = {"cnr": cnr, "tgt": tgt, "anti": anti, "ref": ref, "bait": bait, "acc": acc, "seg": seg, "sm": sm, "cl": cl,
          "regions": regions,
          "IG_list": ["-", "CGH"], "IG_empty": [], "IG_tuple": ("-", ".", "CGH"),
          "THR": [-1.1, -0.25, 0.2, 0.7], "LOC": ["mean", "median"], "SPR": ["stdev", "sem"], "IVL": ["ci", "pi"],
          "COMB": {"gene": "-".join, "log2": max, "depth": max, "weight": max}}
    for k, v in FILTER_LISTS.items():
        ds[k] = list(v)
    return ds


def dataset(seed):
    if seed not in _DS:
        if len(_DS) > 12:
            _DS.clear()
            _REF.clear()
        _DS[seed] = _mkds(seed)
    return _DS[seed]


def fresh_env(seed):
    """deep copies of every argument object (what `the same call on fresh copies` uses)"""
    ds = dataset(seed)
    env = {}
    for k, v in ds.items():
        if hasattr(v, "data") and hasattr(v, "meta"):
            env[k] = v.copy()
        elif k == "COMB":
            env[k] = dict(v)
        else:
            env[k] = copy.deepcopy(v)
    return env


# ---------------------------------------------------------------------------------------------
# canonical digests / snapshots


def _canon(x):
    import numpy as np
    import pandas as pd
    from skgenome import GenomicArray as GA

    if isinstance(x, GA):
        return {"GA": type(x).__name__, "data": _canon(x.data),
                "meta": _canon({k: v for k, v in x.meta.items() if k not in ("chr_x", "chr_y")})}
    if isinstance(x, pd.DataFrame):
        return {"cols": [str(c) for c in x.columns], "dtypes": [str(t) for t in x.dtypes],
                "index": _canon(list(x.index)), "vals": [_canon(x[c].tolist()) for c in x.columns]}
    if isinstance(x, pd.Series):
        return {"series": str(x.dtype), "index": _canon(list(x.index)), "vals": _canon(x.tolist())}
    if isinstance(x, np.ndarray):
        return {"nd": str(x.dtype), "shape": list(x.shape), "vals": _canon(x.tolist())}
    if isinstance(x, dict):
        return {"dict": [[str(k), _canon(v)] for k, v in x.items()]}
    if isinstance(x, tuple) and hasattr(x, "_fields"):
        return {"nt": [_canon(v) for v in x]}
    if isinstance(x, tuple):
        return {"tuple": [_canon(v) for v in x]}
    if isinstance(x, list):
        return [_canon(v) for v in x]
    if isinstance(x, (bool, np.bool_)):
        return bool(x)
    if isinstance(x, (int, np.integer)):
        return int(x)
    if isinstance(x, (float, np.floating)):
        f = float(x)
        if f != f:
            return None
        return "%.12g" % f
    if x is None or isinstance(x, str):
        return x
    if callable(x):
        return "<callable %s>" % getattr(x, "__name__", type(x).__name__)
    return "<%s %s>" % (type(x).__name__, str(x)[:80])


def digest(x):
    return hashlib.sha1(json.dumps(_canon(x), sort_keys=True, separators=(",", ":")).encode()).hexdigest()[:16]


def _frame_bytes(h, df):
    import numpy as np
    h.update(("|".join(map(str, df.columns)) + "#" + "|".join(str(t) for t in df.dtypes)).encode())
    idx = df.index
    h.update(np.asarray(idx).tobytes() if idx.dtype != object else "\x00".join(map(str, idx)).encode())
    for c in df.columns:
        v = df[c].to_numpy()
        if v.dtype == object or v.dtype.kind in "OUS":
            h.update("\x00".join(map(str, v)).encode())
        else:
            h.update(np.ascontiguousarray(v).tobytes())
        h.update(b"\x01")


def arg_digest(x):
    """exact (bit-level) fingerprint of an argument object: frames incl. index and dtypes, lists, dicts minus
    chr_x / chr_y meta.  Only ever compared with the fingerprint of the same object before the call."""
    if hasattr(x, "data") and hasattr(x, "meta"):
        h = hashlib.sha1(type(x).__name__.encode())
        _frame_bytes(h, x.data)
        h.update(repr(sorted((str(k), repr(v)) for k, v in x.meta.items() if k not in ("chr_x", "chr_y"))).encode())
        return h.hexdigest()[:16]
    return digest(x)


def snapshot(env):
    return {k: arg_digest(v) for k, v in env.items()}


# ---------------------------------------------------------------------------------------------
# the op alphabet: name -> (base name, processes, small list arguments used as [role, name], callable(env, p))


def _ops():
    import pandas as pd
    from skgenome import tabio
    from cnvlib import (antitarget, bintest, call, export, fix, metrics, reports, segmentation, segmetrics, target)

    def seg_(method, **kw):
        return lambda e, p: segmentation.do_segmentation(e["cnr"], method, processes=p, **kw)

    def call_(method, fl=None, **kw):
        def f(e, p):
            kw2 = dict(kw)
            if fl:
                kw2["filters"] = e[fl]
            return call.do_call(e["sm"], method=method, thresholds=e["THR"], **kw2)
        return f

    def export_seg(e, p):
        d = tempfile.mkdtemp(dir="/var/tmp", prefix="c10seg")
        try:
            fn = os.path.join(d, "s.cns")
            tabio.write(e["cl"], fn)
            return export.export_seg([fn])
        finally:
            shutil.rmtree(d, ignore_errors=True)

    def center_copy(e, p):
        c = e["cnr"].copy()
        c.center_all(skip_low=True)
        return c

    def shuffle_copy(e, p):
        c = e["cnr"].copy()
        order = c.shuffle()
        return order, c

    def tf(ig):
        def f(e, p):
            return segmentation.transfer_fields(e["seg"].copy(), e["cnr"], ignore=e[ig])
        return f

    ops = {
        "target": ("target", 1, [], lambda e, p: target.do_target(e["bait"], do_short_names=True, do_split=True, avg_size=150)),
        "antitarget": ("antitarget", 1, [], lambda e, p: antitarget.do_antitarget(e["bait"], e["acc"], 5000, 500)),
        "fix": ("fix", 1, [], lambda e, p: fix.do_fix(e["tgt"], e["anti"], e["ref"])),
        "fix-plain": ("fix-plain", 1, [], lambda e, p: fix.do_fix(e["tgt"], e["anti"], e["ref"], do_gc=False, do_edge=False, do_rmask=False)),
        "segment-none": ("segment-none", 1, [], seg_("none")),
        "segment-haar": ("segment-haar", 1, [], seg_("haar")),
        "segment-haar-skip": ("segment-haar-skip", 1, [], seg_("haar", skip_low=True, min_weight=0.35)),
        "segment-hmm": ("segment-hmm", 1, [], seg_("hmm")),
        "segment-hmm-tumor": ("segment-hmm-tumor", 1, [], seg_("hmm-tumor")),
        "segment-hmm-germline": ("segment-hmm-germline", 1, [], seg_("hmm-germline")),
        "segmetrics": ("segmetrics", 1, [], lambda e, p: segmetrics.do_segmetrics(e["cnr"], e["seg"], e["LOC"], e["SPR"], e["IVL"])),
        "segmetrics-smooth": ("segmetrics-smooth", 1, [], lambda e, p: segmetrics.do_segmetrics(
            e["cnr"], e["seg"], e["LOC"], e["SPR"], e["IVL"], alpha=0.1, bootstraps=30, smoothed=True)),
        "call-none": ("call-none", 1, [], call_("none")),
        "call-threshold": ("call-threshold", 1, [], call_("threshold")),
        "call-clonal": ("call-clonal", 1, [], call_("clonal", purity=0.7, is_sample_female=True)),
        "call-ci-cn": ("call-ci-cn", 1, [["filters", "FL_ci_cn"]], call_("threshold", "FL_ci_cn")),
        "call-sem": ("call-sem", 1, [["filters", "FL_sem"]], call_("clonal", "FL_sem", purity=0.6)),
        "call-ampdel": ("call-ampdel", 1, [["filters", "FL_ampdel"]], call_("threshold", "FL_ampdel")),
        "call-cc": ("call-cc", 1, [["filters", "FL_cc"]], call_("threshold", "FL_cc")),
        "genemetrics": ("genemetrics", 1, [], lambda e, p: reports.do_genemetrics(e["cnr"], None, 0.2, 3, is_sample_female=True)),
        "genemetrics-seg": ("genemetrics-seg", 1, [], lambda e, p: reports.do_genemetrics(e["cnr"], e["seg"], 0.2, 3, is_sample_female=True)),
        "genemetrics-cl": ("genemetrics-cl", 1, [], lambda e, p: reports.do_genemetrics(e["cnr"], e["cl"], 0.1, 1, skip_low=True)),
        # called / annotated segments (extra columns) without skip_low, in the four (reference X, sample sex) cells:
        # when the two agree shift_xx has nothing to shift, when they differ it shifts chrX
        "genemetrics-cl-Xf": ("genemetrics-cl-Xf", 1, [], lambda e, p: reports.do_genemetrics(
            e["cnr"], e["cl"], 0.1, 1, is_haploid_x_reference=False, is_sample_female=True)),
        "genemetrics-cl-Xm": ("genemetrics-cl-Xm", 1, [], lambda e, p: reports.do_genemetrics(
            e["cnr"], e["cl"], 0.1, 1, is_haploid_x_reference=False, is_sample_female=False)),
        "genemetrics-sm-Yf": ("genemetrics-sm-Yf", 1, [], lambda e, p: reports.do_genemetrics(
            e["cnr"], e["sm"], 0.2, 2, is_haploid_x_reference=True, is_sample_female=True)),
        "genemetrics-sm-Ym": ("genemetrics-sm-Ym", 1, [], lambda e, p: reports.do_genemetrics(
            e["cnr"], e["sm"], 0.2, 2, is_haploid_x_reference=True, is_sample_female=False)),
        "bintest-target": ("bintest-target", 1, [], lambda e, p: bintest.do_bintest(e["cnr"], e["sm"], 0.2, target_only=True)),
        "segmetrics-skip": ("segmetrics-skip", 1, [], lambda e, p: segmetrics.do_segmetrics(
            e["cnr"], e["cl"], ("mode", "p_ttest"), ("mad", "iqr", "bivar", "mse"), ("pi",), alpha=0.2, skip_low=True)),
        "breaks": ("breaks", 1, [], lambda e, p: reports.do_breaks(e["cnr"], e["seg"], 1)),
        "bintest": ("bintest", 1, [], lambda e, p: bintest.do_bintest(e["cnr"], e["seg"], 0.05)),
        "metrics": ("metrics", 1, [], lambda e, p: metrics.do_metrics(e["cnr"], e["seg"])),
        "export-bed": ("export-bed", 1, [], lambda e, p: export.export_bed(e["cl"], 2, False, None, True, "L", "all")),
        "export-vcf": ("export-vcf", 1, [], lambda e, p: export.export_vcf(e["cl"], 2, False, None, True)),
        "export-seg": ("export-seg", 1, [], export_seg),
        "export-theta": ("export-theta", 1, [], lambda e, p: export.export_theta(e["seg"], e["cnr"])),
        "center_all-copy": ("center_all-copy", 1, [], center_copy),
        "shuffle-copy": ("shuffle-copy", 1, [], shuffle_copy),
        "merge": ("merge", 1, [], lambda e, p: e["cnr"].merge(combine=e["COMB"])),
        "flatten": ("flatten", 1, [], lambda e, p: e["regions"].flatten()),
        "subtract": ("subtract", 1, [], lambda e, p: e["cnr"].subtract(e["regions"])),
        "intersection": ("intersection", 1, [], lambda e, p: e["cnr"].intersection(e["regions"], mode="trim")),
        "subdivide": ("subdivide", 1, [], lambda e, p: e["bait"].subdivide(150, 50)),
        "resize": ("resize", 1, [], lambda e, p: e["cnr"].resize_ranges(50)),
        "by_arm": ("by_arm", 1, [], lambda e, p: [(k, a) for k, a in e["cnr"].by_arm()]),
        "by_gene": ("by_gene", 1, [], lambda e, p: [(k, a) for k, a in e["cnr"].by_gene()]),
        "by_gene-list": ("by_gene-list", 1, [["ignore", "IG_list"]], lambda e, p: [(k, a) for k, a in e["cnr"].by_gene(e["IG_list"])]),
        "by_gene-tuple": ("by_gene-tuple", 1, [["ignore", "IG_tuple"]], lambda e, p: [(k, a) for k, a in e["cnr"].by_gene(e["IG_tuple"])]),
        "squash_genes-list": ("squash_genes-list", 1, [["ignore", "IG_empty"]],
                              lambda e, p: e["cnr"].squash_genes(summary_func=pd.Series.median, ignore=e["IG_empty"])),
        "transfer_fields-list": ("transfer_fields-list", 1, [["ignore", "IG_list"]], tf("IG_list")),
        "gene_intervals-list": ("gene_intervals-list", 1, [["ignore", "IG_list"]],
                                lambda e, p: dict(reports.get_gene_intervals(e["cnr"], e["IG_list"]))),
    }
    for base in ("segment-none", "segment-haar", "segment-haar-skip"):
        for p in (2, 3, 16):
            ops["%s@p%d" % (base, p)] = (base, p, [], ops[base][3])
    # the HMM methods accept `processes` too (and run serially whatever it says)
    ops["segment-hmm-germline@p3"] = ("segment-hmm-germline", 3, [], ops["segment-hmm-germline"][3])
    return ops


_OPS = None


def ops():
    global _OPS
    if _OPS is None:
        _OPS = _ops()
    return _OPS


# static description of the alphabet (must not import cnvlib: used by gen_cases in the parent process)
BASE_OPS = ["target", "antitarget", "fix", "fix-plain", "segment-none", "segment-haar", "segment-haar-skip", "segment-hmm",
            "segment-hmm-tumor", "segment-hmm-germline", "segmetrics", "segmetrics-smooth", "call-none",
            "call-threshold", "call-clonal", "call-ci-cn", "call-sem", "call-ampdel", "call-cc", "genemetrics",
            "genemetrics-seg", "genemetrics-cl", "genemetrics-cl-Xf", "genemetrics-cl-Xm", "genemetrics-sm-Yf", "genemetrics-sm-Ym",
            "bintest-target", "segmetrics-skip", "breaks", "bintest", "metrics", "export-bed", "export-vcf", "export-seg", "export-theta",
            "center_all-copy", "shuffle-copy", "merge", "flatten", "subtract", "intersection", "subdivide", "resize", "by_arm",
            "by_gene", "by_gene-list", "by_gene-tuple", "squash_genes-list", "transfer_fields-list",
            "gene_intervals-list"]
PAR_OPS = ["%s@p%d" % (b, p) for b in ("segment-none", "segment-haar", "segment-haar-skip") for p in (2, 3, 16)] + [
    "segment-hmm-germline@p3"]
SMALL_USE = {"call-ci-cn": [["filters", "FL_ci_cn"]], "call-sem": [["filters", "FL_sem"]],
             "call-ampdel": [["filters", "FL_ampdel"]], "call-cc": [["filters", "FL_cc"]],
             "by_gene-list": [["ignore", "IG_list"]], "by_gene-tuple": [["ignore", "IG_tuple"]],
             "squash_genes-list": [["ignore", "IG_empty"]], "transfer_fields-list": [["ignore", "IG_list"]],
             "gene_intervals-list": [["ignore", "IG_list"]]}


def _seed_rngs(s):
    import numpy as np
    np.random.seed(s % (2 ** 32))
    _pyrandom.seed(s)


def _run_op(name, env, seed):
    base, p, _small, f = ops()[name]
    _seed_rngs(seed)
    try:
        return digest(f(env, p))
    except Exception as e:  # an op that fails must fail the same way on fresh copies
        return "ERR:%s:%s" % (type(e).__name__, str(e)[:60])


def reference_result(ds_seed, base):
    """the same call on fresh copies, 1 worker, a fixed other RNG state"""
    key = (ds_seed, base)
    if key not in _REF:
        _REF[key] = _run_op(base, fresh_env(ds_seed), 987654321)
    return _REF[key]


# ---------------------------------------------------------------------------------------------
# op `history`

HEAP_NAMES = ["FL_ci_cn", "FL_sem", "FL_ampdel", "FL_cc", "IG_list", "IG_empty", "IG_tuple", "THR", "LOC", "SPR", "IVL"]
READS = {"segmetrics": ["LOC", "SPR", "IVL"], "segmetrics-smooth": ["LOC", "SPR", "IVL"]}
PREFIX = bool(os.environ.get("C10_PREFIX_MODEL"))  # development: the model of the code before fix J


def base_of(name):
    return name.split("@")[0]


def procs_of(name):
    return int(name.split("@p")[1]) if "@p" in name else 1


def uses_of(name):
    b = base_of(name)
    u = [[("ignore_tuple" if n == "IG_tuple" else role), HEAP_NAMES.index(n)] for role, n in SMALL_USE.get(b, [])]
    if b.startswith("call-"):
        u.append(["read", HEAP_NAMES.index("THR")])
    u += [["read", HEAP_NAMES.index(n)] for n in READS.get(b, [])]
    return u


def _heap(env):
    return [[str(x) for x in env[n]] for n in HEAP_NAMES]


def _tables(env):
    return sorted([k, arg_digest(v)] for k, v in env.items() if k not in HEAP_NAMES)


def _run_history(case):
    i = case["in"]
    env = fresh_env(i["ds"])
    out = {"heap0": _heap(env), "steps": []}
    after = _tables(env)
    for st in i["steps"]:
        before = after
        res = _run_op(st["name"], env, st["seed"])
        after = _tables(env)
        out["steps"].append({"res": res, "fresh": reference_result(i["ds"], base_of(st["name"])),
                             "before": before, "after": after, "heap": _heap(env)})
    return out


# ---------------------------------------------------------------------------------------------
# op `ensure_path`


def _tiny(i):
    from cnvlib.cnary import CopyNumArray as CNA
    return CNA.from_rows([("chr1", 100 * i, 100 * i + 50 + i, "g%d" % i, 0.25 * i)],
                         columns=["chromosome", "start", "end", "gene", "log2"], meta_dict={"sample_id": "w%d" % i})


def _run_ensure_path(case):
    from skgenome import tabio
    from cnvlib import core as cnvcore
    i = case["in"]
    root = tempfile.mkdtemp(dir="/var/tmp", prefix="c10ep")
    try:
        d = os.path.join(root, "d")
        os.mkdir(d)
        for name, tok in i["pre"]:
            p = os.path.join(d, name)
            os.makedirs(os.path.dirname(p), exist_ok=True)
            with open(p, "w") as f:
                f.write(tok)
        texts = {tok: tok for _n, tok in i["pre"]}
        target = os.path.join(d, i["path"])
        for k in range(i["writes"]):
            arr = _tiny(k)
            refp = os.path.join(root, "ref%d" % k)
            tabio.write(arr, refp)
            texts[open(refp).read()] = "w%d" % k
            if i["guarded"]:
                cnvcore.ensure_path(target)
            else:
                os.makedirs(os.path.dirname(target), exist_ok=True)
            tabio.write(arr, target)
        files = []
        for dp, _dn, fns in os.walk(d):
            for fn in fns:
                p = os.path.join(dp, fn)
                t = open(p).read()
                files.append([os.path.relpath(p, d), texts.get(t, "?" + hashlib.sha1(t.encode()).hexdigest()[:8])])
        return {"files": sorted(files)}
    finally:
        shutil.rmtree(root, ignore_errors=True)


# ---------------------------------------------------------------------------------------------
# op `rng_trace`: record the calls into the global generators while a function of the RNG table runs

_NP_RANDOM = ["seed", "permutation", "randint", "randn", "shuffle", "rand", "random", "random_sample", "choice", "normal",
              "standard_normal", "uniform", "sample", "ranf", "bytes", "beta", "binomial", "poisson", "exponential",
              "gamma", "multivariate_normal", "random_integers", "default_rng", "RandomState"]
_PY_RANDOM = ["seed", "random", "randint", "randrange", "choice", "choices", "shuffle", "sample", "uniform", "gauss",
              "normalvariate", "getrandbits", "betavariate", "expovariate"]


class _Recorder:
    def __init__(self):
        self.trace = []
        self.saved = []

    def __enter__(self):
        import numpy as np

        def wrap(mod, name, orig):
            def f(*a, **k):
                if name == "seed":
                    c = a[0] if a else k.get("seed", k.get("a"))
                    self.trace.append(["seed", int(c) if isinstance(c, int) and not isinstance(c, bool) and c >= 0 else None])
                elif name in ("default_rng", "RandomState"):
                    c = a[0] if a else k.get("seed")
                    if not (isinstance(c, int) and not isinstance(c, bool)):
                        self.trace += [["seed", None], ["draw", name]]
                else:
                    self.trace.append(["draw", name])
                return orig(*a, **k)
            return f
        for mod, names in ((np.random, _NP_RANDOM), (_pyrandom, _PY_RANDOM)):
            for n in names:
                if hasattr(mod, n):
                    orig = getattr(mod, n)
                    self.saved.append((mod, n, orig))
                    setattr(mod, n, wrap(mod, n, orig))
        return self

    def __exit__(self, *a):
        for mod, n, orig in self.saved:
            setattr(mod, n, orig)


def _trace_entries():
    import numpy as np
    from skgenome import tabio
    from cnvlib import fix, reference, segmentation, segmetrics, call, reports

    def cbw(e, v):
        key = e["ref"]["gc"] if v.get("series") else e["ref"]["gc"].values
        return fix.center_by_window(e["ref"].copy(), v.get("fraction", 0.1), key)

    def cib(e, v):
        k = v.get("k", 12)
        vals = np.asarray(e["cnr"]["log2"].values[:k], dtype=float)
        wts = np.asarray(e["cnr"]["weight"].values[:k], dtype=float)
        return segmetrics.confidence_interval_bootstrap(vals, wts, v.get("alpha", 0.05), v.get("bootstraps", 20),
                                                        v.get("smoothed", False))

    def ssw(e, v):
        k = v.get("k", 5)
        vals = np.asarray(e["cnr"]["log2"].values[:k], dtype=float)
        wts = np.asarray(e["cnr"]["weight"].values[:k], dtype=float)
        return segmetrics._smooth_samples_by_weight(vals, [(vals, wts)] * v.get("n", 3))

    def doref(e, v):
        d = tempfile.mkdtemp(dir="/var/tmp", prefix="c10ref")
        try:
            tf, af = [], []
            for s in range(v.get("samples", 2)):
                t, a = e["tgt"].copy(), e["anti"].copy()
                t["log2"] = t["log2"] + 0.01 * s
                tp, ap = os.path.join(d, "s%d.targetcoverage.cnn" % s), os.path.join(d, "s%d.antitargetcoverage.cnn" % s)
                tabio.write(t, tp)
                tabio.write(a, ap)
                tf.append(tp)
                af.append(ap)
            return reference.do_reference(tf, af, None, do_gc=False, do_edge=v.get("edge", True), do_rmask=False)
        finally:
            shutil.rmtree(d, ignore_errors=True)

    return {
        "cnvlib.fix.center_by_window": cbw,
        "cnvlib.fix.do_fix": lambda e, v: fix.do_fix(e["tgt"], e["anti"], e["ref"], do_gc=v.get("gc", True),
                                                     do_edge=v.get("edge", True), do_rmask=v.get("rmask", True)),
        "cnvlib.fix.load_adjust_coverages": lambda e, v: fix.load_adjust_coverages(
            e["tgt"], e["ref"], True, v.get("gc", True), v.get("edge", True), v.get("rmask", True), None),
        "cnvlib.segmetrics.confidence_interval_bootstrap": cib,
        "cnvlib.segmetrics._smooth_samples_by_weight": ssw,
        "cnvlib.segmetrics.make_ci_func": lambda e, v: segmetrics.make_ci_func(0.05, 20, v.get("smoothed", False)),
        "cnvlib.segmetrics.do_segmetrics": lambda e, v: segmetrics.do_segmetrics(
            e["cnr"], e["seg"], ("mean",), ("sem",), tuple(v.get("ivl", ["ci", "pi"])), alpha=v.get("alpha", 0.05),
            bootstraps=v.get("bootstraps", 20), smoothed=v.get("smoothed", False)),
        "cnvlib.reference.do_reference": doref,
        "skgenome.gary.GenomicArray.shuffle": lambda e, v: e["cnr"].copy().shuffle(),
        # functions the table does not list must not touch the generators at all
        "cnvlib.segmentation.do_segmentation": lambda e, v: segmentation.do_segmentation(e["cnr"], v.get("method", "haar")),
        "cnvlib.call.do_call": lambda e, v: call.do_call(e["sm"], method="threshold", filters=["ci", "cn"]),
        "cnvlib.reports.do_genemetrics": lambda e, v: reports.do_genemetrics(e["cnr"], e["seg"], 0.2, 3, is_sample_female=True),
    }


def _run_rng_trace(case):
    i = case["in"]
    env = fresh_env(i["ds"])
    f = _trace_entries()[i["fn"]]
    _seed_rngs(i.get("seed", 1))
    with _Recorder() as rec:
        f(env, i.get("variant", {}))
    return {"trace": rec.trace}


# ---------------------------------------------------------------------------------------------
# op `gather`


def _gather_task(args):
    import time
    x, delay = args
    time.sleep(delay)
    return x * x + 1, time.time()


def _run_gather(case):
    from cnvlib import parallel
    i = case["in"]
    with parallel.pick_pool(i["procs"]) as pool:
        got = list(pool.map(_gather_task, list(zip(i["xs"], i["delays"]))))
    order = sorted(range(len(got)), key=lambda k: (got[k][1], k))
    return {"res": [g[0] for g in got], "order": order}


# ---------------------------------------------------------------------------------------------
# harness interface


def run_impl(case):
    op = case["op"]
    if op == "history":
        return _run_history(case)
    if op == "ensure_path":
        return _run_ensure_path(case)
    if op == "rng_trace":
        return _run_rng_trace(case)
    if op == "gather":
        return _run_gather(case)
    raise ValueError(op)


def _failed(impl):
    return isinstance(impl, dict) and "__error__" in impl


def to_line(case, impl):
    op, i = case["op"], case["in"]
    if _failed(impl):
        impl_j = None
    if op == "history":
        steps = []
        for k, st in enumerate(i["steps"]):
            fresh = impl["steps"][k]["fresh"] if not _failed(impl) else ""
            steps.append({"name": base_of(st["name"]), "procs": procs_of(st["name"]), "uses": uses_of(st["name"]), "fresh": fresh})
        heap0 = impl["heap0"] if not _failed(impl) else [[] for _ in HEAP_NAMES]
        impl_j = None if _failed(impl) else {"steps": [{k: s[k] for k in ("res", "before", "after", "heap")} for s in impl["steps"]]}
        return {"op": op, "in": {"prefix": PREFIX, "heap": heap0, "steps": steps}, "impl": impl_j}
    if op == "ensure_path":
        return {"op": op, "in": {"pre": i["pre"], "path": i["path"], "writes": ["w%d" % k for k in range(i["writes"])],
                                 "guarded": i["guarded"]}, "impl": None if _failed(impl) else impl}
    if op == "rng_trace":
        return {"op": op, "in": {"fn": i["fn"]}, "impl": None if _failed(impl) else impl}
    if op == "gather":
        order = impl["order"] if not _failed(impl) else list(range(len(i["xs"])))
        return {"op": op, "in": {"xs": i["xs"], "order": order}, "impl": None if _failed(impl) else {"res": impl["res"]}}
    raise ValueError(op)


def judge(case, impl, resp):
    if _failed(impl):
        return ["raises_" + impl["__error__"]], [], None
    if "error" in resp:
        return [], ["driver error: " + str(resp["error"])], None
    op, out = case["op"], resp["out"]
    spec_fail = list(resp.get("spec") or [])
    disagree = []
    if op == "history":
        for a in impl["steps"]:
            # a step of the alphabet that cannot even be computed on fresh copies returns no table at all
            if a["fresh"].startswith("ERR:") and ("raises_" + a["fresh"].split(":")[1]) not in spec_fail:
                spec_fail.append("raises_" + a["fresh"].split(":")[1])
        for k, (a, b) in enumerate(zip(impl["steps"], out["steps"])):
            if a["res"] != b["res"]:
                disagree.append("step %d (%s): result %s, model (pure function) %s" % (k, case["in"]["steps"][k]["name"], a["res"], b["res"]))
            if a["heap"] != b["heap"]:
                disagree.append("step %d: list arguments %s, model %s" % (k, a["heap"], b["heap"]))
    elif op == "ensure_path":
        if impl["files"] != out["files"]:
            disagree.append("directory %s, model %s" % (impl["files"], out["files"]))
    elif op == "rng_trace":
        if not out.get("accepted"):
            disagree.append("trace %s is not a path of the extracted skeleton of %s (known=%s)" % (impl["trace"][:8], case["in"]["fn"], out["known"]))
        if case["in"].get("listed") is not None and out["known"] != case["in"]["listed"]:
            disagree.append("RNG table %s %s" % ("misses" if case["in"]["listed"] else "unexpectedly lists", case["in"]["fn"]))
    elif op == "gather":
        if [x for x in out["res"]] != impl["res"]:
            disagree.append("pool.map gave %s, ordered-gather model %s" % (impl["res"], out["res"]))
    return spec_fail, disagree, None


def nontrivial(case, impl, resp):
    if _failed(impl):
        return False
    op, i = case["op"], case["in"]
    if op == "history":
        return len(i["steps"]) >= 2 or any("@p" in s["name"] for s in i["steps"])
    if op == "ensure_path":
        return i["writes"] >= 2 or any(n == i["path"] for n, _t in i["pre"])
    if op == "rng_trace":
        return any(o[0] == "draw" for o in impl["trace"])
    if op == "gather":
        return impl["order"] != sorted(impl["order"]) or i["procs"] > 1
    return True


# -- generators


def _hist(ds, names, rng, tag):
    return {"op": "history", "tag": tag, "in": {"ds": ds, "steps": [{"name": n, "seed": rng.randrange(2 ** 31)} for n in names]}}


def _ensure_case(rng, tag="ensure_path"):
    path = rng.choice(["out.cnn", "out.cnn", "ref.cnn", "sub/out.cnn", "a.b/c.d.cnn"])
    pool = [path, path + ".1", path + ".2", path + ".3", path + ".4", path + ".01", path + ".1.1", path + ".x", path + "1",
            "other.cnn", "other.cnn.1", path + ".10"]
    k = rng.random()
    if k < 0.25:
        pre = []
    elif k < 0.5:
        pre = [path]
    else:
        pre = [n for n in pool if rng.random() < 0.35]
    if rng.random() < 0.15:  # many consecutive backups already there
        pre = [path] + [path + ".%d" % j for j in range(1, rng.randint(2, 12))]
    pre = sorted(set(pre))
    return {"op": "ensure_path", "tag": tag + ("-existing" if path in pre else "-new"),
            "in": {"pre": [[n, "pre:%d:%s" % (j, n)] for j, n in enumerate(pre)], "path": path,
                   "writes": rng.randint(1, 5), "guarded": True}}


TRACE_VARIANTS = {
    "cnvlib.fix.center_by_window": [{}, {"series": True}, {"fraction": 0.3}],
    "cnvlib.fix.do_fix": [{}, {"gc": False}, {"edge": False, "rmask": False}, {"gc": False, "edge": False, "rmask": False}],
    "cnvlib.fix.load_adjust_coverages": [{}, {"rmask": False}],
    "cnvlib.segmetrics.confidence_interval_bootstrap": [{}, {"k": 1}, {"smoothed": True}, {"smoothed": True, "k": 2, "bootstraps": 5},
                                                        {"alpha": 0.5, "bootstraps": 3}, {"k": 40, "bootstraps": 100}],
    "cnvlib.segmetrics._smooth_samples_by_weight": [{}, {"n": 0}],
    "cnvlib.segmetrics.make_ci_func": [{}],
    "cnvlib.segmetrics.do_segmetrics": [{}, {"smoothed": True, "bootstraps": 10}, {"ivl": ["pi"]}, {"ivl": ["ci"], "alpha": 0.2}],
    "cnvlib.reference.do_reference": [{}, {"edge": False}, {"samples": 1}],
    "skgenome.gary.GenomicArray.shuffle": [{}],
    "cnvlib.segmentation.do_segmentation": [{"method": "haar"}, {"method": "hmm"}, {"method": "hmm-tumor"},
                                            {"method": "hmm-germline"}, {"method": "none"}],
    "cnvlib.call.do_call": [{}],
    "cnvlib.reports.do_genemetrics": [{}],
}
UNLISTED = {"cnvlib.segmentation.do_segmentation", "cnvlib.call.do_call", "cnvlib.reports.do_genemetrics"}


def _trace_cases(rng, ds, n):
    out = []
    allv = [(fn, v) for fn, vs in TRACE_VARIANTS.items() for v in vs]
    if n < len(allv):
        allv = allv[:]
        rng.shuffle(allv)
        allv = sorted(allv[:n], key=lambda x: x[0])
    for fn, v in allv:
        out.append({"op": "rng_trace", "tag": fn.rsplit(".", 1)[1],
                    "in": {"fn": fn, "ds": ds, "variant": v, "seed": rng.randrange(2 ** 31), "listed": fn not in UNLISTED}})
    return out


def _gather_case(rng):
    n = rng.choice([0, 1, 2, 3, 5, 8, 12])
    procs = rng.choice([1, 2, 3, 16])
    xs = [rng.randint(-50, 50) for _ in range(n)]
    k = rng.random()
    if k < 0.5:  # later tasks finish first
        delays = [round(0.03 * (n - j) / max(1, n), 4) for j in range(n)]
    else:
        delays = [round(rng.choice([0.0, 0.005, 0.02, 0.04]), 4) for _ in range(n)]
    return {"op": "gather", "tag": "p%d" % procs, "in": {"xs": xs, "delays": delays, "procs": procs}}


def gen_cases(rng, tier):
    cases = []
    nds = {"quick": 2, "thorough": 4, "search": 2}[tier]
    dss = [rng.randrange(1, 10 ** 6) for _ in range(nds)]
    allops = BASE_OPS + PAR_OPS
    if tier == "quick":
        # exhaustive: every history of length <= 2 over the base alphabet; worker-count variants with sampled partners
        for n in allops:
            cases.append(_hist(dss[0], [n], rng, "len1"))
        for a in BASE_OPS:
            for b in BASE_OPS:
                cases.append(_hist(dss[(BASE_OPS.index(a) + BASE_OPS.index(b)) % nds], [a, b], rng, "len2"))
        for a in PAR_OPS:
            for b in rng.sample(BASE_OPS, 4) + [a, base_of(a)]:
                cases.append(_hist(rng.choice(dss), [a, b], rng, "len2-workers"))
                cases.append(_hist(rng.choice(dss), [b, a], rng, "len2-workers"))
        n_ep, n_tr, n_ga, n_long = 160, 100, 24, 60
    elif tier == "thorough":
        for n in allops:
            for ds in dss:
                cases.append(_hist(ds, [n], rng, "len1"))
        for a in allops:
            for b in allops:
                if not (a.endswith("@p16") and b.endswith("@p16")):
                    cases.append(_hist(rng.choice(dss), [a, b], rng, "len2"))
        n_ep, n_tr, n_ga, n_long = 1200, 100, 80, 3500
    else:  # search: biased to the steps that reach the generators, the pools and the list arguments
        n_ep, n_tr, n_ga, n_long = 200, 100, 10, 500
    hot = ["fix", "segmetrics", "segmetrics-smooth", "call-ci-cn", "call-sem", "call-cc", "by_gene-list", "squash_genes-list",
           "transfer_fields-list", "gene_intervals-list", "call-threshold", "center_all-copy", "merge", "export-vcf"] + PAR_OPS
    for _ in range(n_long):
        ln = rng.choice([3, 4, 4]) if tier != "search" else rng.choice([1, 2, 3])
        names = [rng.choice(hot if (tier == "search" or rng.random() < 0.35) else allops) for _ in range(ln)]
        if rng.random() < 0.3:
            names[-1] = names[0]  # repeated
        # keep the 16-worker pools rare: they dominate the wall time
        names = [n if not n.endswith("@p16") or rng.random() < 0.3 else n.replace("@p16", "@p2") for n in names]
        cases.append(_hist(rng.choice(dss), names, rng, "len%d" % ln))
    for _ in range(n_ep):
        cases.append(_ensure_case(rng))
    for _ in range(max(1, n_ep // 40)):
        c = _ensure_case(rng, "plain_write")
        c["in"]["guarded"] = False
        cases.append(c)
    cases += _trace_cases(rng, dss[0], n_tr)
    for _ in range(n_ga):
        cases.append(_gather_case(rng))
    return cases


def corpus():
    rng = _pyrandom.Random(10)
    ds = 77
    cs = []
    # J: do_call removes ci / sem from the caller's filter list; the second call sees another list
    cs.append(_hist(ds, ["call-ci-cn", "call-ci-cn"], rng, "corpus-J-filters"))
    cs.append(_hist(ds, ["call-sem", "call-sem"], rng, "corpus-J-filters"))
    cs.append(_hist(ds, ["call-cc"], rng, "corpus-J-filters"))
    # J: `ignore += ANTITARGET_ALIASES` extends a caller-supplied list
    for n in ("by_gene-list", "squash_genes-list", "transfer_fields-list", "gene_intervals-list"):
        cs.append(_hist(ds, [n], rng, "corpus-J-ignore"))
    cs.append(_hist(ds, ["by_gene-list", "gene_intervals-list", "by_gene-list"], rng, "corpus-J-ignore"))
    cs.append(_hist(ds, ["by_gene-tuple", "by_gene-tuple"], rng, "corpus-tuple"))
    # boundary cases of the numbered backups
    for pre, k in (([], 1), (["out.cnn"], 1), (["out.cnn", "out.cnn.1"], 2), (["out.cnn", "out.cnn.2"], 3),
                   (["out.cnn.1"], 2), (["out.cnn"] + ["out.cnn.%d" % j for j in range(1, 11)], 2)):
        cs.append({"op": "ensure_path", "tag": "corpus", "in": {"pre": [[n, "pre:" + n] for n in pre], "path": "out.cnn",
                                                               "writes": k, "guarded": True}})
    return cs


def shrink(case):
    i = case["in"]
    if case["op"] == "history":
        st = i["steps"]
        for k in range(len(st)):
            if len(st) > 1:
                yield {**case, "in": {**i, "steps": st[:k] + st[k + 1:]}}
        for k, s in enumerate(st):
            if "@p" in s["name"]:
                yield {**case, "in": {**i, "steps": st[:k] + [{**s, "name": base_of(s["name"]) + "@p2"}] + st[k + 1:]}}
    elif case["op"] == "ensure_path":
        for k in range(len(i["pre"])):
            yield {**case, "in": {**i, "pre": i["pre"][:k] + i["pre"][k + 1:]}}
        if i["writes"] > 1:
            yield {**case, "in": {**i, "writes": i["writes"] - 1}}
