"""C10 -- results depend only on the arguments (not workers, RNG state, history); inputs untouched;
guarded writers never overwrite.

Four ops go to the Lean driver (Driver/Effects.lean):

* `history`   a sequence of <= 4 pipeline steps / array methods run by the REAL code on SHARED argument objects,
              every step with its own RNG re-seeding and worker count; for every step the harness records a digest of
              the result, a digest of the same call on fresh copies (1 worker, other RNG state), digests of every
              argument before and after, and the final value of the small list arguments (filter lists, ignore lists).
              The Lean model is the pure function (result = value on fresh copies, heap of list arguments threaded
              through the model of `do_call` / `by_gene` / ... as the code is), the Lean spec checker evaluates the
              property's clauses on the real observations.
* `ensure_path` 1..5 guarded writes (core.ensure_path + tabio.write) to one path in a scratch directory holding
              arbitrary earlier files; the final directory listing is compared with the file-system model.
* `rng_trace` the real np.random calls made by every function of the generated RNG table, recorded at run time,
              matched against the ast-extracted skeleton and checked for "re-seeds before the first draw".
* `gather`    the real parallel.pick_pool(n).map on tasks finishing in scrambled order vs the ordered-gather model.
"""
from __future__ import annotations

import copy
import hashlib
import json
import os
import random as _pyrandom
import shutil
import tempfile

LEVEL = "proof"
RULE = ("histories: every sequence of <= 2 steps (quick) / seeded sample of <= 4 steps (thorough) over the alphabet "
        "{target, antitarget, fix(+-gc/edge/rmask), segment none/haar/hmm/hmm-tumor/hmm-germline x processes "
        "{1,2,3,16}, segmetrics (ci/pi/sem, smoothed bootstrap), call none/threshold/clonal x filter lists, "
        "genemetrics, breaks, bintest, metrics, export bed/vcf/seg/theta, center_all on a copy, merge, flatten, "
        "subtract, intersection, subdivide, resize, by_arm, by_gene, squash_genes, transfer_fields, "
        "get_gene_intervals} on shared argument objects of seeded data sets, numpy+python RNG re-seeded before every "
        "step; ensure_path: 1..5 writes x pre-existing numbered files; rng_trace: every table entry x input shapes; "
        "gather: 0..12 tasks x workers {1,2,3,16}. non-trivial = a history with >= 2 steps, or a step that runs in "
        "> 1 process, or a write onto an existing file, or a trace with >= 1 draw; distinct by hash")
EXHAUSTIVE = {"quick": True, "thorough": False}
ASSUMPTIONS = ["argument objects are those a Python caller would pass: CopyNumArray/GenomicArray tables, lists of "
               "strings, dicts; snapshots compare frames incl. index and dtypes, lists, dicts minus chr_x/chr_y meta",
               "results are compared through a canonical digest (floats at 12 significant digits, NaN = null)",
               "the file system is a finite map name -> content inside one scratch directory (no concurrent writers)"]
TRUSTED_EXTRA = ["purity of the CPython/pandas code is not a theorem: it is established by the differential histories",
                 "concurrent.futures.ProcessPoolExecutor.map ordering; os.rename / os.path.isfile semantics",
                 "numpy global RandomState (np.random.seed makes later draws a function of the seed)",
                 "pomegranate HMM fitting, haar numerics (black boxes; only repeatability is observed)",
                 "cbs / flasso segmentation need Rscript (absent in this sandbox): left out"]

# ---------------------------------------------------------------------------------------------
# data sets (built in the worker from a seed; cached per process)

_DS = {}
_REF = {}
SMALL = ("FL_ci_cn", "FL_sem", "FL_ampdel", "FL_cc", "IG_list", "IG_empty", "IG_tuple", "THR", "LOC", "SPR", "IVL")
FILTER_LISTS = {"FL_ci_cn": ["ci", "cn"], "FL_sem": ["sem"], "FL_ampdel": ["ampdel"], "FL_cc": ["ci", "ci", "cn"]}


def _mkds(seed):
    """argument objects of one data set; everything derives from `seed`"""
    import numpy as np
    from skgenome import GenomicArray as GA
    from cnvlib.cnary import CopyNumArray as CNA
    from cnvlib import segmentation, segmetrics, call

    rng = _pyrandom.Random(seed)
    chroms = ["chr1", "chr2", "chrX"] + (["chrY"] if rng.random() < 0.4 else [])
    nb = rng.choice([40, 70, 110])
    rows, raw_t, raw_a, refrows, baits, access = [], [], [], [], [], []
    for c in chroms:
        pos = rng.randint(0, 50000)
        n = nb if c not in ("chrX", "chrY") else max(20, nb // 2)
        if c == "chrY":
            n = 12
        step_at = rng.randint(n // 3, 2 * n // 3) if rng.random() < 0.7 else n + 1
        lvl2 = rng.choice([-0.8, 0.585, 1.0])
        a0 = pos
        for i in range(n):
            anti = (i % 5 == 4)
            sz = rng.randint(100, 400) if not anti else rng.randint(3000, 9000)
            pos += rng.randint(0, 300)
            if i == n // 2 and rng.random() < 0.5:
                pos += rng.randint(150000, 900000)  # centromere-sized gap: by_arm splits
            g = "Antitarget" if anti else rng.choice(["G%s_%d" % (c[3:], i // 8)] * 8 + ["-", "CGH"])
            base = (lvl2 if i >= step_at else 0.0) + (-1.0 if c in ("chrX", "chrY") and seed % 2 else 0.0)
            lg = round(base + rng.gauss(0, 0.12), 5)
            null = rng.random() < 0.03
            if null:
                lg = -20.0
            depth = 0.0 if null else round(40 * 2 ** lg, 4)
            w = round(rng.uniform(0.3, 1.0), 4)
            gc = round(min(0.8, max(0.2, rng.gauss(0.5, 0.1))), 4)
            rm = round(rng.random() * 0.6, 4)
            rows.append((c, pos, pos + sz, g, lg, depth, w))
            rlg = round(rng.gauss(0, 0.2), 5) + (-1.0 if c == "chrY" else 0.0)
            refrows.append((c, pos, pos + sz, g, rlg, round(40 * 2 ** rlg, 4), gc, rm, round(abs(rng.gauss(0.15, 0.08)), 5)))
            slg = round(lg + rlg + 5.0, 5)
            (raw_a if anti else raw_t).append((c, pos, pos + sz, g, slg, round(2 ** slg, 4)))
            if not anti:
                baits.append((c, pos, pos + sz, g if rng.random() < 0.8 else g + "|x,y"))
            pos += sz
        access.append((c, max(0, a0 - 20000), pos + rng.randint(20000, 90000)))
    meta = {"sample_id": "S%d" % seed, "filename": "S%d.cnr" % seed}
    cnr = CNA.from_rows(rows, columns=["chromosome", "start", "end", "gene", "log2", "depth", "weight"], meta_dict=dict(meta))
    cov = ["chromosome", "start", "end", "gene", "log2", "depth"]
    tgt = CNA.from_rows(raw_t, columns=cov, meta_dict=dict(meta))
    anti = CNA.from_rows(raw_a, columns=cov, meta_dict=dict(meta))
    ref = CNA.from_rows(refrows, columns=["chromosome", "start", "end", "gene", "log2", "depth", "gc", "rmask", "spread"],
                        meta_dict={"sample_id": "reference"})
    bait = GA.from_rows(baits, columns=["chromosome", "start", "end", "gene"])
    acc = GA.from_rows(access, columns=["chromosome", "start", "end"])
    np.random.seed(seed)
    seg = segmentation.do_segmentation(cnr.copy(), "haar")
    sm = segmetrics.do_segmetrics(cnr.copy(), seg.copy(), ("mean",), ("sem",), ("ci", "pi"))
    cl = call.do_call(sm.copy(), method="threshold")
    # a second, coarser segmentation (other breakpoints) used as the "other" table of the interval methods
    regions = GA.from_rows([(c, s + 37, e + 1200, "r%d" % k) for k, (c, s, e, *_r) in enumerate(rows) if k % 7 in (0, 1, 3)],
                           columns=["chromosome", "start", "end", "gene"])
    ds = {"cnr": cnr, "tgt": tgt, "anti": anti, "ref": ref, "bait": bait, "acc": acc, "seg": seg, "sm": sm, "cl": cl,
          "regions": regions,
          "IG_list": ["-", "CGH"], "IG_empty": [], "IG_tuple": ("-", ".", "CGH"),
          "THR": [-1.1, -0.25, 0.2, 0.7], "LOC": ["mean", "median"], "SPR": ["stdev", "sem"], "IVL": ["ci", "pi"],
          "COMB": {"gene": "-".join, "log2": max, "depth": max, "weight": max}}
    for k, v in FILTER_LISTS.items():
        ds[k] = list(v)
    return ds


def dataset(seed):
    if seed not in _DS:
        if len(_DS) > 12:
            _DS.clear()
            _REF.clear()
        _DS[seed] = _mkds(seed)
    return _DS[seed]


def fresh_env(seed):
    """deep copies of every argument object (what `the same call on fresh copies` uses)"""
    ds = dataset(seed)
    env = {}
    for k, v in ds.items():
        if hasattr(v, "data") and hasattr(v, "meta"):
            env[k] = v.copy()
        elif k == "COMB":
            env[k] = dict(v)
        else:
            env[k] = copy.deepcopy(v)
    return env


# ---------------------------------------------------------------------------------------------
# canonical digests / snapshots


def _canon(x):
    import numpy as np
    import pandas as pd
    from skgenome import GenomicArray as GA

    if isinstance(x, GA):
        return {"GA": type(x).__name__, "data": _canon(x.data),
                "meta": _canon({k: v for k, v in x.meta.items() if k not in ("chr_x", "chr_y")})}
    if isinstance(x, pd.DataFrame):
        return {"cols": [str(c) for c in x.columns], "dtypes": [str(t) for t in x.dtypes],
                "index": _canon(list(x.index)), "vals": [_canon(x[c].tolist()) for c in x.columns]}
    if isinstance(x, pd.Series):
        return {"series": str(x.dtype), "index": _canon(list(x.index)), "vals": _canon(x.tolist())}
    if isinstance(x, np.ndarray):
        return {"nd": str(x.dtype), "shape": list(x.shape), "vals": _canon(x.tolist())}
    if isinstance(x, dict):
        return {"dict": [[str(k), _canon(v)] for k, v in x.items()]}
    if isinstance(x, tuple) and hasattr(x, "_fields"):
        return {"nt": [_canon(v) for v in x]}
    if isinstance(x, tuple):
        return {"tuple": [_canon(v) for v in x]}
    if isinstance(x, list):
        return [_canon(v) for v in x]
    if isinstance(x, (bool, np.bool_)):
        return bool(x)
    if isinstance(x, (int, np.integer)):
        return int(x)
    if isinstance(x, (float, np.floating)):
        f = float(x)
        if f != f:
            return None
        return "%.12g" % f
    if x is None or isinstance(x, str):
        return x
    if callable(x):
        return "<callable %s>" % getattr(x, "__name__", type(x).__name__)
    return "<%s %s>" % (type(x).__name__, str(x)[:80])


def digest(x):
    return hashlib.sha1(json.dumps(_canon(x), sort_keys=True, separators=(",", ":")).encode()).hexdigest()[:16]


def snapshot(env):
    return {k: digest(v) for k, v in env.items()}


# ---------------------------------------------------------------------------------------------
# the op alphabet: name -> (base name, processes, small list arguments used as [role, name], callable(env, p))


def _ops():
    import pandas as pd
    from skgenome import tabio
    from cnvlib import (antitarget, bintest, call, export, fix, metrics, reports, segmentation, segmetrics, target)

    def seg_(method, **kw):
        return lambda e, p: segmentation.do_segmentation(e["cnr"], method, processes=p, **kw)

    def call_(method, fl=None, **kw):
        def f(e, p):
            kw2 = dict(kw)
            if fl:
                kw2["filters"] = e[fl]
            return call.do_call(e["sm"], method=method, thresholds=e["THR"], **kw2)
        return f

    def export_seg(e, p):
        d = tempfile.mkdtemp(dir="/var/tmp", prefix="c10seg")
        try:
            fn = os.path.join(d, "s.cns")
            tabio.write(e["cl"], fn)
            return export.export_seg([fn])
        finally:
            shutil.rmtree(d, ignore_errors=True)

    def center_copy(e, p):
        c = e["cnr"].copy()
        c.center_all(skip_low=True)
        return c

    def tf(ig):
        def f(e, p):
            return segmentation.transfer_fields(e["seg"].copy(), e["cnr"], ignore=e[ig])
        return f

    ops = {
        "target": ("target", 1, [], lambda e, p: target.do_target(e["bait"], do_short_names=True, do_split=True, avg_size=150)),
        "antitarget": ("antitarget", 1, [], lambda e, p: antitarget.do_antitarget(e["bait"], e["acc"], 5000, 500)),
        "fix": ("fix", 1, [], lambda e, p: fix.do_fix(e["tgt"], e["anti"], e["ref"])),
        "fix-plain": ("fix-plain", 1, [], lambda e, p: fix.do_fix(e["tgt"], e["anti"], e["ref"], do_gc=False, do_edge=False, do_rmask=False)),
        "segment-none": ("segment-none", 1, [], seg_("none")),
        "segment-haar": ("segment-haar", 1, [], seg_("haar")),
        "segment-haar-skip": ("segment-haar-skip", 1, [], seg_("haar", skip_low=True, min_weight=0.35)),
        "segment-hmm": ("segment-hmm", 1, [], seg_("hmm")),
        "segment-hmm-tumor": ("segment-hmm-tumor", 1, [], seg_("hmm-tumor")),
        "segment-hmm-germline": ("segment-hmm-germline", 1, [], seg_("hmm-germline")),
        "segmetrics": ("segmetrics", 1, [], lambda e, p: segmetrics.do_segmetrics(e["cnr"], e["seg"], e["LOC"], e["SPR"], e["IVL"])),
        "segmetrics-smooth": ("segmetrics-smooth", 1, [], lambda e, p: segmetrics.do_segmetrics(
            e["cnr"], e["seg"], e["LOC"], e["SPR"], e["IVL"], alpha=0.1, bootstraps=30, smoothed=True)),
        "call-none": ("call-none", 1, [], call_("none")),
        "call-threshold": ("call-threshold", 1, [], call_("threshold")),
        "call-clonal": ("call-clonal", 1, [], call_("clonal", purity=0.7, is_sample_female=True)),
        "call-ci-cn": ("call-ci-cn", 1, [["filters", "FL_ci_cn"]], call_("threshold", "FL_ci_cn")),
        "call-sem": ("call-sem", 1, [["filters", "FL_sem"]], call_("clonal", "FL_sem", purity=0.6)),
        "call-ampdel": ("call-ampdel", 1, [["filters", "FL_ampdel"]], call_("threshold", "FL_ampdel")),
        "call-cc": ("call-cc", 1, [["filters", "FL_cc"]], call_("threshold", "FL_cc")),
        "genemetrics": ("genemetrics", 1, [], lambda e, p: reports.do_genemetrics(e["cnr"], None, 0.2, 3, is_sample_female=True)),
        "genemetrics-seg": ("genemetrics-seg", 1, [], lambda e, p: reports.do_genemetrics(e["cnr"], e["seg"], 0.2, 3, is_sample_female=True)),
        "breaks": ("breaks", 1, [], lambda e, p: reports.do_breaks(e["cnr"], e["seg"], 1)),
        "bintest": ("bintest", 1, [], lambda e, p: bintest.do_bintest(e["cnr"], e["seg"], 0.05)),
        "metrics": ("metrics", 1, [], lambda e, p: metrics.do_metrics(e["cnr"], e["seg"])),
        "export-bed": ("export-bed", 1, [], lambda e, p: export.export_bed(e["cl"], 2, False, None, True, "L", "all")),
        "export-vcf": ("export-vcf", 1, [], lambda e, p: export.export_vcf(e["cl"], 2, False, None, True)),
        "export-seg": ("export-seg", 1, [], export_seg),
        "export-theta": ("export-theta", 1, [], lambda e, p: export.export_theta(e["seg"], e["cnr"])),
        "center_all-copy": ("center_all-copy", 1, [], center_copy),
        "merge": ("merge", 1, [], lambda e, p: e["cnr"].merge(combine=e["COMB"])),
        "flatten": ("flatten", 1, [], lambda e, p: e["regions"].flatten()),
        "subtract": ("subtract", 1, [], lambda e, p: e["cnr"].subtract(e["regions"])),
        "intersection": ("intersection", 1, [], lambda e, p: e["cnr"].intersection(e["regions"], mode="trim")),
        "subdivide": ("subdivide", 1, [], lambda e, p: e["bait"].subdivide(150, 50)),
        "resize": ("resize", 1, [], lambda e, p: e["cnr"].resize_ranges(50)),
        "by_arm": ("by_arm", 1, [], lambda e, p: [(k, a) for k, a in e["cnr"].by_arm()]),
        "by_gene": ("by_gene", 1, [], lambda e, p: [(k, a) for k, a in e["cnr"].by_gene()]),
        "by_gene-list": ("by_gene-list", 1, [["ignore", "IG_list"]], lambda e, p: [(k, a) for k, a in e["cnr"].by_gene(e["IG_list"])]),
        "by_gene-tuple": ("by_gene-tuple", 1, [["ignore", "IG_tuple"]], lambda e, p: [(k, a) for k, a in e["cnr"].by_gene(e["IG_tuple"])]),
        "squash_genes-list": ("squash_genes-list", 1, [["ignore", "IG_empty"]],
                              lambda e, p: e["cnr"].squash_genes(summary_func=pd.Series.median, ignore=e["IG_empty"])),
        "transfer_fields-list": ("transfer_fields-list", 1, [["ignore", "IG_list"]], tf("IG_list")),
        "gene_intervals-list": ("gene_intervals-list", 1, [["ignore", "IG_list"]],
                                lambda e, p: dict(reports.get_gene_intervals(e["cnr"], e["IG_list"]))),
    }
    for base in ("segment-none", "segment-haar", "segment-haar-skip"):
        for p in (2, 3, 16):
            ops["%s@p%d" % (base, p)] = (base, p, [], ops[base][3])
    # the HMM methods accept `processes` too (and run serially whatever it says)
    ops["segment-hmm-germline@p3"] = ("segment-hmm-germline", 3, [], ops["segment-hmm-germline"][3])
    return ops


_OPS = None


def ops():
    global _OPS
    if _OPS is None:
        _OPS = _ops()
    return _OPS


# static description of the alphabet (must not import cnvlib: used by gen_cases in the parent process)
BASE_OPS = ["target", "antitarget", "fix", "fix-plain", "segment-none", "segment-haar", "segment-haar-skip", "segment-hmm",
            "segment-hmm-tumor", "segment-hmm-germline", "segmetrics", "segmetrics-smooth", "call-none",
            "call-threshold", "call-clonal", "call-ci-cn", "call-sem", "call-ampdel", "call-cc", "genemetrics",
            "genemetrics-seg", "breaks", "bintest", "metrics", "export-bed", "export-vcf", "export-seg", "export-theta",
            "center_all-copy", "merge", "flatten", "subtract", "intersection", "subdivide", "resize", "by_arm",
            "by_gene", "by_gene-list", "by_gene-tuple", "squash_genes-list", "transfer_fields-list",
            "gene_intervals-list"]
PAR_OPS = ["%s@p%d" % (b, p) for b in ("segment-none", "segment-haar", "segment-haar-skip") for p in (2, 3, 16)] + [
    "segment-hmm-germline@p3"]
SMALL_USE = {"call-ci-cn": [["filters", "FL_ci_cn"]], "call-sem": [["filters", "FL_sem"]],
             "call-ampdel": [["filters", "FL_ampdel"]], "call-cc": [["filters", "FL_cc"]],
             "by_gene-list": [["ignore", "IG_list"]], "by_gene-tuple": [["ignore", "IG_tuple"]],
             "squash_genes-list": [["ignore", "IG_empty"]], "transfer_fields-list": [["ignore", "IG_list"]],
             "gene_intervals-list": [["ignore", "IG_list"]]}


def _seed_rngs(s):
    import numpy as np
    np.random.seed(s % (2 ** 32))
    _pyrandom.seed(s)


def _run_op(name, env, seed):
    base, p, _small, f = ops()[name]
    _seed_rngs(seed)
    try:
        return digest(f(env, p))
    except Exception as e:  # an op that fails must fail the same way on fresh copies
        return "ERR:%s:%s" % (type(e).__name__, str(e)[:60])


def reference_result(ds_seed, base):
    """the same call on fresh copies, 1 worker, a fixed other RNG state"""
    key = (ds_seed, base)
    if key not in _REF:
        _REF[key] = _run_op(base, fresh_env(ds_seed), 987654321)
    return _REF[key]
