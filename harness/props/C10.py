"""C10 -- results depend only on the arguments (not workers, RNG state, history); inputs untouched;
guarded writers never overwrite.

Four ops go to the Lean driver (Driver/Effects.lean):

* `history`   a sequence of <= 4 pipeline steps / array methods run by the REAL code on SHARED argument objects
              (BASE_OPS: the alphabet of the property's quantifier, every pair generated; EXT_OPS: further argument
              cells of the same steps, other public steps / array methods / helpers taking caller-owned arrays, lists
              or dicts, a chained pipeline; data sets in two representations, see `flavor`),
              every step with its own RNG re-seeding and worker count; for every step the harness records a digest of
              the result, a digest of the same call on fresh copies (1 worker, other RNG state), digests of every
              argument before and after, and the final value of the small list arguments (filter lists, ignore lists).
              The Lean model is the pure function (result = value on fresh copies, heap of list arguments threaded
              through the model of `do_call` / `by_gene` / ... as the code is), the Lean spec checker evaluates the
              property's clauses on the real observations.
* `ensure_path` 1..5 guarded writes (core.ensure_path + tabio.write) to one path in a scratch directory holding
              arbitrary earlier files; the final directory listing is compared with the file-system model.
* `rng_trace` the real np.random calls made by every function of the generated RNG table, recorded at run time,
              matched against the ast-extracted skeleton and checked for "re-seeds before the first draw".
* `gather`    the real parallel.pick_pool(n).map on tasks finishing in scrambled order vs the ordered-gather model.
"""
from __future__ import annotations

import copy
import hashlib
import json
import os
import random as _pyrandom
import shutil
import tempfile

from . import _c10ext
from . import _c10ext5

LEVEL = "proof"
RULE = ("histories on SHARED argument objects of seeded data sets (3-4 chromosomes, 80-250 bins; raw coverages sorted / "
        "unsorted / with a gc column / without rows / mostly without coverage, references with and without gc-rmask and "
        "with sub-clusters, baits, access, regions, haar segments, segmetrics / call tables (with and without baf, cn1, "
        "cn2), bins without depth / with the required columns only, SNV tables tumor-only and tumor-normal, lists of "
        "arrays, filter / ignore / threshold / statistic / column / coordinate lists and tuples, combiner and chromosome-"
        "size dicts, numpy vectors) in two REPRESENTATIONS: plain (0..n-1 index, canonical column order, chr names) and "
        "alternative (every table a filtered subset with index labels != positions, optional columns permuted, Ensembl "
        "names), male- / female-looking X, with / without chrY. quick = EVERY sequence of <= 2 steps over the 46-step "
        "base alphabet {target, antitarget, fix (+- corrections), segment none/haar/haar+skip/hmm/hmm-tumor/hmm-germline, "
        "segmetrics (ci/pi/sem, smoothed bootstrap, skip_low), call none/threshold/clonal x filter lists, genemetrics "
        "(genes, segments, called segments), breaks, bintest (+target_only), metrics, export "
        "bed/vcf/seg/theta, center_all and shuffle on a copy, merge, flatten, subtract, intersection, subdivide, resize, "
        "by_arm, by_gene (default / list / tuple ignore), squash_genes, transfer_fields, get_gene_intervals} alternating "
        "the two representations, + the worker-count variants (processes 2,3,16) with sampled partners, + ~185 "
        "extension steps, each alone on one representation, repeated on the other, and before / after a sampled partner: "
        "genemetrics with called / segmetrics segments x reference-X x sample-sex; do_call "
        "with variants (+- purity), on tables already carrying baf/cn, reference-X x sample-sex under purity, PAR "
        "genome, tuple filters, default thresholds; do_segmentation with variants (haar, none, hmm; also with 2 "
        "workers), outlier filter off / strict, explicit threshold, hmm x skip_low / min_weight / PAR, bins without "
        "depth; do_fix on unsorted / gc-column / no-antitarget / low-coverage samples, references without gc-rmask, "
        "do_cluster, single corrections, window fraction, PAR; segmetrics without stats / intervals only / smoothed+"
        "skip_low on baf tables; genemetrics with guessed sex / PAR / bare bins; bintest without segments / on "
        "overlapping ranges; metrics on lists / tuples / one-to-many (+skip_low); breaks; do_sex; exports bed "
        "(variant / ploidy), vcf with bins (CI fields), theta without normal / with segmetrics, theta SNPs, nexus "
        "basic / ogt, seg / gistic / jtv / cdt from file-name lists; do_reference (file-name lists in unsorted order, "
        "sexes given / inferred, gc column, no antitargets), do_reference_flat, import-theta; binwise positions, "
        "scatter / heatmap / diagram (arguments only); a chained fix -> segment -> segmetrics -> call -> genemetrics / "
        "bintest / export pipeline whose intermediate results are fingerprinted (1 and 3 workers); array methods "
        "center_all (estimators, by_chrom, PAR), sort, sort_columns, add, concat, copy, autosomes (+also), by_chromosome, "
        "by_arm (args), by_ranges, in_range(s), into_ranges, iter_ranges_of, coords, labels, add_columns, keep_columns, "
        "drop_extra_columns, filter, __getitem__, drop_low_coverage, squash_genes (default / antitarget / reference), "
        "shift_xx (reference-X x sex given / guessed, PAR), guess_xx, compare_sex_chromosomes, expect_flat_log2, "
        "residuals, smooth_log2, sex filters, total_range_size, resize (negative, chrom_sizes dict), merge (bp / fast "
        "path), flatten (combine / fast path), subtract, intersection (outer / inner), subdivide (min); VariantArray "
        "baf_by_ranges (tumor boost), het_frac_by_ranges, zygosity_from_freq, heterozygous, mirrored_baf, tumor_boost; "
        "segfilters, squash_by_groups(by_arm), absolute_* / log2_ratios / rescale_baf, transfer_fields / drop_outliers, "
        "fix helpers, tabio.write in 7 formats, descriptives / smoothing / bootstrap on caller-owned vectors. thorough = "
        "every pair over base + worker variants, every extension step x 15 partners both orders, + 3500 sampled sequences "
        "of 3-4 steps; numpy and python RNG re-seeded with a fresh value before every step, reference = same call on "
        "fresh copies, 1 worker, another RNG state. ensure_path: 1..5 guarded writes x directories holding the path, "
        "numbered backups with gaps, look-alike names, sub-directories x path absolute / relative to the working "
        "directory ('out.cnn', './out.cnn', '../d/out.cnn'). rng_trace: every runnable entry of the generated RNG table "
        "(fix, segmetrics, shuffle, reference incl. load_sample_block / combine_probes / bias_correct_logr, rna."
        "correct_cnr) x input shapes, plus functions the table must not list (segmentation incl. variants, call, "
        "genemetrics, bintest, metrics, breaks, export vcf, baf_by_ranges); generator state compared before / after so "
        "that draws bypassing np.random.* count. gather: 0..12 tasks finishing in scrambled order x workers {1,2,3,16,0}. "
        "also generated since their repair (findings AW, AX, AY): do_fix on an empty target table, autosomes(also=Series) "
        "with a PAR genome, export_nexus_ogt(min_weight>0). NOT generated: do_reference(do_cluster) as an op (finding AV, "
        "fixed: the k-means seeding is in the generated RNG table), object / categorical chromosome columns (by_arm "
        "recasts them, proposed_fixes/C10-by-arm-recasts-chromosome.md). round 4 (harness/props/_c10ext.py): rng_trace_lib = "
        "cluster.kmeans / pca_sk / reference.create_clusters on matrices from 3x40 to 41x1500 (scikit-learn's randomized SVD "
        "starts at > 500 bins and >= 4 samples) + five functions of the old table, traces incl. draws made inside libraries "
        "(generator state moved between two recorded calls), each run under two generator states; alias_probe = 29 real "
        "calls (13 pipeline steps incl. do_segmentation on a table without rows, 15 array methods, one helper that writes "
        "its argument by design) x data sets, the changed arguments against the summary of the generated alias table; "
        "ensure_path_dirs = 1..5 guarded writes x paths with 0..3 directory levels, relative / './' / absolute x trees "
        "where none / some / all of the levels exist x numbered backups present, final directories AND files against the "
        "hand-written model and against the program read from the source of ensure_path. non-trivial = a history with >= 2 steps or a step run in > 1 process, >= 2 writes or a write "
        "onto an existing file, a trace with >= 1 draw, a pool with > 1 worker; distinct by hash")
EXHAUSTIVE = {"quick": True, "thorough": True}  # all histories of length <= 2 over the base alphabet (+ worker variants in thorough)
ASSUMPTIONS = ["argument objects are those a Python caller would pass: CopyNumArray/GenomicArray tables, lists of "
               "strings, dicts; snapshots compare frames incl. index and dtypes, lists, dicts minus chr_x/chr_y meta",
               "results are compared through a canonical digest (floats at 12 significant digits, NaN = null)",
               "the file system is a finite map name -> content inside one scratch directory (no concurrent writers)"]
TRUSTED_EXTRA = ["purity of the CPython/pandas code is not a theorem: it is established by the differential histories",
                 "concurrent.futures.ProcessPoolExecutor.map ordering; os.rename / os.path.isfile semantics",
                 "numpy global RandomState (np.random.seed makes later draws a function of the seed)",
                 "pomegranate HMM fitting, haar numerics (black boxes; only repeatability is observed)",
                 "cbs / flasso segmentation need Rscript (absent in this sandbox): left out",
                 "reading rules of the round-4 extractors (stated at the top of harness/extractors/effects_alias.py, "
                 "effects_rng.py, effects_path.py): what is a new object / a view, which library routines may draw, the "
                 "statement subset of ensure_path; os.makedirs / os.path.isdir / normpath / abspath semantics"]

# ---------------------------------------------------------------------------------------------
# data sets (built in the worker from a seed; cached per process)

_DS = {}
_REF = {}
FILTER_LISTS = {"FL_ci_cn": ["ci", "cn"], "FL_sem": ["sem"], "FL_ampdel": ["ampdel"], "FL_cc": ["cn", "ci", "cn"]}


def flavor(seed):
    """representation bits of a data-set id: (male-looking X, alternative representation, chrY present)"""
    return bool(seed % 2), bool((seed // 2) % 2), (seed // 4) % 4 != 3


def _as_subset(arr, rng):
    """the same table as a SUBSET of a larger one (junk rows interleaved, then removed with a boolean mask): the
    pandas index labels differ from the row positions, as for any table obtained by filtering"""
    import numpy as np
    df = arr.data
    n = len(df)
    if not n:
        return arr
    reps = [rng.choice([1, 1, 2, 3]) for _ in range(n)]
    if max(reps) == 1:
        reps[0] = 2
    big = df.iloc[np.repeat(np.arange(n), reps)].reset_index(drop=True)
    keep = np.zeros(len(big), dtype=bool)
    keep[np.cumsum(reps) - 1] = True
    return arr.as_dataframe(big)[keep]


def _permute_extras(arr):
    """optional columns in another order than the writers / sort_columns leave them"""
    req = [c for c in arr._required_columns]
    extra = [c for c in arr.data.columns if c not in req]
    return arr.as_dataframe(arr.data[req + extra[::-1]])


def _mkds(seed):
    """argument objects of one data set; everything derives from `seed` (see `flavor`)"""
    import numpy as np
    from skgenome import GenomicArray as GA
    from cnvlib.cnary import CopyNumArray as CNA
    from cnvlib.vary import VariantArray as VA
    from cnvlib import segmentation, segmetrics, call

    rng = _pyrandom.Random(seed)
    male, alt, with_y = flavor(seed)
    pre = "" if alt else "chr"  # alternative representation: Ensembl-style names
    chroms = [pre + "1", pre + "2", pre + "X"] + ([pre + "Y"] if with_y else [])
    nb = rng.choice([30, 50, 70])
    rows, raw_t, raw_a, refrows, baits, access, snvs = [], [], [], [], [], [], []
    for c in chroms:
        sexc = c[len(pre):] in ("X", "Y")
        pos = rng.randint(0, 50000)
        n = nb if not sexc else max(20, nb // 2)
        if c == pre + "Y":
            n = 12
        step_at = rng.randint(n // 3, 2 * n // 3) if rng.random() < 0.7 else n + 1
        lvl2 = rng.choice([-0.8, 0.585, 1.0])
        loh_from = rng.randint(0, n) if rng.random() < 0.5 else n + 1
        a0 = pos
        for i in range(n):
            anti = (i % 5 == 4)
            sz = rng.randint(100, 400) if not anti else rng.randint(3000, 9000)
            pos += rng.randint(0, 300)
            if i == n // 2 and rng.random() < 0.5:
                pos += rng.randint(150000, 900000)  # centromere-sized gap: by_arm splits
            g = "Antitarget" if anti else rng.choice(["G%s_%d" % (c[len(pre):], i // 8)] * 8 + ["-", "CGH"])
            base = (lvl2 if i >= step_at else 0.0) + (-1.0 if sexc and male else 0.0)
            lg = round(base + rng.gauss(0, 0.12), 5)
            null = rng.random() < 0.03
            if null:
                lg = -20.0
            depth = 0.0 if null else round(40 * 2 ** lg, 4)
            w = round(rng.uniform(0.3, 1.0), 4)
            gc = round(min(0.8, max(0.2, rng.gauss(0.5, 0.1))), 4)
            rm = round(rng.random() * 0.6, 4)
            rows.append((c, pos, pos + sz, g, lg, depth, w))
            rlg = round(rng.gauss(0, 0.2), 5) + (-1.0 if c == pre + "Y" else 0.0)
            refrows.append((c, pos, pos + sz, g, rlg, round(40 * 2 ** rlg, 4), gc, rm, round(abs(rng.gauss(0.15, 0.08)), 5)))
            slg = round(lg + rlg + 5.0, 5)
            (raw_a if anti else raw_t).append((c, pos, pos + sz, g, slg, round(2 ** slg, 4)))
            if not anti:
                baits.append((c, pos, pos + sz, g if rng.random() < 0.8 else g + "|x,y"))
                # SNVs inside the bin: heterozygous (balanced, or allelic imbalance after `loh_from`), some homozygous
                for _k in range(rng.choice([0, 2, 3, 4])):
                    p = pos + rng.randint(0, sz - 1)
                    zyg = rng.choice([0.5] * 6 + [1.0, 0.0])
                    f = {0.5: (0.5 if i < loh_from else rng.choice([0.25, 0.75])), 1.0: 0.98, 0.0: 0.03}[zyg]
                    f = round(min(1.0, max(0.0, f + rng.gauss(0, 0.04))), 4)
                    dp = rng.randint(30, 90)
                    nf = round(min(0.97, max(0.03, {0.5: 0.5, 1.0: 0.97, 0.0: 0.03}[zyg] + rng.gauss(0, 0.03))), 4)
                    ndp = rng.randint(30, 90)
                    snvs.append((c, p, p + 1, rng.choice("ACGT"), rng.choice(["A", "C", "G", "T", "TA"]), rng.random() < 0.2,
                                 zyg, float(dp), float(round(f * dp)), f, zyg, float(ndp), float(round(nf * ndp)), nf))
            pos += sz
        access.append((c, max(0, a0 - 20000), pos + rng.randint(20000, 90000)))
    snvs = sorted(set(snvs), key=lambda r: (chroms.index(r[0]), r[1]))
    meta = {"sample_id": "S%d" % seed, "filename": "S%d.cnr" % seed}
    # chromosome / gene columns have the `str` dtype tabio.read gives them; by_arm re-casts an object / categorical
    # chromosome column of its array in place (proposed_fixes/C10-by-arm-recasts-chromosome.md): not generated
    cnr = CNA.from_rows(rows, columns=["chromosome", "start", "end", "gene", "log2", "depth", "weight"], meta_dict=dict(meta))
    cov = ["chromosome", "start", "end", "gene", "log2", "depth"]
    tgt = CNA.from_rows(raw_t, columns=cov, meta_dict=dict(meta))
    anti = CNA.from_rows(raw_a, columns=cov, meta_dict=dict(meta))
    ref = CNA.from_rows(refrows, columns=["chromosome", "start", "end", "gene", "log2", "depth", "gc", "rmask", "spread"],
                        meta_dict={"sample_id": "reference"})
    bait = GA.from_rows(baits, columns=["chromosome", "start", "end", "gene"])
    acc = GA.from_rows(access, columns=["chromosome", "start", "end"])
    vcols = ["chromosome", "start", "end", "ref", "alt", "somatic", "zygosity", "depth", "alt_count", "alt_freq",
             "n_zygosity", "n_depth", "n_alt_count", "n_alt_freq"]
    vcf_tn = VA.from_rows(snvs, columns=vcols, meta_dict={"sample_id": "S%d" % seed})
    vcf = VA(vcf_tn.data[vcols[:10]].copy(), {"sample_id": "S%d" % seed})
    vcf_nz = VA(vcf_tn.data[vcols[:5] + vcols[7:10]].copy(), {"sample_id": "S%d" % seed})  # no genotypes: heterozygous() is the table itself
    # a second, coarser set of regions (other breakpoints) used as the "other" table of the interval methods
    regions = GA.from_rows([(c, s + 37, e + 1200, "r%d" % k) for k, (c, s, e, *_r) in enumerate(rows) if k % 7 in (0, 1, 3)],
                           columns=["chromosome", "start", "end", "gene"])
    if alt:  # every table a filtered subset (index labels != positions), optional columns in another order
        srng = _pyrandom.Random(seed + 1)
        cnr, tgt, anti, ref = (_permute_extras(_as_subset(x, srng)) for x in (cnr, tgt, anti, ref))
        bait, acc, regions, vcf, vcf_tn, vcf_nz = (_as_subset(x, srng) for x in (bait, acc, regions, vcf, vcf_tn, vcf_nz))
    np.random.seed(seed)
    seg = segmentation.do_segmentation(cnr.copy(), "haar")
    sm = segmetrics.do_segmetrics(cnr.copy(), seg.copy(), ("mean",), ("sem",), ("ci", "pi"))
    cl = call.do_call(sm.copy(), method="threshold")
    clb = call.do_call(sm.copy(), vcf.copy(), method="clonal", purity=0.8, is_sample_female=not male)  # with baf, cn1, cn2
    if alt:
        seg, sm, cl, clb = (_permute_extras(_as_subset(x, srng)) for x in (seg, sm, cl, clb))
    # raw coverages as other callers have them: rows out of genomic order / Picard-derived with a gc column / no
    # off-target bins at all (amplicon, WGS); references without gc / rmask, with sub-clusters
    sh = _pyrandom.Random(seed + 2)
    order_t, order_a = list(range(len(tgt))), list(range(len(anti)))
    sh.shuffle(order_t)
    sh.shuffle(order_a)
    tgt_u = tgt.as_dataframe(tgt.data.iloc[order_t])
    anti_u = anti.as_dataframe(anti.data.iloc[order_a])
    gcmap = {(r[0], r[1]): r[6] for r in refrows}
    tgt_gc = tgt.add_columns(gc=[gcmap[(c, s)] for c, s in zip(tgt.chromosome, tgt.start)])
    anti_0 = anti.as_dataframe(anti.data.iloc[:0])
    ref_plain = ref.as_dataframe(ref.data.drop(columns=["gc", "rmask"]))
    crng = np.random.RandomState(seed % (2 ** 32))
    ref_cl = ref.add_columns(log2_1=ref["log2"].values + crng.normal(0, 0.05, len(ref)), spread_1=ref["spread"].values * 0.8,
                             log2_2=ref["log2"].values + crng.normal(0, 0.3, len(ref)), spread_2=ref["spread"].values * 1.3)
    low = tgt.copy()
    low["log2"] = np.where(np.arange(len(low)) % 4 == 0, low["log2"].values, -25.0)  # most bins without coverage
    cnr_bare = cnr.as_dataframe(cnr.data[["chromosome", "start", "end", "gene", "log2"]].copy())
    cnr_nodepth = cnr.as_dataframe(cnr.data.drop(columns=["depth"]))
    cnr2 = cnr.copy()
    cnr2["log2"] = cnr2["log2"].values[::-1].copy()
    cnr2.meta["sample_id"] = "T%d" % seed
    cnr2.meta["filename"] = "T%d.cnr" % seed
    ends = {c: int(cnr.data.loc[cnr.chromosome == c, "end"].max()) for c in chroms}
    c1 = chroms[0]
    s1 = sorted(int(x) for x in cnr.data.loc[cnr.chromosome == c1, "start"])
    ds = {"cnr": cnr, "tgt": tgt, "anti": anti, "ref": ref, "bait": bait, "acc": acc, "seg": seg, "sm": sm, "cl": cl,
          "clb": clb, "regions": regions, "vcf": vcf, "vcf_tn": vcf_tn, "vcf_nz": vcf_nz, "tgt_u": tgt_u, "anti_u": anti_u, "tgt_gc": tgt_gc,
          "ALSO_SER": (cnr.chromosome == (pre + "X")),
          "anti_0": anti_0, "ref_plain": ref_plain, "ref_cl": ref_cl, "tgt_low": low, "cnr_bare": cnr_bare,
          "cnr_nodepth": cnr_nodepth, "cnr2": cnr2, "CNRS": [cnr, cnr2], "SEGS": [seg, seg],
          "LOGV": cnr["log2"].values[:40].astype(float).copy(), "WTS": cnr["weight"].values[:40].astype(float).copy(),
          "CHROMSIZES": {c: ends[c] + 500 for c in chroms}, "CHR1": c1, "CHRX": pre + "X",
          "IG_list": ["-", "CGH"], "IG_empty": [], "IG_tuple": ("-", ".", "CGH"),
          "THR": [-1.1, -0.25, 0.2, 0.7], "LOC": ["mean", "median"], "SPR": ["stdev", "sem"], "IVL": ["ci", "pi"],
          "FL_tuple": ("ci", "cn"), "COLS": ["chromosome", "start", "end", "gene", "log2", "weight", "nosuchcolumn"], "ALSO": [pre + "X"],
          "ALSOCOLS": ["gene", "weight"], "STARTS": [s1[2], s1[len(s1) // 2]], "ENDS": [s1[4] + 50, s1[-2] + 10],
          "COMB": {"gene": "-".join, "log2": max, "depth": max, "weight": max}}
    for k, v in FILTER_LISTS.items():
        ds[k] = list(v)
    return ds


def dataset(seed):
    if seed not in _DS:
        if len(_DS) > 12:
            _DS.clear()
            _REF.clear()
        _DS[seed] = _mkds(seed)
    return _DS[seed]


def _copy_arg(k, v):
    if hasattr(v, "data") and hasattr(v, "meta"):
        return v.copy()
    if k == "COMB":
        return dict(v)
    return copy.deepcopy(v)


_PRISTINE = {}


class Env(dict):
    """fresh deep copies of the argument objects of one data set, made when an op first asks for them; an object no
    op has asked for is still the pristine one, and its fingerprint is the cached fingerprint of the pristine object"""

    def __init__(self, seed):
        super().__init__()
        self.ds = dataset(seed)
        if seed not in _PRISTINE:
            if len(_PRISTINE) > 12:
                _PRISTINE.clear()
            _PRISTINE[seed] = {k: arg_digest(v) for k, v in self.ds.items() if not isinstance(v, str)}
        self.pristine = _PRISTINE[seed]

    def __missing__(self, k):
        v = _copy_arg(k, self.ds[k])
        self[k] = v
        return v

    def fingerprints(self, keys=None):
        return {k: (arg_digest(dict.__getitem__(self, k)) if k in self else self.pristine[k])
                for k in (keys if keys is not None else self.pristine)}


def fresh_env(seed):
    """deep copies of every argument object (what `the same call on fresh copies` uses), made on first use"""
    return Env(seed)


# ---------------------------------------------------------------------------------------------
# canonical digests / snapshots


def _canon(x):
    import numpy as np
    import pandas as pd
    from skgenome import GenomicArray as GA

    if isinstance(x, GA):
        return {"GA": type(x).__name__, "data": _canon(x.data),
                "meta": _canon({k: v for k, v in x.meta.items() if k not in ("chr_x", "chr_y")})}
    if isinstance(x, pd.DataFrame):
        return {"cols": [str(c) for c in x.columns], "dtypes": [str(t) for t in x.dtypes],
                "index": _canon(list(x.index)), "vals": [_canon(x.iloc[:, j].tolist()) for j in range(x.shape[1])]}
    if isinstance(x, pd.Series):
        return {"series": str(x.dtype), "index": _canon(list(x.index)), "vals": _canon(x.tolist())}
    if isinstance(x, np.ndarray):
        return {"nd": str(x.dtype), "shape": list(x.shape), "vals": _canon(x.tolist())}
    if isinstance(x, dict):
        return {"dict": [[str(k), _canon(v)] for k, v in x.items()]}
    if isinstance(x, tuple) and hasattr(x, "_fields"):
        return {"nt": [_canon(v) for v in x]}
    if isinstance(x, tuple):
        return {"tuple": [_canon(v) for v in x]}
    if isinstance(x, list):
        return [_canon(v) for v in x]
    if isinstance(x, (bool, np.bool_)):
        return bool(x)
    if isinstance(x, (int, np.integer)):
        return int(x)
    if isinstance(x, (float, np.floating)):
        f = float(x)
        if f != f:
            return None
        return "%.12g" % f
    if x is None or isinstance(x, str):
        return x
    if callable(x):
        return "<callable %s>" % getattr(x, "__name__", type(x).__name__)
    return "<%s %s>" % (type(x).__name__, str(x)[:80])


def digest(x):
    return hashlib.sha1(json.dumps(_canon(x), sort_keys=True, separators=(",", ":")).encode()).hexdigest()[:16]


def _frame_bytes(h, df):
    import numpy as np
    h.update(("|".join(map(str, df.columns)) + "#" + "|".join(str(t) for t in df.dtypes)).encode())
    idx = df.index
    h.update(np.asarray(idx).tobytes() if idx.dtype != object else "\x00".join(map(str, idx)).encode())
    for c in df.columns:
        v = df[c].to_numpy()
        if v.dtype == object or v.dtype.kind in "OUS":
            h.update("\x00".join(map(str, v)).encode())
        else:
            h.update(np.ascontiguousarray(v).tobytes())
        h.update(b"\x01")


def arg_digest(x):
    """exact (bit-level) fingerprint of an argument object: frames incl. index and dtypes, lists, dicts minus
    chr_x / chr_y meta.  Only ever compared with the fingerprint of the same object before the call."""
    if hasattr(x, "data") and hasattr(x, "meta"):
        h = hashlib.sha1(type(x).__name__.encode())
        _frame_bytes(h, x.data)
        h.update(repr(sorted((str(k), repr(v)) for k, v in x.meta.items() if k not in ("chr_x", "chr_y"))).encode())
        return h.hexdigest()[:16]
    if isinstance(x, (list, tuple)) and any(hasattr(v, "data") and hasattr(v, "meta") for v in x):
        return hashlib.sha1((type(x).__name__ + ":" + ",".join(arg_digest(v) for v in x)).encode()).hexdigest()[:16]
    if type(x).__name__ == "Series" and hasattr(x, "to_numpy"):
        v = x.to_numpy()
        return hashlib.sha1((str(x.dtype) + repr(list(x.index[:50])) + str(len(x))).encode() + v.tobytes()).hexdigest()[:16]
    if type(x).__module__ == "numpy" and hasattr(x, "tobytes"):
        return hashlib.sha1((str(x.dtype) + str(x.shape)).encode() + x.tobytes()).hexdigest()[:16]
    return digest(x)


def snapshot(env):
    return env.fingerprints()


# ---------------------------------------------------------------------------------------------
# the op alphabet: name -> (base name, processes, small list arguments used as [role, name], callable(env, p))


def _ops():
    import pandas as pd
    from skgenome import tabio
    from cnvlib import (antitarget, bintest, call, export, fix, metrics, reports, segmentation, segmetrics, target)

    def seg_(method, **kw):
        return lambda e, p: segmentation.do_segmentation(e["cnr"], method, processes=p, **kw)

    def call_(method, fl=None, **kw):
        def f(e, p):
            kw2 = dict(kw)
            if fl:
                kw2["filters"] = e[fl]
            return call.do_call(e["sm"], method=method, thresholds=e["THR"], **kw2)
        return f

    def export_seg(e, p):
        d = tempfile.mkdtemp(dir="/var/tmp", prefix="c10seg")
        try:
            fn = os.path.join(d, "s.cns")
            tabio.write(e["cl"], fn)
            return export.export_seg([fn])
        finally:
            shutil.rmtree(d, ignore_errors=True)

    def center_copy(e, p):
        c = e["cnr"].copy()
        c.center_all(skip_low=True)
        return c

    def shuffle_copy(e, p):
        c = e["cnr"].copy()
        order = c.shuffle()
        return order, c

    def tf(ig):
        def f(e, p):
            return segmentation.transfer_fields(e["seg"].copy(), e["cnr"], ignore=e[ig])
        return f

    ops = {
        "target": ("target", 1, [], lambda e, p: target.do_target(e["bait"], do_short_names=True, do_split=True, avg_size=150)),
        "antitarget": ("antitarget", 1, [], lambda e, p: antitarget.do_antitarget(e["bait"], e["acc"], 5000, 500)),
        "fix": ("fix", 1, [], lambda e, p: fix.do_fix(e["tgt"], e["anti"], e["ref"])),
        "fix-plain": ("fix-plain", 1, [], lambda e, p: fix.do_fix(e["tgt"], e["anti"], e["ref"], do_gc=False, do_edge=False, do_rmask=False)),
        "segment-none": ("segment-none", 1, [], seg_("none")),
        "segment-haar": ("segment-haar", 1, [], seg_("haar")),
        "segment-haar-skip": ("segment-haar-skip", 1, [], seg_("haar", skip_low=True, min_weight=0.35)),
        "segment-hmm": ("segment-hmm", 1, [], seg_("hmm")),
        "segment-hmm-tumor": ("segment-hmm-tumor", 1, [], seg_("hmm-tumor")),
        "segment-hmm-germline": ("segment-hmm-germline", 1, [], seg_("hmm-germline")),
        "segmetrics": ("segmetrics", 1, [], lambda e, p: segmetrics.do_segmetrics(e["cnr"], e["seg"], e["LOC"], e["SPR"], e["IVL"])),
        "segmetrics-smooth": ("segmetrics-smooth", 1, [], lambda e, p: segmetrics.do_segmetrics(
            e["cnr"], e["seg"], e["LOC"], e["SPR"], e["IVL"], alpha=0.1, bootstraps=30, smoothed=True)),
        "call-none": ("call-none", 1, [], call_("none")),
        "call-threshold": ("call-threshold", 1, [], call_("threshold")),
        "call-clonal": ("call-clonal", 1, [], call_("clonal", purity=0.7, is_sample_female=True)),
        "call-ci-cn": ("call-ci-cn", 1, [["filters", "FL_ci_cn"]], call_("threshold", "FL_ci_cn")),
        "call-sem": ("call-sem", 1, [["filters", "FL_sem"]], call_("clonal", "FL_sem", purity=0.6)),
        "call-ampdel": ("call-ampdel", 1, [["filters", "FL_ampdel"]], call_("threshold", "FL_ampdel")),
        "call-cc": ("call-cc", 1, [["filters", "FL_cc"]], call_("threshold", "FL_cc")),
        "genemetrics": ("genemetrics", 1, [], lambda e, p: reports.do_genemetrics(e["cnr"], None, 0.2, 3, is_sample_female=True)),
        "genemetrics-seg": ("genemetrics-seg", 1, [], lambda e, p: reports.do_genemetrics(e["cnr"], e["seg"], 0.2, 3, is_sample_female=True)),
        "genemetrics-cl": ("genemetrics-cl", 1, [], lambda e, p: reports.do_genemetrics(e["cnr"], e["cl"], 0.1, 1, skip_low=True)),
        # called / annotated segments (extra columns) without skip_low, in the four (reference X, sample sex) cells:
        # when the two agree shift_xx has nothing to shift, when they differ it shifts chrX
        "genemetrics-cl-Xf": ("genemetrics-cl-Xf", 1, [], lambda e, p: reports.do_genemetrics(
            e["cnr"], e["cl"], 0.1, 1, is_haploid_x_reference=False, is_sample_female=True)),
        "genemetrics-cl-Xm": ("genemetrics-cl-Xm", 1, [], lambda e, p: reports.do_genemetrics(
            e["cnr"], e["cl"], 0.1, 1, is_haploid_x_reference=False, is_sample_female=False)),
        "genemetrics-sm-Yf": ("genemetrics-sm-Yf", 1, [], lambda e, p: reports.do_genemetrics(
            e["cnr"], e["sm"], 0.2, 2, is_haploid_x_reference=True, is_sample_female=True)),
        "genemetrics-sm-Ym": ("genemetrics-sm-Ym", 1, [], lambda e, p: reports.do_genemetrics(
            e["cnr"], e["sm"], 0.2, 2, is_haploid_x_reference=True, is_sample_female=False)),
        "bintest-target": ("bintest-target", 1, [], lambda e, p: bintest.do_bintest(e["cnr"], e["sm"], 0.2, target_only=True)),
        "segmetrics-skip": ("segmetrics-skip", 1, [], lambda e, p: segmetrics.do_segmetrics(
            e["cnr"], e["cl"], ("mode", "p_ttest"), ("mad", "iqr", "bivar", "mse"), ("pi",), alpha=0.2, skip_low=True)),
        "breaks": ("breaks", 1, [], lambda e, p: reports.do_breaks(e["cnr"], e["seg"], 1)),
        "bintest": ("bintest", 1, [], lambda e, p: bintest.do_bintest(e["cnr"], e["seg"], 0.05)),
        "metrics": ("metrics", 1, [], lambda e, p: metrics.do_metrics(e["cnr"], e["seg"])),
        "export-bed": ("export-bed", 1, [], lambda e, p: export.export_bed(e["cl"], 2, False, None, True, "L", "all")),
        "export-vcf": ("export-vcf", 1, [], lambda e, p: export.export_vcf(e["cl"], 2, False, None, True)),
        "export-seg": ("export-seg", 1, [], export_seg),
        "export-theta": ("export-theta", 1, [], lambda e, p: export.export_theta(e["seg"], e["cnr"])),
        "center_all-copy": ("center_all-copy", 1, [], center_copy),
        "shuffle-copy": ("shuffle-copy", 1, [], shuffle_copy),
        "merge": ("merge", 1, [], lambda e, p: e["cnr"].merge(combine=e["COMB"])),
        "flatten": ("flatten", 1, [], lambda e, p: e["regions"].flatten()),
        "subtract": ("subtract", 1, [], lambda e, p: e["cnr"].subtract(e["regions"])),
        "intersection": ("intersection", 1, [], lambda e, p: e["cnr"].intersection(e["regions"], mode="trim")),
        "subdivide": ("subdivide", 1, [], lambda e, p: e["bait"].subdivide(150, 50)),
        "resize": ("resize", 1, [], lambda e, p: e["cnr"].resize_ranges(50)),
        "by_arm": ("by_arm", 1, [], lambda e, p: [(k, a) for k, a in e["cnr"].by_arm()]),
        "by_gene": ("by_gene", 1, [], lambda e, p: [(k, a) for k, a in e["cnr"].by_gene()]),
        "by_gene-list": ("by_gene-list", 1, [["ignore", "IG_list"]], lambda e, p: [(k, a) for k, a in e["cnr"].by_gene(e["IG_list"])]),
        "by_gene-tuple": ("by_gene-tuple", 1, [["ignore", "IG_tuple"]], lambda e, p: [(k, a) for k, a in e["cnr"].by_gene(e["IG_tuple"])]),
        "squash_genes-list": ("squash_genes-list", 1, [["ignore", "IG_empty"]],
                              lambda e, p: e["cnr"].squash_genes(summary_func=pd.Series.median, ignore=e["IG_empty"])),
        "transfer_fields-list": ("transfer_fields-list", 1, [["ignore", "IG_list"]], tf("IG_list")),
        "gene_intervals-list": ("gene_intervals-list", 1, [["ignore", "IG_list"]],
                                lambda e, p: dict(reports.get_gene_intervals(e["cnr"], e["IG_list"]))),
    }
    for base in ("segment-none", "segment-haar", "segment-haar-skip"):
        for p in (2, 3, 16):
            ops["%s@p%d" % (base, p)] = (base, p, [], ops[base][3])
    # the HMM methods accept `processes` too (and run serially whatever it says)
    ops["segment-hmm-germline@p3"] = ("segment-hmm-germline", 3, [], ops["segment-hmm-germline"][3])
    for name, f in _ext_ops().items():
        assert name not in ops, name
        ops[name] = (name, 1, SMALL_USE.get(name, []), f)
    for name in EXT_PAR:
        b, p = name.split("@p")
        ops[name] = (b, int(p), SMALL_USE.get(b, []), ops[b][3])
    missing = set(BASE_OPS + PAR_OPS + EXT_OPS + EXT_PAR) ^ set(ops)
    assert not missing, "static alphabet and op table differ: %s" % sorted(missing)
    return ops


def _cohort_files(e, d, k=3, tkey="tgt", akey="anti"):
    """k normal samples written to `d`; the lists come back in an order that is NOT the sorted one"""
    import numpy as np
    from skgenome import tabio
    tf, af = [], []
    for s in range(k):
        t, a = e[tkey].copy(), e[akey].copy()
        t["log2"] = t["log2"] + 0.05 * s * np.cos(np.arange(len(t)))
        a["log2"] = a["log2"] - 0.03 * s
        tp, ap = os.path.join(d, "n%d.targetcoverage.cnn" % s), os.path.join(d, "n%d.antitargetcoverage.cnn" % s)
        tabio.write(t, tp)
        tabio.write(a, ap)
        tf.append(tp)
        af.append(ap)
    return tf[1:] + tf[:1], af[1:] + af[:1]


class ArgumentChanged(AssertionError):
    """an argument object that only lives inside one op (a file-name list, an intermediate result) was changed"""


def _unchanged(what, obj, before):
    if arg_digest(obj) != before:
        raise ArgumentChanged(what)


def _ext_ops():
    """argument cells, representations and public functions / methods beyond the base alphabet (audit extension)"""
    import io
    import contextlib
    import numpy as np
    import pandas as pd
    from skgenome import tabio
    from cnvlib import (bintest, call, commands, descriptives, export, fix, importers, metrics, plots, reference, reports,
                        segfilters, segmentation, segmetrics, smoothing)
    from cnvlib import cnary  # noqa: F401

    X = {}

    def seg_(arr, method, vcf=None, **kw):
        return lambda e, p: segmentation.do_segmentation(e[arr], method, variants=(e[vcf] if vcf else None), processes=p, **kw)

    def call_(arr, method, vcf=None, fl=None, thr=True, **kw):
        def f(e, p):
            kw2 = dict(kw)
            if fl:
                kw2["filters"] = e[fl]
            if thr:
                kw2["thresholds"] = e["THR"]
            return call.do_call(e[arr], e[vcf] if vcf else None, method=method, **kw2)
        return f

    def fix_(t="tgt", a="anti", r="ref", **kw):
        return lambda e, p: fix.do_fix(e[t], e[a], e[r], **kw)

    def in_tmp(f):
        def g(e, p):
            d = tempfile.mkdtemp(dir="/var/tmp", prefix="c10x")
            try:
                return f(e, d)
            finally:
                shutil.rmtree(d, ignore_errors=True)
        return g

    def files_op(maker, fun):
        """`fun(list of file names)`: the list is the caller's"""
        def f(e, d):
            names = maker(e, d)
            before = [list(x) if isinstance(x, list) else x for x in names]
            out = fun(*names)
            if [list(x) if isinstance(x, list) else x for x in names] != before:
                raise ArgumentChanged("file-name list")
            return out
        return in_tmp(f)

    cohort = _cohort_files

    def beds(e, d):
        from cnvlib import antitarget, target
        tp, ap = os.path.join(d, "t.target.bed"), os.path.join(d, "t.antitarget.bed")
        tabio.write(target.do_target(e["bait"].copy()), tp, "bed4")
        tabio.write(antitarget.do_antitarget(e["bait"].copy(), e["acc"].copy(), 5000, 500), ap, "bed4")
        return tp, ap

    def cnfiles(keys, ext):
        def mk(e, d):
            fns = []
            for j, k in enumerate(keys):
                fn = os.path.join(d, "x%d.%s" % (j, ext))
                tabio.write(e[k], fn)
                fns.append(fn)
            return (fns,)
        return mk

    def quiet(f):
        def g(*a, **k):
            with contextlib.redirect_stdout(io.StringIO()):
                return f(*a, **k)
        return g

    # ---- do_call: variants, table already carrying baf / cn, reference-X x sample-sex cells under purity, PAR, tuple
    X["call-vcf"] = call_("sm", "threshold", "vcf")
    X["call-vcf-purity"] = call_("sm", "clonal", "vcf_tn", purity=0.6, is_sample_female=True)
    X["call-vcf-thr-purity"] = call_("sm", "threshold", "vcf", fl="FL_cc", purity=0.45, ploidy=3)
    X["call-vcf-nogenotypes"] = call_("sm", "clonal", "vcf_nz", purity=0.7)
    X["call-clb"] = call_("clb", "threshold", fl="FL_ampdel")  # table that already has cn / cn1 / cn2 / baf
    X["call-clb-purity"] = call_("clb", "clonal", purity=0.5, is_haploid_x_reference=True, is_sample_female=False)
    X["call-clonal-Yf"] = call_("sm", "clonal", purity=0.7, is_haploid_x_reference=True, is_sample_female=True)
    X["call-clonal-Xm"] = call_("sm", "clonal", purity=0.7, is_haploid_x_reference=False, is_sample_female=False)
    X["call-clonal-pure-Y"] = call_("sm", "clonal", is_haploid_x_reference=True)
    X["call-parx"] = call_("sm", "threshold", purity=0.8, diploid_parx_genome="grch38", is_sample_female=False)
    X["call-tuple"] = call_("sm", "threshold", fl="FL_tuple")
    X["call-default-thr"] = call_("sm", "threshold", thr=False)
    X["call-none-cl"] = call_("cl", "none", fl="FL_sem")
    X["call-none-purity"] = call_("sm", "none", purity=0.5, is_sample_female=True)
    X["call-seg"] = call_("seg", "threshold")  # plain segments: no segmetrics columns
    # ---- do_segmentation: variants, outlier filter off, explicit threshold, R-dataframe flag, HMM x filters / PAR, tables
    X["segment-haar-vcf"] = seg_("cnr", "haar", "vcf")
    X["segment-none-vcf"] = seg_("cnr", "none", "vcf_tn")
    X["segment-hmm-vcf"] = seg_("cnr", "hmm", "vcf")
    X["segment-haar-noout"] = seg_("cnr", "haar", skip_outliers=0, threshold=0.01)
    X["segment-haar-outliers"] = seg_("cnr", "haar", skip_outliers=1)
    X["segment-none-skip"] = seg_("cnr", "none", skip_low=True)
    X["segment-hmm-skip"] = seg_("cnr", "hmm", skip_low=True, min_weight=0.35)
    X["segment-hmm-noout"] = seg_("cnr", "hmm-germline", skip_outliers=0, threshold=5)
    X["segment-hmm-parx"] = seg_("cnr", "hmm-tumor", diploid_parx_genome="grch38")
    X["segment-haar-parx"] = seg_("cnr", "haar", diploid_parx_genome="grch37")
    X["segment-haar-nodepth"] = seg_("cnr_nodepth", "haar")
    X["segment-hmm-nodepth"] = seg_("cnr_nodepth", "hmm")
    X["segment-none-nodepth"] = seg_("cnr_nodepth", "none", skip_outliers=0)
    # ---- do_fix: unsorted raw coverages, Picard gc column, no off-target bins, reference without gc / rmask or with
    #      sub-clusters, single corrections, window fraction, PAR, a sample that mostly has no coverage
    X["fix-unsorted"] = fix_("tgt_u", "anti_u")
    X["fix-unsorted-plain"] = fix_("tgt_u", "anti_u", do_gc=False, do_edge=False, do_rmask=False)
    X["fix-gccol"] = fix_("tgt_gc")
    # an empty TARGET table (finding AW, fixed 5d92e10: it was handed back as it is and then added to in place)
    X["fix-notarget"] = fix_(t="anti_0")
    X["fix-noanti"] = fix_(a="anti_0")
    X["fix-noanti-plain"] = fix_(a="anti_0", do_gc=False, do_edge=False, do_rmask=False)
    X["fix-refplain"] = fix_(r="ref_plain")
    X["fix-cluster"] = fix_(r="ref_cl", do_cluster=True)
    X["fix-cluster-none"] = fix_(do_cluster=True)
    X["fix-gc-only"] = fix_(do_edge=False, do_rmask=False)
    X["fix-edge-only"] = fix_(do_gc=False, do_rmask=False)
    X["fix-rmask-only"] = fix_(do_gc=False, do_edge=False)
    X["fix-frac"] = fix_(smoothing_window_fraction=0.25)
    X["fix-parx"] = fix_(diploid_parx_genome="grch38")
    X["fix-lowcov"] = fix_("tgt_low")
    X["load_adjust-anti"] = lambda e, p: fix.load_adjust_coverages(e["anti"], e["ref"], False, True, False, True, None)
    X["load_adjust-empty"] = lambda e, p: fix.load_adjust_coverages(e["anti_0"], e["ref"], False, True, False, True, None)
    X["center_by_window"] = lambda e, p: fix.center_by_window(e["ref"], 0.2, e["ref"]["gc"])
    X["apply_weights"] = lambda e, p: fix.apply_weights(e["cnr"], e["ref"], "log2", "spread")
    X["match_ref"] = lambda e, p: fix.match_ref_to_sample(e["ref"], e["tgt_u"])
    X["edge_bias"] = lambda e, p: fix.get_edge_bias(e["tgt"], 250)
    # ---- do_segmetrics / do_genemetrics / do_bintest / do_metrics / do_breaks / do_sex
    X["segmetrics-none"] = lambda e, p: segmetrics.do_segmetrics(e["cnr"], e["seg"])
    X["segmetrics-ci-only"] = lambda e, p: segmetrics.do_segmetrics(e["cnr"], e["sm"], interval_stats=e["IVL"][:1], bootstraps=5)
    X["segmetrics-clb-smooth-skip"] = lambda e, p: segmetrics.do_segmetrics(
        e["cnr"], e["clb"], ("median",), ("mad",), ("ci",), alpha=0.3, bootstraps=12, smoothed=True, skip_low=True)
    X["genemetrics-parx"] = lambda e, p: reports.do_genemetrics(e["cnr"], e["cl"], 0.1, 1, diploid_parx_genome="grch38")
    X["genemetrics-guess"] = lambda e, p: reports.do_genemetrics(e["cnr"], e["clb"], 0.1, 1)
    X["genemetrics-guess-Y"] = lambda e, p: reports.do_genemetrics(e["cnr"], None, 0.1, 1, is_haploid_x_reference=True)
    X["genemetrics-bare"] = lambda e, p: reports.do_genemetrics(e["cnr_bare"], None, 0.1, 1, is_sample_female=False)
    X["genemetrics-bare-seg"] = lambda e, p: reports.do_genemetrics(e["cnr_bare"], e["clb"], 0.0, 0, is_sample_female=True)
    X["genemetrics-nodepth-skip"] = lambda e, p: reports.do_genemetrics(e["cnr_nodepth"], e["seg"], 0.1, 2, skip_low=True)
    X["bintest-noseg"] = lambda e, p: bintest.do_bintest(e["cnr"], None, 0.3)
    X["bintest-clb"] = lambda e, p: bintest.do_bintest(e["cnr"], e["clb"], 0.5, target_only=True)
    X["bintest-regions"] = lambda e, p: bintest.do_bintest(e["cnr"], e["regions"], 0.5)  # overlapping, gene-less ranges
    X["metrics-lists"] = lambda e, p: metrics.do_metrics(e["CNRS"], e["SEGS"])
    X["metrics-many-one"] = lambda e, p: metrics.do_metrics(e["CNRS"], e["seg"], skip_low=True)
    X["metrics-noseg"] = lambda e, p: metrics.do_metrics(e["cnr"])
    X["metrics-tuple"] = lambda e, p: metrics.do_metrics(tuple(e["CNRS"]), tuple(e["SEGS"]), skip_low=True)
    X["breaks-cl"] = lambda e, p: reports.do_breaks(e["cnr"], e["cl"], 0)
    X["breaks-bare"] = lambda e, p: reports.do_breaks(e["cnr_bare"], e["seg"])
    X["sex"] = lambda e, p: commands.do_sex(e["CNRS"], False, None)
    X["sex-Y-parx"] = lambda e, p: commands.do_sex(e["CNRS"], True, "grch38")
    # ---- exports
    X["export-bed-variant"] = lambda e, p: export.export_bed(e["cl"], 2, True, None, False, None, "variant")
    X["export-bed-ploidy-seg"] = lambda e, p: export.export_bed(e["seg"], 2, False, "grch38", False, "S", "ploidy")
    X["export-vcf-cnarr"] = lambda e, p: export.export_vcf(e["cl"], 2, False, None, True, "S", e["cnr"])
    X["export-vcf-seg"] = lambda e, p: export.export_vcf(e["seg"], 2, True, "grch38", False, cnarr=e["cnr"])
    X["export-theta-noref"] = lambda e, p: export.export_theta(e["seg"], None)
    X["export-theta-sm"] = lambda e, p: export.export_theta(e["sm"], e["ref"])
    X["export-theta-snps"] = lambda e, p: list(export.export_theta_snps(e["vcf_tn"]))
    X["export-nexus-basic"] = lambda e, p: export.export_nexus_basic(e["cnr"])
    # min_weight > 0 (finding AY, fixed 83dc23b: the light bins were dropped from the caller's array)
    X["export-nexus-ogt-mw"] = lambda e, p: export.export_nexus_ogt(e["cnr"], e["vcf"], 0.45)
    X["export-nexus-ogt"] = lambda e, p: export.export_nexus_ogt(e["cnr"], e["vcf"])
    X["export-seg-files"] = files_op(cnfiles(("seg", "cl"), "cns"), lambda fns: export.export_seg(fns, chrom_ids=True))
    X["export-gistic"] = files_op(cnfiles(("cnr", "cnr2"), "cnr"), export.export_gistic_markers)
    X["export-jtv"] = files_op(cnfiles(("cnr", "cnr2"), "cnr"), lambda fns: (lambda hr: [hr[0], list(hr[1])])(
        export.fmt_jtv(["x0", "x1"], export.merge_samples(fns))))
    X["export-cdt"] = files_op(cnfiles(("cnr", "cnr2"), "cnr"), lambda fns: (lambda hr: [hr[0], list(hr[1])])(
        export.fmt_cdt(["x0", "x1"], export.merge_samples(fns))))
    # ---- other pipeline steps taking file names / lists
    X["reference"] = files_op(cohort, lambda tf, af: reference.do_reference(tf, af, None))
    X["reference-plain-sexed"] = files_op(cohort, lambda tf, af: reference.do_reference(
        tf, af, None, is_haploid_x_reference=True, female_samples=False, do_gc=False, do_edge=False, do_rmask=False))
    X["reference-targets-only"] = files_op(lambda e, d: (cohort(e, d, 2)[0],), lambda tf: reference.do_reference(tf))
    X["reference-gccol-noanti"] = files_op(lambda e, d: cohort(e, d, 3, "tgt_gc", "anti_0"),
                                           lambda tf, af: reference.do_reference(tf, af, None, do_edge=False))
    # do_reference(do_cluster=True) draws from the global generator without re-seeding (scipy kmeans2):
    # proposed_fixes/C10-reference-cluster-unseeded.md
    X["reference-flat"] = files_op(beds, lambda tp, ap: reference.do_reference_flat(tp, ap, None, True))
    X["import-theta"] = in_tmp(lambda e, d: _import_theta(e, d, importers))
    X["target-plain"] = lambda e, p: commands.do_target(e["bait"])
    X["target-annot-less"] = lambda e, p: commands.do_target(e["regions"], do_short_names=True, do_split=True, avg_size=500)
    X["antitarget-noaccess"] = lambda e, p: commands.do_antitarget(e["bait"])
    X["antitarget-min"] = lambda e, p: commands.do_antitarget(e["bait"], e["acc"], 3000, 2500)
    # ---- plotting entry points: only their arguments are observed
    X["binwise"] = lambda e, p: plots.update_binwise_positions(e["cnr"], e["seg"])
    X["binwise-simple"] = lambda e, p: [plots.update_binwise_positions_simple(e["cnr"]), plots.update_binwise_positions_simple(e["seg"])]
    X["scatter"] = lambda e, p: _plot(lambda: commands.do_scatter(e["cnr"], e["cl"], e["vcf"], do_trend=True))
    X["scatter-bybin-range"] = lambda e, p: _plot(lambda: commands.do_scatter(
        e["cnr"], e["seg"], None, show_range=e["CHR1"], by_bin=True))
    X["heatmap"] = lambda e, p: _plot(lambda: commands.do_heatmap(e["CNRS"], do_desaturate=True))
    # (do_heatmap(show_range=<chromosome>) raises inside pandas for some segment tables -- RangeIndex.insert with a
    # fractional label on a one-row frame; a plotting defect, not a C10 matter: the range variant uses the bins)
    X["heatmap-bybin-range"] = lambda e, p: [_plot(lambda: commands.do_heatmap(e["CNRS"], by_bin=True, delim_sampl=True)),
                                             _plot(lambda: commands.do_heatmap(e["CNRS"], show_range=e["CHR1"], vertical=True))]
    X["scatter-gene-range"] = lambda e, p: [
        _plot(lambda: commands.do_scatter(e["cnr"], e["cl"], e["vcf"], show_gene=_a_gene(e), window_width=5000)),
        _plot(lambda: commands.do_scatter(e["cnr"], e["seg"], e["vcf_tn"], do_trend=True, y_min=-2, y_max=2, title="t",
                                          show_range="%s:%d-%d" % (e["CHR1"], e["STARTS"][0], e["ENDS"][1]))),
        _plot(lambda: commands.do_scatter(None, e["cl"], e["vcf"]))]

    def diagram_(e, d):
        from cnvlib import diagram
        fn = os.path.join(d, "d.pdf")
        diagram.create_diagram(e["cnr"], e["seg"], 0.5, 3, fn, None, "t", False)
        diagram.create_diagram(None, e["cl"], 0.5, 1, fn, None, None, True)
        return os.path.isfile(fn)
    X["diagram"] = in_tmp(diagram_)

    def write_formats(e, d):
        out = []
        for key, fmts in (("cl", ("tab", "seg", "bed", "bed3", "bed4", "interval", "text")), ("bait", ("tab", "bed4", "interval", "text")),
                          ("clb", ("tab", "bed")), ("vcf", ("tab", "bed3"))):
            for fmt in fmts:
                fn = os.path.join(d, "%s.%s" % (key, fmt))
                tabio.write(e[key], fn, fmt)
                out.append(open(fn).read())
        return out
    X["write-formats"] = in_tmp(write_formats)
    # ---- chained pipeline: every result is the argument of the next step and must come through it unchanged
    X["chain-batch"] = _chain
    # ---- array methods
    m = {}
    m["center_all-mean"] = lambda c: c.center_all("mean", by_chrom=False)
    m["center_all-biweight-parx"] = lambda c: c.center_all("biweight", skip_low=True, diploid_parx_genome="grch38")
    m["center_all-mode"] = lambda c: c.center_all(descriptives.modal_location, verbose=True)
    m["sort"] = lambda c: c.sort()
    m["sort_columns"] = lambda c: c.sort_columns()
    for k, g in m.items():
        X[k + "-copy"] = (lambda g: lambda e, p: (lambda c: (g(c), c)[1])(e["cnr"].copy()))(g)
    X["sort-unsorted-copy"] = lambda e, p: (lambda c: (c.sort(), c)[1])(e["tgt_u"].copy())

    def add_copy(e, p):
        c = e["tgt"].copy()
        c.add(e["anti"])
        c.add(e["anti_0"])
        return c
    X["add-copy"] = add_copy
    X["concat"] = lambda e, p: e["cnr"].concat(e["CNRS"])
    X["concat-gen"] = lambda e, p: e["seg"].concat(a for _c, a in e["cnr"].by_chromosome())
    X["copy"] = lambda e, p: e["clb"].copy()
    X["autosomes"] = lambda e, p: [e["cnr"].autosomes(), e["bait"].autosomes(), e["vcf"].autosomes()]
    X["autosomes-also"] = lambda e, p: [e["cnr"].autosomes(also=e["ALSO"]), e["bait"].autosomes(also=e["CHRX"]),
                                        e["cnr"].autosomes(diploid_parx_genome="grch38")]
    # also=<Series> together with a PAR genome (finding AX, fixed e17d94d: the caller's Series was OR-ed in place)
    X["autosomes-also-series"] = lambda e, p: e["cnr"].autosomes(diploid_parx_genome="grch38", also=e["ALSO_SER"])
    X["by_chromosome"] = lambda e, p: list(e["cnr"].by_chromosome())
    X["by_arm-small"] = lambda e, p: list(e["cnr"].by_arm(min_gap_size=2000, min_arm_bins=3))
    X["by_arm-seg"] = lambda e, p: list(e["seg"].by_arm())
    X["by_ranges"] = lambda e, p: [list(e["cnr"].by_ranges(e["seg"])), list(e["vcf"].by_ranges(e["cl"], "inner", False)),
                                   list(e["cnr"].by_ranges(e["regions"], mode="trim"))]
    X["in_range"] = lambda e, p: [e["cnr"].in_range(e["CHR1"], e["STARTS"][0], e["ENDS"][1], m) for m in ("outer", "trim", "inner")] + [
        e["cnr"].in_range(e["CHRX"]), e["cnr"].in_range(e["CHR1"], end=e["ENDS"][0])]
    X["in_ranges"] = lambda e, p: [e["cnr"].in_ranges(e["CHR1"], e["STARTS"], e["ENDS"], "trim"),
                                   e["cnr"].in_ranges(e["CHR1"], e["STARTS"], None), e["regions"].in_ranges(e["CHR1"], None, e["ENDS"])]
    X["into_ranges"] = lambda e, p: [e["cnr"].into_ranges(e["seg"], "log2", 0.0, np.median),
                                     e["cnr"].into_ranges(e["regions"], "gene", "-"),
                                     e["cnr"].into_ranges(e["seg"], "nosuch", -1.0)]
    X["iter_ranges_of"] = lambda e, p: [list(e["cnr"].iter_ranges_of(e["cl"], "weight", "inner", False)),
                                        list(e["vcf"].iter_ranges_of(e["cnr"], "alt_freq"))]
    X["coords-labels"] = lambda e, p: [list(e["cnr"].coords()), list(e["cnr"].coords(also=e["ALSOCOLS"])),
                                       list(e["bait"].coords("gene")), e["seg"].labels()]
    X["add_columns"] = lambda e, p: e["cnr"].add_columns(weight=e["WTS"].mean(), extra=e["cnr"]["log2"])
    X["keep_columns"] = lambda e, p: [e["cnr"].keep_columns(e["COLS"]), e["ref"].drop_extra_columns()]
    X["filter"] = lambda e, p: [e["cnr"].filter(chromosome=e["CHR1"], gene="Antitarget"),
                                e["cnr"].filter(lambda r: r["log2"] > 0), e["cl"].filter(cn=2)]
    X["getitem"] = lambda e, p: [e["cnr"][3], e["cnr"][2:9], e["cnr"][e["cnr"]["log2"] > 0], e["cnr"][[]], e["cnr"]["gene"],
                                 e["cnr"][e["cnr"].data.index[5], "log2"], list(e["seg"])]
    X["drop_low_coverage"] = lambda e, p: [e["cnr"].drop_low_coverage(verbose=True), e["cnr_nodepth"].drop_low_coverage()]
    X["squash_genes"] = lambda e, p: e["cnr"].squash_genes()
    X["squash_genes-anti-tuple"] = lambda e, p: e["cnr"].squash_genes(np.mean, squash_antitarget=True, ignore=e["IG_tuple"])
    X["squash_genes-ref"] = lambda e, p: e["ref"].squash_genes(summary_func=np.median, ignore=e["IG_list"])
    for xr in (False, True):
        for xx in (False, True, None):
            X["shift_xx-%s%s" % ("Y" if xr else "X", {False: "m", True: "f", None: "g"}[xx])] = (
                lambda xr, xx: lambda e, p: e["cnr"].shift_xx(xr, xx))(xr, xx)
    X["shift_xx-parx-seg"] = lambda e, p: e["cl"].shift_xx(False, None, "grch38")
    X["guess_xx"] = lambda e, p: [e[k].guess_xx(y, g, verbose=v) for k, y, g, v in (
        ("cnr", False, None, True), ("cnr", True, "grch38", False), ("seg", False, None, True), ("cnr_bare", True, None, True),
        ("anti_0", False, None, True))]
    X["compare_sex"] = lambda e, p: [e["cnr"].compare_sex_chromosomes(False, None, True), e["tgt"].compare_sex_chromosomes(True),
                                     e["cnr_bare"].compare_sex_chromosomes()]
    X["expect_flat_log2"] = lambda e, p: [e["cnr"].expect_flat_log2(), e["cnr"].expect_flat_log2(True, "grch38"),
                                          e["cnr"].expect_flat_log2(False)]
    X["residuals"] = lambda e, p: [e["cnr"].residuals(), e["cnr"].residuals(e["seg"]), e["cnr"].residuals(e["regions"]),
                                   e["cnr"].residuals(e["acc"])]
    X["smooth_log2"] = lambda e, p: [e["cnr"].smooth_log2(), e["cnr"].smooth_log2(7, by_arm=False), e["cnr_bare"].smooth_log2()]
    X["sex-filters"] = lambda e, p: [e["cnr"].chr_x_filter(), e["cnr"].chr_y_filter("grch38"), e["cnr"].parx_filter("grch37"),
                                     e["cnr"].pary_filter("grch38"), e["cnr"].chr_x_label, e["cnr"].chr_y_label]
    X["total_range_size"] = lambda e, p: [e["cnr"].total_range_size(), e["regions"].total_range_size(), e["anti_0"].total_range_size()]
    X["resize-neg"] = lambda e, p: e["cnr"].resize_ranges(-120)
    X["resize-chromsizes"] = lambda e, p: e["cnr"].resize_ranges(4000, chrom_sizes=e["CHROMSIZES"])
    X["merge-bp"] = lambda e, p: e["regions"].merge(bp=500)
    X["merge-default"] = lambda e, p: e["bait"].merge()
    X["flatten-combine"] = lambda e, p: e["regions"].flatten(combine={"gene": "|".join})
    X["flatten-fast"] = lambda e, p: e["bait"].flatten()
    X["subtract-self"] = lambda e, p: [e["regions"].subtract(e["bait"]), e["acc"].subtract(e["regions"])]
    X["intersection-outer"] = lambda e, p: [e["cnr"].intersection(e["regions"]), e["cnr"].intersection(e["seg"], mode="inner"),
                                            e["vcf"].intersection(e["bait"])]
    X["subdivide-min"] = lambda e, p: e["acc"].subdivide(20000, 5000, verbose=True)
    X["by_gene-seg"] = lambda e, p: [(k, a) for k, a in e["seg"].by_gene()]
    X["gene_intervals-tuple"] = lambda e, p: dict(reports.get_gene_intervals(e["cnr"], e["IG_tuple"]))
    X["transfer_fields-tuple-bare"] = lambda e, p: segmentation.transfer_fields(e["seg"].copy(), e["cnr_bare"], ignore=e["IG_tuple"])
    X["transfer_fields-nodepth"] = lambda e, p: segmentation.transfer_fields(e["seg"].copy(), e["cnr_nodepth"])
    X["drop_outliers"] = lambda e, p: segmentation.drop_outliers(e["cnr"], 10, 1)
    X["group_by_genes"] = lambda e, p: list(reports.group_by_genes(e["cnr"], True))
    X["segment_mean"] = lambda e, p: [segmetrics.segment_mean(e["cnr"]), segmetrics.segment_mean(e["cnr"], True),
                                      segmetrics.segment_mean(e["cnr_bare"])]
    for fl in ("ampdel", "ci", "cn", "sem"):
        X["segfilter-" + fl] = (lambda fl: lambda e, p: getattr(segfilters, fl)(e["clb"]))(fl)
    X["squash_by_groups-arm"] = lambda e, p: segfilters.squash_by_groups(e["clb"], e["clb"]["cn"], by_arm=True)
    X["absolutes"] = lambda e, p: [call.absolute_clonal(e["seg"], 2, 0.7, True, None, True), call.absolute_pure(e["seg"], 2, False),
                                   call.absolute_threshold(e["seg"], 2, e["THR"], True), call.absolute_expect(e["seg"], 2, "grch38", False),
                                   call.absolute_reference(e["seg"], 4, None, True),
                                   call.absolute_dataframe(e["cl"], 2, 0.5, False, None, False)]
    X["log2_ratios"] = lambda e, p: call.log2_ratios(e["cl"], e["cl"]["cn"].astype(float), 2, True, None, round_to_int=True)
    X["rescale_baf"] = lambda e, p: call.rescale_baf(0.6, e["clb"]["baf"])
    X["assign_ci"] = lambda e, p: export.assign_ci_start_end(e["seg"], e["cnr"])
    # ---- VariantArray methods
    X["baf_by_ranges"] = lambda e, p: [e["vcf"].baf_by_ranges(e["cnr"]), e["vcf_tn"].baf_by_ranges(e["seg"], above_half=True, tumor_boost=True),
                                       e["vcf"].baf_by_ranges(e["seg"], summary_func=np.nanmean, above_half=False)]
    # (het_frac_by_ranges without genotype columns raises -- series length = ranges, index = variants; not a C10 matter)
    X["baf_by_ranges-nogenotypes"] = lambda e, p: [e["vcf_nz"].baf_by_ranges(e["seg"]), e["vcf_nz"].heterozygous(),
                                                   e["vcf_nz"].zygosity_from_freq(0.2, 0.8), e["vcf_nz"].mirrored_baf()]
    X["het_frac"] = lambda e, p: [e["vcf"].het_frac_by_ranges(e["seg"]), e["vcf_tn"].het_frac_by_ranges(e["cnr"])]
    X["zygosity_from_freq"] = lambda e, p: [e["vcf"].zygosity_from_freq(0.25, 0.9), e["vcf_tn"].zygosity_from_freq()]
    X["heterozygous"] = lambda e, p: [e["vcf"].heterozygous(), e["vcf_tn"].heterozygous()]
    X["mirrored_baf"] = lambda e, p: [e["vcf"].mirrored_baf(), e["vcf"].mirrored_baf(True), e["vcf_tn"].mirrored_baf(False, True),
                                      e["vcf_tn"].tumor_boost()]
    # ---- numeric helpers on caller-owned numpy arrays / Series
    X["descriptives"] = lambda e, p: [f(e["LOGV"]) for f in (
        descriptives.biweight_location, descriptives.modal_location, descriptives.biweight_midvariance, descriptives.gapper_scale,
        descriptives.interquartile_range, descriptives.median_absolute_deviation, descriptives.mean_squared_error, descriptives.q_n)] + [
        f(e["LOGV"], e["WTS"]) for f in (descriptives.weighted_median, descriptives.weighted_mad, descriptives.weighted_std)]
    X["descriptives-series"] = lambda e, p: [f(e["cnr"]["log2"]) for f in (
        descriptives.biweight_location, descriptives.modal_location, descriptives.biweight_midvariance,
        descriptives.median_absolute_deviation)] + [descriptives.weighted_median(e["cnr"]["log2"], e["cnr"]["weight"])]
    X["smoothing"] = lambda e, p: [smoothing.rolling_median(e["LOGV"], 0.2), smoothing.rolling_quantile(e["LOGV"], 7, 0.8),
                                   smoothing.rolling_std(e["LOGV"], 9), smoothing.savgol(e["LOGV"], 11, weights=e["WTS"]),
                                   smoothing.savgol(e["cnr"]["log2"], 0.3), smoothing.kaiser(e["LOGV"], 9, weights=e["WTS"]),
                                   smoothing.guess_window_size(e["LOGV"], e["WTS"]), smoothing.outlier_iqr(e["LOGV"]),
                                   smoothing.outlier_mad_median(e["LOGV"]), smoothing.rolling_outlier_iqr(e["cnr"]["log2"], 9),
                                   smoothing.rolling_outlier_quantile(e["cnr"]["log2"], 9, 0.9, 2), smoothing.rolling_outlier_std(e["LOGV"], 9, 2)]
    X["bintest-helpers"] = lambda e, p: [bintest.z_prob(e["cnr"]), bintest.p_adjust_bh(np.abs(np.tanh(e["LOGV"]))),
                                         metrics.ests_of_scale(e["LOGV"])]
    X["ci-bootstrap"] = lambda e, p: [segmetrics.confidence_interval_bootstrap(e["LOGV"], e["WTS"], 0.1, 25, sm) for sm in (False, True)]
    X["reference-helpers"] = lambda e, p: [reference.reference2regions(e["ref"]), reference.warn_bad_bins(e["ref"])]
    return {k: quiet(f) for k, f in X.items()}


def _a_gene(e):
    return [g for g in e["cnr"]["gene"] if g.startswith("G")][0]


def _plot(f):
    """a plotting entry point: the figure is not a table, only the arguments are observed"""
    import matplotlib
    matplotlib.use("Agg")
    from matplotlib import pyplot
    try:
        f()
    finally:
        pyplot.close("all")
    return None


def _import_theta(e, d, importers):
    seg = e["seg"]
    n = len(seg.autosomes())
    fn = os.path.join(d, "theta.results")
    cs = [str((3 * k) % 5) if k % 6 else "X" for k in range(n)]
    with open(fn, "w") as h:
        h.write("#NLL\tmu\tC\tp*\n12.5\t0.3,0.7\t%s\t%s\n" % (":".join(cs), ",".join("0.5" for _ in cs)))
    return list(importers.do_import_theta(seg, fn, ploidy=2))


def _chain(e, p):
    """fix -> segment -> segmetrics -> call -> genemetrics / bintest / export, as `batch` chains them; every
    intermediate result is fingerprinted when it is made and again at the end"""
    from cnvlib import bintest, call, export, fix, reports, segmentation, segmetrics
    made = []

    def keep(name, x):
        made.append((name, x, arg_digest(x)))
        return x
    cnr = keep("cnr", fix.do_fix(e["tgt"], e["anti"], e["ref"]))
    seg = keep("seg", segmentation.do_segmentation(cnr, "haar", processes=p))
    sm = keep("sm", segmetrics.do_segmetrics(cnr, seg, e["LOC"], e["SPR"], e["IVL"], bootstraps=10))
    fl = ["ci", "cn"]
    cl = keep("cl", call.do_call(sm, e["vcf"], "clonal", purity=0.7, is_sample_female=True, filters=fl))
    gm = reports.do_genemetrics(cnr, cl, 0.1, 1, is_sample_female=True)
    bt = bintest.do_bintest(cnr, cl, 0.3)
    bed = export.export_bed(cl, 2, False, None, True, None, "all")
    vcfout = export.export_vcf(cl, 2, False, None, True, cnarr=cnr)
    fl2 = ["cn"]
    cl2 = call.do_call(cl, method="threshold", filters=fl2)
    for name, x, dg in made:
        _unchanged("intermediate result `%s` of the chain" % name, x, dg)
    if fl != ["ci", "cn"] or fl2 != ["cn"]:
        raise ArgumentChanged("filter list of the chain")
    return [cnr, seg, sm, cl, gm, bt, bed, vcfout, cl2]


_OPS = None


def ops():
    global _OPS
    if _OPS is None:
        _OPS = _ops()
    return _OPS


# static description of the alphabet (must not import cnvlib: used by gen_cases in the parent process)
BASE_OPS = ["target", "antitarget", "fix", "fix-plain", "segment-none", "segment-haar", "segment-haar-skip", "segment-hmm",
            "segment-hmm-tumor", "segment-hmm-germline", "segmetrics", "segmetrics-smooth", "call-none",
            "call-threshold", "call-clonal", "call-ci-cn", "call-sem", "call-ampdel", "call-cc", "genemetrics",
            "genemetrics-seg", "genemetrics-cl",
            "bintest-target", "segmetrics-skip", "breaks", "bintest", "metrics", "export-bed", "export-vcf", "export-seg", "export-theta",
            "center_all-copy", "shuffle-copy", "merge", "flatten", "subtract", "intersection", "subdivide", "resize", "by_arm",
            "by_gene", "by_gene-list", "by_gene-tuple", "squash_genes-list", "transfer_fields-list",
            "gene_intervals-list"]
PAR_OPS = ["%s@p%d" % (b, p) for b in ("segment-none", "segment-haar", "segment-haar-skip") for p in (2, 3, 16)] + [
    "segment-hmm-germline@p3"]
EXT_OPS = ["genemetrics-cl-Xf", "genemetrics-cl-Xm", "genemetrics-sm-Yf", "genemetrics-sm-Ym",  # (reference X x sample sex)
           "call-vcf", "call-vcf-purity", "call-vcf-thr-purity", "call-vcf-nogenotypes", "call-clb", "call-clb-purity", "call-clonal-Yf",
           "call-clonal-Xm", "call-clonal-pure-Y", "call-parx", "call-tuple", "call-default-thr", "call-none-cl",
           "call-none-purity", "call-seg", "segment-haar-vcf", "segment-none-vcf", "segment-hmm-vcf",
           "segment-haar-noout", "segment-haar-outliers", "segment-none-skip", "segment-hmm-skip",
           "segment-hmm-noout", "segment-hmm-parx", "segment-haar-parx", "segment-haar-nodepth",
           "segment-hmm-nodepth", "segment-none-nodepth", "fix-unsorted", "fix-unsorted-plain", "fix-gccol",
           "fix-noanti", "fix-noanti-plain", "fix-notarget", "export-nexus-ogt-mw", "autosomes-also-series", "fix-refplain", "fix-cluster", "fix-cluster-none", "fix-gc-only",
           "fix-edge-only", "fix-rmask-only", "fix-frac", "fix-parx", "fix-lowcov", "load_adjust-anti",
           "load_adjust-empty", "center_by_window", "apply_weights", "match_ref", "edge_bias", "segmetrics-none",
           "segmetrics-ci-only", "segmetrics-clb-smooth-skip", "genemetrics-parx", "genemetrics-guess",
           "genemetrics-guess-Y", "genemetrics-bare", "genemetrics-bare-seg", "genemetrics-nodepth-skip",
           "bintest-noseg", "bintest-clb", "bintest-regions", "metrics-lists", "metrics-many-one", "metrics-noseg",
           "metrics-tuple", "breaks-cl", "breaks-bare", "sex", "sex-Y-parx", "export-bed-variant",
           "export-bed-ploidy-seg", "export-vcf-cnarr", "export-vcf-seg", "export-theta-noref", "export-theta-sm",
           "export-theta-snps", "export-nexus-basic", "export-nexus-ogt", "export-seg-files", "export-gistic",
           "export-jtv", "export-cdt", "reference", "reference-plain-sexed", "reference-targets-only", "reference-gccol-noanti",
           "reference-flat", "import-theta", "target-plain", "target-annot-less", "antitarget-noaccess",
           "antitarget-min", "binwise", "binwise-simple", "scatter", "scatter-bybin-range", "heatmap", "heatmap-bybin-range", "scatter-gene-range", "diagram", "write-formats", "chain-batch",
           "center_all-mean-copy", "center_all-biweight-parx-copy", "center_all-mode-copy", "sort-copy",
           "sort_columns-copy", "sort-unsorted-copy", "add-copy", "concat", "concat-gen", "copy", "autosomes",
           "autosomes-also", "by_chromosome", "by_arm-small", "by_arm-seg", "by_ranges", "in_range", "in_ranges",
           "into_ranges", "iter_ranges_of", "coords-labels", "add_columns", "keep_columns", "filter", "getitem",
           "drop_low_coverage", "squash_genes", "squash_genes-anti-tuple", "squash_genes-ref", "shift_xx-Xm",
           "shift_xx-Xf", "shift_xx-Xg", "shift_xx-Ym", "shift_xx-Yf", "shift_xx-Yg", "shift_xx-parx-seg", "guess_xx",
           "compare_sex", "expect_flat_log2", "residuals", "smooth_log2", "sex-filters", "total_range_size",
           "resize-neg", "resize-chromsizes", "merge-bp", "merge-default", "flatten-combine", "flatten-fast",
           "subtract-self", "intersection-outer", "subdivide-min", "by_gene-seg", "gene_intervals-tuple",
           "transfer_fields-tuple-bare", "transfer_fields-nodepth", "drop_outliers", "group_by_genes", "segment_mean",
           "segfilter-ampdel", "segfilter-ci", "segfilter-cn", "segfilter-sem", "squash_by_groups-arm", "absolutes",
           "log2_ratios", "rescale_baf", "assign_ci", "baf_by_ranges", "baf_by_ranges-nogenotypes", "het_frac", "zygosity_from_freq",
           "heterozygous", "mirrored_baf", "descriptives", "descriptives-series", "smoothing", "bintest-helpers",
           "ci-bootstrap", "reference-helpers"]
# slow steps whose arguments no other step shares in an interesting way: no sampled partners in the quick tier
HEAVY_EXT = {"scatter", "scatter-bybin-range", "scatter-gene-range", "heatmap", "heatmap-bybin-range", "diagram", "chain-batch",
             "reference", "reference-plain-sexed", "reference-gccol-noanti"}
EXT_PAR = ["segment-haar-vcf@p2", "segment-haar-noout@p3", "segment-none-skip@p2", "segment-haar-nodepth@p16", "segment-hmm-skip@p2",
           "chain-batch@p3"]
SMALL_USE = {"call-vcf-thr-purity": [["filters", "FL_cc"]], "call-clb": [["filters", "FL_ampdel"]],
             "call-none-cl": [["filters", "FL_sem"]], "call-tuple": [["read", "FL_tuple"]],
             "squash_genes-anti-tuple": [["ignore", "IG_tuple"]], "squash_genes-ref": [["ignore", "IG_list"]],
             "gene_intervals-tuple": [["ignore", "IG_tuple"]], "transfer_fields-tuple-bare": [["ignore", "IG_tuple"]],
             "keep_columns": [["read", "COLS"]], "autosomes-also": [["read", "ALSO"]], "coords-labels": [["read", "ALSOCOLS"]],
             "in_range": [["read", "STARTS"], ["read", "ENDS"]], "in_ranges": [["read", "STARTS"], ["read", "ENDS"]],
             "segmetrics-ci-only": [["read", "IVL"]], "chain-batch": [["read", "LOC"], ["read", "SPR"], ["read", "IVL"]],
             "absolutes": [["read", "THR"]],
             "call-ci-cn": [["filters", "FL_ci_cn"]], "call-sem": [["filters", "FL_sem"]],
             "call-ampdel": [["filters", "FL_ampdel"]], "call-cc": [["filters", "FL_cc"]],
             "by_gene-list": [["ignore", "IG_list"]], "by_gene-tuple": [["ignore", "IG_tuple"]],
             "squash_genes-list": [["ignore", "IG_empty"]], "transfer_fields-list": [["ignore", "IG_list"]],
             "gene_intervals-list": [["ignore", "IG_list"]]}


def _seed_rngs(s):
    import numpy as np
    np.random.seed(s % (2 ** 32))
    _pyrandom.seed(s)


def _run_op(name, env, seed):
    base, p, _small, f = ops()[name]
    _seed_rngs(seed)
    try:
        return digest(f(env, p))
    except Exception as e:  # an op that fails must fail the same way on fresh copies
        return "ERR:%s:%s" % (type(e).__name__, str(e)[:60])


def reference_result(ds_seed, base):
    """the same call on fresh copies, 1 worker, a fixed other RNG state"""
    key = (ds_seed, base)
    if key not in _REF:
        _REF[key] = _run_op(base, fresh_env(ds_seed), 987654321)
    return _REF[key]


# ---------------------------------------------------------------------------------------------
# op `history`

HEAP_NAMES = ["FL_ci_cn", "FL_sem", "FL_ampdel", "FL_cc", "IG_list", "IG_empty", "IG_tuple", "THR", "LOC", "SPR", "IVL",
              "FL_tuple", "COLS", "ALSO", "ALSOCOLS", "STARTS", "ENDS"]
READS = {"segmetrics": ["LOC", "SPR", "IVL"], "segmetrics-smooth": ["LOC", "SPR", "IVL"]}
PREFIX = bool(os.environ.get("C10_PREFIX_MODEL"))  # development: the model of the code before fix J


def base_of(name):
    return name.split("@")[0]


def procs_of(name):
    return int(name.split("@p")[1]) if "@p" in name else 1


def uses_of(name):
    b = base_of(name)
    u = [[("ignore_tuple" if n == "IG_tuple" else role), HEAP_NAMES.index(n)] for role, n in SMALL_USE.get(b, [])]
    if b.startswith("call-"):
        u.append(["read", HEAP_NAMES.index("THR")])
    u += [["read", HEAP_NAMES.index(n)] for n in READS.get(b, [])]
    return u


def _heap(env):
    return [[str(x) for x in env[n]] for n in HEAP_NAMES]


def _tables(env):
    return sorted([k, d] for k, d in env.fingerprints().items() if k not in HEAP_NAMES)


def _run_history(case):
    i = case["in"]
    env = fresh_env(i["ds"])
    out = {"heap0": _heap(env), "steps": []}
    after = _tables(env)
    for st in i["steps"]:
        before = after
        res = _run_op(st["name"], env, st["seed"])
        after = _tables(env)
        out["steps"].append({"res": res, "fresh": reference_result(i["ds"], base_of(st["name"])),
                             "before": before, "after": after, "heap": _heap(env)})
    return out


# ---------------------------------------------------------------------------------------------
# op `ensure_path`


def _tiny(i):
    from cnvlib.cnary import CopyNumArray as CNA
    return CNA.from_rows([("chr1", 100 * i, 100 * i + 50 + i, "g%d" % i, 0.25 * i)],
                         columns=["chromosome", "start", "end", "gene", "log2"], meta_dict={"sample_id": "w%d" % i})


def _run_ensure_path(case):
    from skgenome import tabio
    from cnvlib import core as cnvcore
    i = case["in"]
    root = tempfile.mkdtemp(dir="/var/tmp", prefix="c10ep")
    cwd = os.getcwd()
    try:
        d = os.path.join(root, "d")
        os.mkdir(d)
        for name, tok in i["pre"]:
            p = os.path.join(d, name)
            os.makedirs(os.path.dirname(p), exist_ok=True)
            with open(p, "w") as f:
                f.write(tok)
        texts = {tok: tok for _n, tok in i["pre"]}
        target = os.path.join(d, i["path"])
        if i.get("rel"):  # the path as a CLI user gives it: relative to the working directory ("out.cnn", "./out.cnn", "sub/out.cnn")
            os.chdir(d)
            target = {"plain": "", "dot": "./", "dotdot": "../d/"}[i["rel"]] + i["path"]
        for k in range(i["writes"]):
            arr = _tiny(k)
            refp = os.path.join(root, "ref%d" % k)
            tabio.write(arr, refp)
            texts[open(refp).read()] = "w%d" % k
            if i["guarded"]:
                cnvcore.ensure_path(target)
            elif os.path.dirname(target):
                os.makedirs(os.path.dirname(target), exist_ok=True)
            tabio.write(arr, target)
        files = []
        for dp, _dn, fns in os.walk(d):
            for fn in fns:
                p = os.path.join(dp, fn)
                t = open(p).read()
                files.append([os.path.relpath(p, d), texts.get(t, "?" + hashlib.sha1(t.encode()).hexdigest()[:8])])
        return {"files": sorted(files)}
    finally:
        os.chdir(cwd)
        shutil.rmtree(root, ignore_errors=True)


# ---------------------------------------------------------------------------------------------
# op `rng_trace`: record the calls into the global generators while a function of the RNG table runs

_NP_RANDOM = ["seed", "permutation", "randint", "randn", "shuffle", "rand", "random", "random_sample", "choice", "normal",
              "standard_normal", "uniform", "sample", "ranf", "bytes", "beta", "binomial", "poisson", "exponential",
              "gamma", "multivariate_normal", "random_integers", "default_rng", "RandomState"]
_PY_RANDOM = ["seed", "random", "randint", "randrange", "choice", "choices", "shuffle", "sample", "uniform", "gauss",
              "normalvariate", "getrandbits", "betavariate", "expovariate"]


class _Recorder:
    def __init__(self):
        self.trace = []
        self.saved = []

    def __enter__(self):
        import numpy as np

        def wrap(mod, name, orig):
            def f(*a, **k):
                if name == "seed":
                    c = a[0] if a else k.get("seed", k.get("a"))
                    self.trace.append(["seed", int(c) if isinstance(c, int) and not isinstance(c, bool) and c >= 0 else None])
                elif name in ("default_rng", "RandomState"):
                    c = a[0] if a else k.get("seed")
                    if not (isinstance(c, int) and not isinstance(c, bool)):
                        self.trace += [["seed", None], ["draw", name]]
                else:
                    self.trace.append(["draw", name])
                return orig(*a, **k)
            return f
        def wrap_class(name, orig):
            # a class must stay a class (libraries test isinstance(x, np.random.RandomState)): a recording subclass
            # whose instance check is the original's
            trace = self.trace

            class Meta(type(orig)):
                def __instancecheck__(cls, inst):
                    return isinstance(inst, orig)

            class Recording(orig, metaclass=Meta):
                def __init__(self, *a, **k):
                    c = a[0] if a else k.get("seed")
                    if not (isinstance(c, int) and not isinstance(c, bool)):
                        trace.extend([["seed", None], ["draw", name]])
                    super().__init__(*a, **k)
            Recording.__name__ = name
            return Recording
        for mod, names in ((np.random, _NP_RANDOM), (_pyrandom, _PY_RANDOM)):
            for n in names:
                if hasattr(mod, n):
                    orig = getattr(mod, n)
                    self.saved.append((mod, n, orig))
                    setattr(mod, n, wrap_class(n, orig) if isinstance(orig, type) else wrap(mod, n, orig))
        return self

    def __exit__(self, *a):
        for mod, n, orig in self.saved:
            setattr(mod, n, orig)


def _trace_entries():
    import numpy as np
    from skgenome import tabio
    from cnvlib import fix, reference, segmentation, segmetrics, call, reports

    def cbw(e, v):
        key = e["ref"]["gc"] if v.get("series") else e["ref"]["gc"].values
        return fix.center_by_window(e["ref"].copy(), v.get("fraction", 0.1), key)

    def cib(e, v):
        k = v.get("k", 12)
        vals = np.asarray(e["cnr"]["log2"].values[:k], dtype=float)
        wts = np.asarray(e["cnr"]["weight"].values[:k], dtype=float)
        return segmetrics.confidence_interval_bootstrap(vals, wts, v.get("alpha", 0.05), v.get("bootstraps", 20),
                                                        v.get("smoothed", False))

    def ssw(e, v):
        k = v.get("k", 5)
        vals = np.asarray(e["cnr"]["log2"].values[:k], dtype=float)
        wts = np.asarray(e["cnr"]["weight"].values[:k], dtype=float)
        return segmetrics._smooth_samples_by_weight(vals, [(vals, wts)] * v.get("n", 3))

    def doref(e, v):
        d = tempfile.mkdtemp(dir="/var/tmp", prefix="c10ref")
        try:
            tf, af = _cohort_files(e, d, v.get("samples", 2), v.get("tkey", "tgt"))
            return reference.do_reference(tf, af, None, do_gc=v.get("gc", False), do_edge=v.get("edge", True), do_rmask=False)
        finally:
            shutil.rmtree(d, ignore_errors=True)

    def with_cohort(fun):
        def f(e, v):
            d = tempfile.mkdtemp(dir="/var/tmp", prefix="c10ref")
            try:
                tf, af = _cohort_files(e, d, v.get("samples", 2), v.get("tkey", "tgt"))
                return fun(e, v, tf, af)
            finally:
                shutil.rmtree(d, ignore_errors=True)
        return f

    def bcl(e, v):
        c = e["tgt_gc"].copy()
        cols = {"gc": c["gc"]} if v.get("gc", True) else {}
        if v.get("rmask"):
            cols["rmask"] = c["gc"] * 0.5
        flat = c.expect_flat_log2(False)
        return reference.bias_correct_logr(c, cols, fix.get_edge_bias(c, 250), flat, {c.sample_id: True}, c.chr_x_filter(),
                                           c.chr_y_filter(), v.get("gc", True), v.get("edge", True), v.get("rmask", False), True, None)

    def rnacorr(e, v):
        from cnvlib import rna
        c = e["ref"].copy()
        c["tx_length"] = (c.end - c.start).astype(float)
        return rna.correct_cnr(c, v.get("gc", True), v.get("txlen", True), 3.0, None)

    from cnvlib import bintest, export, metrics
    return {
        "cnvlib.reference.bias_correct_logr": bcl,
        "cnvlib.reference.load_sample_block": with_cohort(lambda e, v, tf, af: reference.load_sample_block(
            tf, None, False, None, {}, True, v.get("gc", True), v.get("edge", True), False)),
        "cnvlib.reference.combine_probes": with_cohort(lambda e, v, tf, af: reference.combine_probes(
            tf, af if v.get("anti", True) else None, None, False, None, {}, True, v.get("edge", True), True, False, 4)),
        "cnvlib.rna.correct_cnr": rnacorr,
        "cnvlib.bintest.do_bintest": lambda e, v: bintest.do_bintest(e["cnr"], e["seg"], 0.2),
        "cnvlib.metrics.do_metrics": lambda e, v: metrics.do_metrics(e["CNRS"], e["SEGS"]),
        "cnvlib.export.export_vcf": lambda e, v: export.export_vcf(e["cl"], 2, False, None, True, cnarr=e["cnr"]),
        "cnvlib.vary.VariantArray.baf_by_ranges": lambda e, v: e["vcf_tn"].baf_by_ranges(e["seg"], tumor_boost=True),
        "cnvlib.segmentation.hmm.variants_in_segment": lambda e, v: segmentation.do_segmentation(e["cnr"], "haar", variants=e["vcf"]),
        "cnvlib.reports.do_breaks": lambda e, v: reports.do_breaks(e["cnr"], e["seg"]),
        # cnvlib.cluster.kmeans (do_reference / combine_probes with do_cluster=True) draws from numpy's global generator
        # inside scipy without re-seeding: proposed_fixes/C10-reference-cluster-unseeded.md; not generated until fixed
        "cnvlib.fix.center_by_window": cbw,
        "cnvlib.fix.do_fix": lambda e, v: fix.do_fix(e["tgt"], e["anti"], e["ref"], do_gc=v.get("gc", True),
                                                     do_edge=v.get("edge", True), do_rmask=v.get("rmask", True)),
        "cnvlib.fix.load_adjust_coverages": lambda e, v: fix.load_adjust_coverages(
            e["tgt"], e["ref"], True, v.get("gc", True), v.get("edge", True), v.get("rmask", True), None),
        "cnvlib.segmetrics.confidence_interval_bootstrap": cib,
        "cnvlib.segmetrics._smooth_samples_by_weight": ssw,
        "cnvlib.segmetrics.make_ci_func": lambda e, v: segmetrics.make_ci_func(0.05, 20, v.get("smoothed", False)),
        "cnvlib.segmetrics.do_segmetrics": lambda e, v: segmetrics.do_segmetrics(
            e["cnr"], e["seg"], ("mean",), ("sem",), tuple(v.get("ivl", ["ci", "pi"])), alpha=v.get("alpha", 0.05),
            bootstraps=v.get("bootstraps", 20), smoothed=v.get("smoothed", False)),
        "cnvlib.reference.do_reference": doref,
        "skgenome.gary.GenomicArray.shuffle": lambda e, v: e["cnr"].copy().shuffle(),
        # functions the table does not list must not touch the generators at all
        "cnvlib.segmentation.do_segmentation": lambda e, v: segmentation.do_segmentation(e["cnr"], v.get("method", "haar")),
        "cnvlib.call.do_call": lambda e, v: call.do_call(e["sm"], method="threshold", filters=["ci", "cn"]),
        "cnvlib.reports.do_genemetrics": lambda e, v: reports.do_genemetrics(e["cnr"], e["seg"], 0.2, 3, is_sample_female=True),
    }


def _rng_states():
    import numpy as np
    st = np.random.get_state()
    return hashlib.sha1(repr((st[0], st[1].tobytes(), st[2:], _pyrandom.getstate())).encode()).hexdigest()


TRACE_CAP = 48


def _run_rng_trace(case):
    i = case["in"]
    env = fresh_env(i["ds"])
    f = _trace_entries()[i["fn"]]
    _seed_rngs(i.get("seed", 1))
    st0 = _rng_states()
    with _Recorder() as rec:
        f(env, i.get("variant", {}))
    trace = rec.trace
    if not trace and _rng_states() != st0:
        # the global generators moved although no call went through the module-level functions (a library drawing
        # from numpy's singleton RandomState directly, e.g. scipy.cluster.vq.kmeans2): an unseeded draw
        trace = [["draw", "hidden"]]
    # the model is handed the first TRACE_CAP operations: a recorded trace is accepted as a PREFIX of a path of the
    # skeleton, so a prefix of it is accepted whenever the whole is, and whether a draw precedes the first seeding is
    # decided at the very start; hundreds of identical draws only make the (backtracking) matcher slow
    return {"trace": trace[:TRACE_CAP], "trace_len": len(trace)}


# ---------------------------------------------------------------------------------------------
# op `gather`


def _gather_task(args):
    import time
    x, delay = args
    time.sleep(delay)
    return x * x + 1, time.time()


def _run_gather(case):
    from cnvlib import parallel
    i = case["in"]
    with parallel.pick_pool(i["procs"]) as pool:
        got = list(pool.map(_gather_task, list(zip(i["xs"], i["delays"]))))
    order = sorted(range(len(got)), key=lambda k: (got[k][1], k))
    return {"res": [g[0] for g in got], "order": order}


# ---------------------------------------------------------------------------------------------
# harness interface


def _self():
    import sys
    return sys.modules[__name__]


def run_impl(case):
    op = case["op"]
    if op in _c10ext.OPS:
        return _c10ext.run_impl(_self(), case)
    if op in _c10ext5.OPS:
        return _c10ext5.run_impl(_self(), case)
    if op == "history":
        return _run_history(case)
    if op == "ensure_path":
        return _run_ensure_path(case)
    if op == "rng_trace":
        return _run_rng_trace(case)
    if op == "gather":
        return _run_gather(case)
    raise ValueError(op)


def _failed(impl):
    return isinstance(impl, dict) and "__error__" in impl


def to_line(case, impl):
    op, i = case["op"], case["in"]
    if op in _c10ext.OPS:
        return _c10ext.to_line(_self(), case, impl)
    if op in _c10ext5.OPS:
        return _c10ext5.to_line(_self(), case, impl)
    if _failed(impl):
        impl_j = None
    if op == "history":
        steps = []
        for k, st in enumerate(i["steps"]):
            fresh = impl["steps"][k]["fresh"] if not _failed(impl) else ""
            steps.append({"name": base_of(st["name"]), "procs": procs_of(st["name"]), "uses": uses_of(st["name"]), "fresh": fresh})
        heap0 = impl["heap0"] if not _failed(impl) else [[] for _ in HEAP_NAMES]
        impl_j = None if _failed(impl) else {"steps": [{k: s[k] for k in ("res", "before", "after", "heap")} for s in impl["steps"]]}
        return {"op": op, "in": {"prefix": PREFIX, "heap": heap0, "steps": steps}, "impl": impl_j}
    if op == "ensure_path":
        return {"op": op, "in": {"pre": i["pre"], "path": i["path"], "writes": ["w%d" % k for k in range(i["writes"])],
                                 "guarded": i["guarded"]}, "impl": None if _failed(impl) else impl}
    if op == "rng_trace":
        return {"op": op, "in": {"fn": i["fn"]}, "impl": None if _failed(impl) else impl}
    if op == "gather":
        order = impl["order"] if not _failed(impl) else list(range(len(i["xs"])))
        return {"op": op, "in": {"xs": i["xs"], "order": order}, "impl": None if _failed(impl) else {"res": impl["res"]}}
    raise ValueError(op)


def judge(case, impl, resp):
    if _failed(impl):
        return ["raises_" + impl["__error__"]], [], None
    if "error" in resp:
        return [], ["driver error: " + str(resp["error"])], None
    op, out = case["op"], resp["out"]
    if op in _c10ext.OPS:
        return _c10ext.judge(_self(), case, impl, resp)
    if op in _c10ext5.OPS:
        return _c10ext5.judge(_self(), case, impl, resp)
    spec_fail = list(resp.get("spec") or [])
    disagree = []
    if op == "history":
        for a in impl["steps"]:
            # a step of the alphabet that cannot even be computed on fresh copies returns no table at all
            if a["fresh"].startswith("ERR:") and ("raises_" + a["fresh"].split(":")[1]) not in spec_fail:
                spec_fail.append("raises_" + a["fresh"].split(":")[1])
        for k, (a, b) in enumerate(zip(impl["steps"], out["steps"])):
            if a["res"] != b["res"]:
                disagree.append("step %d (%s): result %s, model (pure function) %s" % (k, case["in"]["steps"][k]["name"], a["res"], b["res"]))
            if a["heap"] != b["heap"]:
                disagree.append("step %d: list arguments %s, model %s" % (k, a["heap"], b["heap"]))
    elif op == "ensure_path":
        if impl["files"] != out["files"]:
            disagree.append("directory %s, model %s" % (impl["files"], out["files"]))
    elif op == "rng_trace":
        if not out.get("accepted"):
            disagree.append("trace %s is not a path of the extracted skeleton of %s (known=%s)" % (impl["trace"][:8], case["in"]["fn"], out["known"]))
        if case["in"].get("listed") is not None and out["known"] != case["in"]["listed"]:
            disagree.append("RNG table %s %s" % ("misses" if case["in"]["listed"] else "unexpectedly lists", case["in"]["fn"]))
    elif op == "gather":
        if [x for x in out["res"]] != impl["res"]:
            disagree.append("pool.map gave %s, ordered-gather model %s" % (impl["res"], out["res"]))
    return spec_fail, disagree, None


def nontrivial(case, impl, resp):
    if _failed(impl):
        return False
    op, i = case["op"], case["in"]
    if op in _c10ext.OPS:
        return _c10ext.nontrivial(_self(), case, impl, resp)
    if op in _c10ext5.OPS:
        return _c10ext5.nontrivial(_self(), case, impl, resp)
    if op == "history":
        return len(i["steps"]) >= 2 or any("@p" in s["name"] for s in i["steps"])
    if op == "ensure_path":
        return i["writes"] >= 2 or any(n == i["path"] for n, _t in i["pre"])
    if op == "rng_trace":
        return any(o[0] == "draw" for o in impl["trace"])
    if op == "gather":
        return impl["order"] != sorted(impl["order"]) or i["procs"] > 1
    return True


# -- generators


def _hist(ds, names, rng, tag):
    return {"op": "history", "tag": tag, "in": {"ds": ds, "steps": [{"name": n, "seed": rng.randrange(2 ** 31)} for n in names]}}


def _ensure_case(rng, tag="ensure_path"):
    path = rng.choice(["out.cnn", "out.cnn", "ref.cnn", "sub/out.cnn", "a.b/c.d.cnn"])
    pool = [path, path + ".1", path + ".2", path + ".3", path + ".4", path + ".01", path + ".1.1", path + ".x", path + "1",
            "other.cnn", "other.cnn.1", path + ".10"]
    k = rng.random()
    if k < 0.25:
        pre = []
    elif k < 0.5:
        pre = [path]
    else:
        pre = [n for n in pool if rng.random() < 0.35]
    if rng.random() < 0.15:  # many consecutive backups already there
        pre = [path] + [path + ".%d" % j for j in range(1, rng.randint(2, 12))]
    pre = sorted(set(pre))
    rel = rng.choice([None, None, "plain", "dot", "dotdot"])
    return {"op": "ensure_path", "tag": tag + ("-existing" if path in pre else "-new") + ("-rel" if rel else ""),
            "in": {"pre": [[n, "pre:%d:%s" % (j, n)] for j, n in enumerate(pre)], "path": path,
                   "writes": rng.randint(1, 5), "guarded": True, "rel": rel}}


TRACE_VARIANTS = {
    "cnvlib.fix.center_by_window": [{}, {"series": True}, {"fraction": 0.3}],
    "cnvlib.fix.do_fix": [{}, {"gc": False}, {"edge": False, "rmask": False}, {"gc": False, "edge": False, "rmask": False}],
    "cnvlib.fix.load_adjust_coverages": [{}, {"rmask": False}],
    "cnvlib.segmetrics.confidence_interval_bootstrap": [{}, {"k": 1}, {"smoothed": True}, {"smoothed": True, "k": 2, "bootstraps": 5},
                                                        {"alpha": 0.5, "bootstraps": 3}, {"k": 40, "bootstraps": 100}],
    "cnvlib.segmetrics._smooth_samples_by_weight": [{}, {"n": 0}],
    "cnvlib.segmetrics.make_ci_func": [{}],
    "cnvlib.segmetrics.do_segmetrics": [{}, {"smoothed": True, "bootstraps": 10}, {"ivl": ["pi"]}, {"ivl": ["ci"], "alpha": 0.2}],
    "cnvlib.reference.do_reference": [{}, {"edge": False}, {"samples": 1}, {"tkey": "tgt_gc", "gc": True}],
    "cnvlib.reference.bias_correct_logr": [{}, {"gc": False}, {"edge": False, "rmask": True}, {"gc": False, "edge": False}],
    "cnvlib.reference.load_sample_block": [{}, {"tkey": "tgt_gc"}, {"tkey": "tgt_gc", "edge": False, "samples": 3}, {"gc": False, "edge": False}],
    "cnvlib.reference.combine_probes": [{}, {"anti": False, "tkey": "tgt_gc"}, {"edge": False}],
    "cnvlib.rna.correct_cnr": [{}, {"txlen": False}, {"gc": False, "txlen": False}],
    "cnvlib.bintest.do_bintest": [{}], "cnvlib.metrics.do_metrics": [{}], "cnvlib.export.export_vcf": [{}],
    "cnvlib.vary.VariantArray.baf_by_ranges": [{}], "cnvlib.segmentation.hmm.variants_in_segment": [{}],
    "cnvlib.reports.do_breaks": [{}],
    "skgenome.gary.GenomicArray.shuffle": [{}],
    "cnvlib.segmentation.do_segmentation": [{"method": "haar"}, {"method": "hmm"}, {"method": "hmm-tumor"},
                                            {"method": "hmm-germline"}, {"method": "none"}],
    "cnvlib.call.do_call": [{}],
    "cnvlib.reports.do_genemetrics": [{}],
}
UNLISTED = {"cnvlib.segmentation.do_segmentation", "cnvlib.call.do_call", "cnvlib.reports.do_genemetrics",
            "cnvlib.bintest.do_bintest", "cnvlib.metrics.do_metrics", "cnvlib.export.export_vcf",
            "cnvlib.vary.VariantArray.baf_by_ranges", "cnvlib.segmentation.hmm.variants_in_segment", "cnvlib.reports.do_breaks"}


def _trace_cases(rng, ds, n):
    out = []
    allv = [(fn, v) for fn, vs in TRACE_VARIANTS.items() for v in vs]
    if n < len(allv):
        allv = allv[:]
        rng.shuffle(allv)
        allv = sorted(allv[:n], key=lambda x: x[0])
    for fn, v in allv:
        out.append({"op": "rng_trace", "tag": fn.rsplit(".", 1)[1],
                    "in": {"fn": fn, "ds": ds, "variant": v, "seed": rng.randrange(2 ** 31), "listed": fn not in UNLISTED}})
    return out


def _gather_case(rng):
    n = rng.choice([0, 1, 2, 3, 5, 8, 12])
    procs = rng.choice([1, 2, 3, 16, 2, 3, 0])  # 0 (or less): "as many as there are CPUs"
    xs = [rng.randint(-50, 50) for _ in range(n)]
    k = rng.random()
    if k < 0.5:  # later tasks finish first
        delays = [round(0.03 * (n - j) / max(1, n), 4) for j in range(n)]
    else:
        delays = [round(rng.choice([0.0, 0.005, 0.02, 0.04]), 4) for _ in range(n)]
    return {"op": "gather", "tag": "p%d" % procs, "in": {"xs": xs, "delays": delays, "procs": procs}}


def _ds_id(rng, k):
    """data-set ids cycle through the representations: even k = plain tables (0..n-1 index, chr names, chrY present),
    odd k = alternative (filtered subsets, permuted optional columns, Ensembl names); the other bits are random"""
    s = rng.randrange(1, 10 ** 6) * 16
    return s + (rng.randrange(2)) + 2 * (k % 2) + 4 * (rng.randrange(3) if k % 2 == 0 else rng.randrange(4))


def gen_cases(rng, tier):
    cases = []
    nds = {"quick": 2, "thorough": 4, "search": 2}[tier]
    dss = [_ds_id(rng, k) for k in range(nds)]
    allops = BASE_OPS + PAR_OPS
    ext = EXT_OPS + EXT_PAR
    if tier == "quick":
        # exhaustive: every history of length <= 2 over the base alphabet; worker-count variants and the extension ops
        # alone on both representations, repeated, and before / after a sampled partner
        for n in allops:
            for ds in dss:
                cases.append(_hist(ds, [n], rng, "len1"))
        for a in BASE_OPS:
            for b in BASE_OPS:
                cases.append(_hist(dss[(BASE_OPS.index(a) + BASE_OPS.index(b)) % nds], [a, b], rng, "len2"))
        for a in PAR_OPS:
            for b in rng.sample(BASE_OPS, 3) + [a, base_of(a)]:
                cases.append(_hist(rng.choice(dss), [a, b], rng, "len2-workers"))
                cases.append(_hist(rng.choice(dss), [b, a], rng, "len2-workers"))
        for k, a in enumerate(ext):
            # alone on one representation, repeated on the other (the first step of that history is `a` alone)
            cases.append(_hist(dss[k % nds], [a, a], rng, "len2-ext"))
            cases.append(_hist(dss[(k + 1) % nds], [a], rng, "len1-ext"))
            if base_of(a) not in HEAVY_EXT:
                cases.append(_hist(dss[(k + 1) % nds], [a, rng.choice(BASE_OPS + EXT_OPS)], rng, "len2-ext"))
                cases.append(_hist(dss[k % nds], [rng.choice(BASE_OPS + EXT_OPS), a], rng, "len2-ext"))
        n_ep, n_tr, n_ga, n_long = 160, 140, 24, 40
    elif tier == "thorough":
        for n in allops + ext:
            for ds in dss:
                cases.append(_hist(ds, [n], rng, "len1" if n in allops else "len1-ext"))
        for a in allops:
            for b in allops:
                if not (a.endswith("@p16") and b.endswith("@p16")):
                    cases.append(_hist(rng.choice(dss), [a, b], rng, "len2"))
        for a in ext:
            for b in [a] + rng.sample(allops + ext, 14):
                cases.append(_hist(rng.choice(dss), [a, b], rng, "len2-ext"))
                cases.append(_hist(rng.choice(dss), [b, a], rng, "len2-ext"))
        n_ep, n_tr, n_ga, n_long = 1200, 140, 80, 3500
    else:  # search: biased to the steps that reach the generators, the pools and the list arguments
        n_ep, n_tr, n_ga, n_long = 200, 140, 10, 500
    allops = allops + ext
    hot = ["fix", "segmetrics", "segmetrics-smooth", "call-ci-cn", "call-sem", "call-cc", "by_gene-list", "squash_genes-list",
           "transfer_fields-list", "gene_intervals-list", "call-threshold", "center_all-copy", "merge", "export-vcf",
           "call-vcf-thr-purity", "call-clb", "fix-unsorted", "fix-noanti", "segment-hmm-vcf", "segmetrics-clb-smooth-skip",
           "reference", "chain-batch", "metrics-lists", "squash_genes-ref", "genemetrics-guess"] + PAR_OPS + EXT_PAR
    for _ in range(n_long):
        ln = rng.choice([3, 4, 4]) if tier != "search" else rng.choice([1, 2, 3])
        names = [rng.choice(hot if (tier == "search" or rng.random() < 0.35) else allops) for _ in range(ln)]
        if rng.random() < 0.3:
            names[-1] = names[0]  # repeated
        # keep the 16-worker pools rare: they dominate the wall time
        names = [n if not n.endswith("@p16") or rng.random() < 0.3 else
                 (n.replace("@p16", "@p2") if n.replace("@p16", "@p2") in allops else base_of(n)) for n in names]
        cases.append(_hist(rng.choice(dss), names, rng, "len%d" % ln))
    for _ in range(n_ep):
        cases.append(_ensure_case(rng))
    for _ in range(max(1, n_ep // 40)):
        c = _ensure_case(rng, "plain_write")
        c["in"]["guarded"] = False
        cases.append(c)
    cases += _trace_cases(rng, dss[0], n_tr)
    for _ in range(n_ga):
        cases.append(_gather_case(rng))
    cases += _c10ext.gen_cases(_self(), rng, tier, dss)   # round 4: library draws, alias probes (after the others: case i of seed s stays case i)
    cases += _c10ext5.gen_cases(_self(), rng, tier, dss)  # round 5: real commands into one output path, four spellings
    only = os.environ.get("C10_ONLY")  # development (mutation runs): keep only the cases whose tag contains one of these
    if only:
        cases = [c for c in cases if any(t in str(c.get("tag", "")) for t in only.split(","))]
    return cases


def corpus():
    rng = _pyrandom.Random(10)
    ds = 77
    cs = []
    # J: do_call removes ci / sem from the caller's filter list; the second call sees another list
    cs.append(_hist(ds, ["call-ci-cn", "call-ci-cn"], rng, "corpus-J-filters"))
    cs.append(_hist(ds, ["call-sem", "call-sem"], rng, "corpus-J-filters"))
    cs.append(_hist(ds, ["call-cc"], rng, "corpus-J-filters"))
    # J: `ignore += ANTITARGET_ALIASES` extends a caller-supplied list
    for n in ("by_gene-list", "squash_genes-list", "transfer_fields-list", "gene_intervals-list"):
        cs.append(_hist(ds, [n], rng, "corpus-J-ignore"))
    cs.append(_hist(ds, ["by_gene-list", "gene_intervals-list", "by_gene-list"], rng, "corpus-J-ignore"))
    cs.append(_hist(ds, ["by_gene-tuple", "by_gene-tuple"], rng, "corpus-tuple"))
    # the same on the alternative representation (filtered subsets, permuted optional columns, Ensembl names, chrY)
    for names in (["call-ci-cn", "call-ci-cn"], ["by_gene-list", "squash_genes-ref"], ["call-vcf-thr-purity", "call-vcf-thr-purity"],
                  ["fix-unsorted", "fix"], ["fix-noanti", "fix-noanti"], ["chain-batch"], ["reference", "reference"],
                  ["autosomes-also", "keep_columns"], ["genemetrics-guess", "genemetrics-guess"], ["export-nexus-ogt", "bintest"],
                  ["segment-hmm-vcf", "segment-hmm-skip"], ["metrics-lists", "sex"]):
        cs.append(_hist(82, names, rng, "corpus-alt"))
    # boundary cases of the numbered backups
    for pre, k in (([], 1), (["out.cnn"], 1), (["out.cnn", "out.cnn.1"], 2), (["out.cnn", "out.cnn.2"], 3),
                   (["out.cnn.1"], 2), (["out.cnn"] + ["out.cnn.%d" % j for j in range(1, 11)], 2)):
        cs.append({"op": "ensure_path", "tag": "corpus", "in": {"pre": [[n, "pre:" + n] for n in pre], "path": "out.cnn",
                                                               "writes": k, "guarded": True}})
    cs += _c10ext.corpus(_self())
    cs += _c10ext5.corpus(_self())
    return cs


def shrink(case):
    i = case["in"]
    if case["op"] == "history":
        st = i["steps"]
        for k in range(len(st)):
            if len(st) > 1:
                yield {**case, "in": {**i, "steps": st[:k] + st[k + 1:]}}
        for k, s in enumerate(st):
            if "@p" in s["name"]:
                yield {**case, "in": {**i, "steps": st[:k] + [{**s, "name": base_of(s["name"]) + "@p2"}] + st[k + 1:]}}
    elif case["op"] == "ensure_path":
        for k in range(len(i["pre"])):
            yield {**case, "in": {**i, "pre": i["pre"][:k] + i["pre"][k + 1:]}}
        if i["writes"] > 1:
            yield {**case, "in": {**i, "writes": i["writes"] - 1}}
