"""C05, round 5 -- the `sexes` dictionary `do_reference` hands to `combine_probes`, observed from the real run (a spy
around `cnvlib.reference.combine_probes`, which `do_reference` looks up in its module at call time) and compared with
the model's `resolveSexes` applied to the real per-file `guess_xx` answers (theorems
`sample_without_antitarget_answer_keeps_its_target_answer`, `unanswered_antitarget_files_change_nothing`,
`inferred_sexes_antitargets_override`).  Entries whose value is None count as absent (`sexes.get(id)` is None either
way)."""
from __future__ import annotations

import contextlib

CLAUSE = "sexes_dictionary_is_target_answers_overridden_per_sample_by_antitarget_answers"


class SexesSpy:
    def __init__(self):
        self.seen = []

    @contextlib.contextmanager
    def wrap(self, inner):
        from cnvlib import reference as _ref
        orig = _ref.combine_probes

        def spy(*a, **k):
            sexes = a[5] if len(a) > 5 else k.get("sexes")
            try:
                self.seen.append(sorted([str(i), None if v is None else bool(v)] for i, v in dict(sexes).items()))
            except Exception:
                self.seen.append("unreadable")
            return orig(*a, **k)
        _ref.combine_probes = spy
        try:
            with inner:
                yield
        finally:
            _ref.combine_probes = orig

    def result(self):
        return self.seen[0] if len(self.seen) == 1 and self.seen[0] != "unreadable" else None


def clause(impl, resp):
    """[] or [CLAUSE]: the real dictionary against the model's"""
    real = impl.get("sexes_real") if isinstance(impl, dict) else None
    model = resp.get("sexes")
    if real is None or model is None or not impl.get("sex_inputs"):
        return []
    r = {i: v for i, v in real if v is not None}
    m = {i: bool(v) for i, v in model}
    return [] if r == m else [CLAUSE]


def gen(r, cohort, n):
    """`n` cohorts with inferred sexes whose antitarget files are all header-only (no antitarget answer for anybody:
    every sample must keep the answer of its target file), at least one sample female and X / Y among the targets"""
    cases = []
    for _ in range(n):
        for _ in range(4000):
            c = cohort(r, ideal=False)
            i = c["in"]
            if (i["with_anti"] and i["empty_anti"] and i["given"] is None and i["x_layout"] == "both" and i["k"] >= 2
                    and any(s.get("female") for s in i["samples"]) and not i.get("cluster")):
                c["tag"] = "sexglue-header-only-antitargets"
                cases.append(c)
                break
    return cases
