"""C18 -- VCF genotypes become allele frequencies and per-segment BAF as defined."""
from __future__ import annotations

import math
import os
import shutil
import tempfile
from fractions import Fraction

from ..core import frac

LEVEL = "proof"
RULE = ("synthetic VCF text (1..3 sample columns, 0..2 PEDIGREE tags incl. tags without Derived / without Original / "
        "naming unknown samples, Original= before or after Derived=, in 2 of 5 files other header records the reader "
        "has to look past: ##source, ##reference, ##SAMPLE, GATKCommandLine of other tools, and -- only next to a "
        "PEDIGREE record, which comes first -- MuTect / MuTect2 command lines; AD declared Number=R or Number=1, "
        "per-record FORMAT subsets of GT:AD:DP, trailing "
        "fields dropped, missing DP / AD / half-missing AD / one-entry AD, genotypes 0/0 0/1 1/1 phased haploid "
        "./. 0/. ., SNVs insertions deletions, a few multi-allelic and <NON_REF> records, SOMATIC, FILTER PASS . q10 "
        "KEEP, INFO DP present or not, 0..40 (some up to 500) records on 1..3 contigs (chrN / N / chrM / "
        "chr1_..._random names) in cnvkit's or in file order, "
        "duplicate positions) x sample/normal selectors (None, name, position incl. negative and out of range, "
        "unknown name, empty string, the same sample twice) x min_depth x skip_reject x skip_somatic through "
        "tabio.read(.., 'vcf'); x min_variant_depth x zygosity_freq (None, dyadic and decimal thresholds, > 0.5) x "
        "tumor_boost through cmdutil.load_het_snps, 1 in 10 multi-sample files Mutect2-style (every genotype of "
        "the normal 0/0 or missing, pair declared by PEDIGREE or by the ids, zygosity_freq mostly left out); "
        "in 3 of 10 API cases every argument that equals the callee's default is left out of the call (keywords "
        "only), otherwise all are passed; variant tables of 0..60 rows (zygosity 0/0.5/1, dyadic and "
        "arbitrary frequencies, with/without normal columns, rows removed beforehand so that index labels have "
        "gaps) x segment tables (tiling, gapped, overlapping, nested, unsorted within a chromosome, foreign / "
        "missing chromosomes, empty; as a 3-column GenomicArray or a CopyNumArray; in half of the cases a "
        "filtered subset of a longer table, i.e. index labels with gaps) x "
        "(+ a few tables with interleaved chromosomes: model only, spec not applied) x "
        "above_half x tumor_boost through VariantArray.baf_by_ranges and mirrored_baf, 15 % on an object that "
        "has answered other BAF / zygosity questions before; VariantArray.tumor_boost() read by row label; "
        "the whole chain VCF -> load_het_snps -> do_call(variants=, purity=) -> baf column and VCF -> load_het_snps "
        "-> do_segmentation(bins, 'none', variants=) -> baf column of the segments it returns (6..30 bins per "
        "contig); _tumor_boost and rescale_baf on number "
        "grids; about 10 % of all cases (every one tagged cli-*) run that whole chain through the command line instead: `cnvkit.py call SEG.cns -v/--vcf VCF -o OUT [-m none|clonal|threshold or left out] [-i/--sample-id NAME] [-n/--normal-id NAME] [--min-variant-depth N, or left out = 20] [-z/--zygosity-freq [F], bare = 0.25] [--purity P]` (3 in 5), `cnvkit.py export nexus-ogt SEG.cns VCF -o OUT [-i] [-n] [-m/--min-variant-depth N] [-z [F]]` (1 in 5) or `cnvkit.py segment BINS.cnr -v VCF -m none -o OUT [-i] [-n] [--min-variant-depth N] [-z [F]] [-p 1]` (1 in 5), option order shuffled, the baf / B-Allele Frequency column taken from the table handed to the writer and the written file checked to read back equal to it within 1e-5. "
        "Generated only with VERIF_C18_BAF_LABELS=1 (open finding proposed_fixes/C18-baf-labels-not-ranges.md): "
        "haar staircases through do_segmentation / segment -v (several segments per arm), nexus-ogt -w/--min-weight, "
        "filtered segment tables handed to do_call. "
        "The option glue alone (op vcf_cliopts, 200 / 1500 cases): for each of the five commands that call load_het_snps "
        "(segment, call, scatter, export theta, export nexus-ogt) an argument vector with -i/--sample-id, -n/--normal-id, "
        "--min-variant-depth (-m where the command has it; incl. the default value spelled out) and -z/--zygosity-freq "
        "(left out, bare, with a number) given or left out in shuffled order; the command runs as cnvkit.py runs it up to "
        "its load_het_snps call, whose received arguments (bound to the callee's parameter names) are the observable. "
        "Header-declared pairs of the GATK conventions (360 / 2400 reads + 180 / 1200 load_het_snps, tags pairs-*): real "
        "##GATKCommandLine=<ID=MuTect,..,CommandLineOptions=\"..\"> lines (tumor_sample_name / normal_sample_name among "
        "shuffled other tokens, bare tokens, values with '=', 1..3 blanks; tumor_sample_name missing / naming no sample; "
        "normal_sample_name or CommandLineOptions missing = KeyError cell; a key given twice; records of other tools) and "
        "##GATKCommandLine.MuTect2 lines (structured or not) on 2 samples (NORMAL,TUMOR / TUMOR,NORMAL / other names) and on "
        "1 / 3 samples; MuTect + MuTect2, other tool + MuTect2, PEDIGREE (with / without Derived, or unstructured) + either, "
        "x sample_id / normal_id selectors (none, the declared tumour, any, position). "
        "non-trivial = a read with >= 1 record and an existing sample, a BAF with >= 1 heterozygous row "
        "inside some range; distinct by hash of the case")
EXHAUSTIVE = {"quick": False, "thorough": False}
ASSUMPTIONS = [
    "the VCF has at least one sample column and only GT, AD, DP sample fields (no CLCAD2 / AO), no INFO/END, INFO/AF",
    "frequencies handed to baf_by_ranges / mirrored_baf are finite (a record with DP=0 and a positive alt count "
    "gives an infinite alt_freq: covered by the reading op only)",
    "variant tables are sorted the way tabio.read returns them; segment tables keep each chromosome's rows "
    "together (interleaved tables are run for the correspondence only: results come back chromosome by chromosome)",
    "do_segmentation: the segments are the code's answer (they must partition each chromosome's bins; what they are "
    "beyond that belongs to C11 / C16), at most 50 records fall into one segment (above that the allele-frequency "
    "HMM of pomegranate re-segments)",
    "TumorBoost is not requested on a table without any row (_tumor_boost raises TypeError inside pandas there); "
    "an empty VCF read with skip_somatic loses its optional columns (modelled as is: `paired` is false)",
    "the mirroring side is an open observable when above_half is None: a value and 1 - value agree",
    "float thresholds: the model compares exact count/depth with the exact value of the threshold double; cases "
    "within 1e-9 of a threshold or with a median within 1e-9 of 0.5 are skipped as knife-edge unless all inputs "
    "are dyadic (float arithmetic exact)",
]
TRUSTED_EXTRA = [
    "pysam.VariantFile parsing of the synthetic VCF text into header samples / PEDIGREE items / record fields "
    "(the model takes that view as data; the harness renders the text from the same data)",
    "pandas DataFrame.from_records NaN coercion, Series division (x/0 = inf, 0/0 = NaN), fillna, boolean masks, "
    "label alignment of Series assignment, Series.median / np.nanmedian",
    "Model/Ranges.lean iterSlices = skgenome.intersect.iter_slices (tied by C07)",
    "the GATKCommandLine record as data (Model/VcfPairs.lean): its ID item and the whitespace tokens of its CommandLineOptions "
    "item, each cut at the first '=' -- the harness renders the text from the token list; str.strip / split are not modelled",
    "harness/dectrans.py: the reading of the if / elif / return structure of vcfio._extract_genotype, _get_alt_count, "
    "_safesum (rules at the top of the file) and the vocabulary of harness/extractors/vcf_decisions.py (source text of each "
    "condition / value -> atom name; the Lean definitions Src.hasAD, adIsTuple, adGiven, adHasSecond, severalAlleles, "
    "onlyAlleleIsRef, depthFrom, altFrom say what each atom means on the model's data)",
    "harness/yieldtrans.py: the reading of the if / elif / elif chain and of one pass of each arm of the generator "
    "vcfio._parse_pedigrees (rules at the top of the file) and the vocabulary of harness/extractors/vcf_pedkeys.py (the Lean "
    "definitions SrcPed.armPairs, yieldOf, consY of Props/C18SrcPed.lean say what each arm / yielded expression means on the "
    "model's header); harness/pipetrans.py: the reading of how vcfio._choose_samples builds, filters, checks and indexes its "
    "`pairs` list from `pairs = None` on, and the vocabulary of harness/extractors/vcf_choose.py (SrcChoose.* of "
    "Props/C18SrcChoose.lean); the statements of _choose_samples BEFORE `pairs = None` (integer selectors, 'id not in the file') "
    "are tied by the correspondence run only",
    "harness/extractors/vcf_consts.py: which argparse declarations belong to which command (parser variable with "
    "set_defaults(func=_cmd_x) and its argument groups) and the reading of a command's load_het_snps call as positional "
    "binding to the callee's parameter list",
]

ERRS = ("IndexError", "KeyError", "AssertionError", "ValueError")

# Open finding (proposed_fixes/C18-baf-labels-not-ranges.md): `baf_by_ranges` numbers its answer 0..n-1 and its
# callers store it as a column, which pandas matches by LABEL.  Wherever the ranges are not labelled 0..n-1 the
# values move to other rows: `do_call` on a filtered segment table, `export nexus-ogt --min-weight` (the light
# bins are filtered away first), `do_segmentation(variants=)` as soon as an arm has more than one segment (every
# re-segmented piece is labelled 0).  Until that is repaired these three cells are generated only with
# VERIF_C18_BAF_LABELS=1 (the rest of each path is generated always); `baf_by_ranges` itself is run on such ranges.
BAF_LABELS_REPAIRED = True   # finding AZ fixed in /repo (f61681a): the gated cells are always generated
CONTIG_SETS = [("chr1",), ("chr1", "chr2"), ("chr1", "chr2", "chrX"), ("1", "2", "X"), ("chr2", "chr10", "chrY"),
               ("chrX",), ("chr3", "chr1"), ("chr1", "chrM"), ("chr2", "chr1_KI270706v1_random")]
GTS = [[0, 0], [0, 1], [0, 1], [0, 1], [1, 1], [1, 0], [None, None], [0, None], [None, 1], [1], [0], [None], [1, 1]]


# ---------------------------------------------------------------------------------------------
# VCF data -> text (the harness side of the pysam contract)


def _render_smp(fmt, smp, ad_number):
    out = []
    for key in fmt:
        if key == "GT":
            out.append(("|" if smp["phased"] else "/").join("." if a is None else str(a) for a in smp["gt"]))
        elif key == "AD":
            ad = smp["ad"]
            if ad_number == "1":
                out.append("." if ad is None else str(ad))
            else:
                out.append(",".join("." if a is None else str(a) for a in ad))
        elif key == "DP":
            out.append("." if smp["dp"] is None else str(smp["dp"]))
    if smp.get("trunc"):
        while len(out) > 1 and out[-1] == ".":
            out.pop()
    return ":".join(out)


def vcf_text(v):
    lines = ["##fileformat=VCFv4.2"] + list(v.get("extra_headers") or [])
    for c in v["contigs"]:
        lines.append(f"##contig=<ID={c},length=100000000>")
    lines += ['##INFO=<ID=DP,Number=1,Type=Integer,Description="depth">',
              '##INFO=<ID=SOMATIC,Number=0,Type=Flag,Description="somatic">',
              '##FILTER=<ID=q10,Description="low quality">', '##FILTER=<ID=KEEP,Description="keep">',
              '##FILTER=<ID=s50,Description="s50">', '##ALT=<ID=NON_REF,Description="gvcf">',
              '##FORMAT=<ID=GT,Number=1,Type=String,Description="genotype">',
              f'##FORMAT=<ID=AD,Number={v["ad_number"]},Type=Integer,Description="allelic depths">',
              '##FORMAT=<ID=DP,Number=1,Type=Integer,Description="depth">']
    for tag in v["tags"]:
        lines.append("##PEDIGREE=<" + ",".join(f"{k}={val}" for k, val in tag) + ">" if tag else "##PEDIGREE=none")
    lines += _gatk_lines(v)
    lines.append("#CHROM\tPOS\tID\tREF\tALT\tQUAL\tFILTER\tINFO\tFORMAT\t" + "\t".join(v["samples"]))
    for r in v["records"]:
        info = ";".join(([f"DP={r['info_dp']}"] if r["info_dp"] is not None else []) +
                        (["SOMATIC"] if r["somatic"] else [])) or "."
        lines.append("\t".join([r["chrom"], str(r["pos"]), ".", r["ref"], ",".join(r["alts"]) or ".", "50",
                                ";".join(r["filter"]) or ".", info, ":".join(r["fmt"])] +
                               [_render_smp(r["fmt"], s, v["ad_number"]) for s in r["smps"]]))
    return "\n".join(lines) + "\n"


def _gatk_lines(v):
    """the ##GATKCommandLine / ##GATKCommandLine.MuTect2 records of the `gatk` / `mutect2` entries (Model/VcfPairs.lean):
    the option tokens joined by the record's own whitespace pattern inside a quoted CommandLineOptions item"""
    out = []
    for g in v.get("gatk") or []:
        items = ([f"ID={g['id']}"] if g["id"] is not None else []) + ["Version=3.1"]
        if g["opts"] is not None:
            sep = g.get("sep") or " "
            text = sep.join(k if val is None else f"{k}={val}" for k, val in g["opts"])
            items.append('CommandLineOptions="' + (g.get("lead") or "") + text + '"')
        out.append("##GATKCommandLine=<" + ",".join(items) + ">")
    if v.get("mutect2"):
        out.append(v["mutect2"] if isinstance(v["mutect2"], str) else
                   '##GATKCommandLine.MuTect2=<ID=MuTect2,Version=3.8,CommandLineOptions="analysis_type=MuTect2 dbsnp=x.vcf">')
    return out


def _model_smp(fmt, smp, ad_number):
    if "AD" not in fmt:
        ad = None
    elif ad_number == "1":
        ad = {"s": smp["ad"]}
    else:
        ad = {"t": list(smp["ad"])}
    return [list(smp["gt"]), "DP" in fmt, smp["dp"] if "DP" in fmt else None, ad]


def model_vcf(v):
    """the view pysam gives of the file, as the Lean model takes it"""
    m = {"samples": v["samples"], "tags": v["tags"],
         "records": [[r["chrom"], r["pos"], r["ref"], r["alts"], r["filter"], r["info_dp"], r["somatic"],
                      [_model_smp(r["fmt"], s, v["ad_number"]) for s in r["smps"]]] for r in v["records"]]}
    if v.get("gatk"):
        m["gatk"] = [{"id": g["id"], "opts": g["opts"]} for g in v["gatk"]]
    if v.get("mutect2"):
        m["mutect2"] = True
    return m


# ---------------------------------------------------------------------------------------------
# generation


def _gen_smp(rng, ad_number, nalt, dyadic, het_rich=False):
    gt = list(rng.choice(GTS))
    if het_rich and rng.random() < 0.5:
        gt = [0, 1]
    if nalt > 1 and rng.random() < 0.5:
        gt = [rng.randint(0, nalt), rng.randint(0, nalt)]
    dp = rng.choice([8, 16, 32, 64]) if dyadic else rng.choice([0, 1, 5, 19, 20, 21, 30, 30, 47, 60, 100, rng.randint(0, 200)])
    if het_rich and dp < 20 and rng.random() < 0.7:
        dp = 32 if dyadic else rng.randint(20, 90)
    if gt == [0, 0] or gt == [0]:
        alt = rng.choice([0, 0, 0, 1])
    elif len(set(gt)) > 1:
        alt = dp // 2 if rng.random() < 0.3 else rng.randint(0, dp)
    else:
        alt = dp if rng.random() < 0.5 else rng.randint(dp // 2, dp)
    alt = min(alt, dp)
    if rng.random() < 0.06 and not dyadic:
        alt = rng.randint(0, 60)  # AD inconsistent with DP (alt_freq may exceed 1)
    if ad_number == "1":
        ad = alt if rng.random() < 0.92 else None
    else:
        r = rng.random()
        ad = [dp - alt if dp >= alt else rng.randint(0, 9), alt] + [rng.randint(0, 3) for _ in range(nalt - 1)]
        if r < 0.04:
            ad = [None]
        elif r < 0.07:
            ad = [ad[0], None]
        elif r < 0.09:
            ad = [None, ad[1]]
        elif r < 0.10:
            ad = [None, None]
        elif r < 0.12:
            ad = [ad[0]]
    if rng.random() < 0.08:
        dp = None
    return {"gt": gt, "phased": rng.random() < 0.2, "ad": ad, "dp": dp, "trunc": rng.random() < 0.3}


def gen_vcf(rng, nmax=40, biallelic_only=False, dyadic=False, allow_inf=False, ns=None, het_rich=False):
    ns = ns or rng.choice([1, 1, 2, 2, 3])
    names = rng.choice([["S0", "S1", "S2"], ["TUMOR", "NORMAL", "X9"], ["b", "a", "c"]])[:ns]
    tags = []
    r = rng.random()
    if ns >= 2 and r < 0.4:
        t, n = rng.sample(names, 2)
        tags.append([["Derived", t], ["Original", n]])
        if rng.random() < 0.25:
            t2, n2 = rng.sample(names, 2)
            tags.append([["Derived", t2], ["Original", n2]] + ([["Foo", "bar"]] if rng.random() < 0.5 else []))
        if rng.random() < 0.1:
            tags.insert(0, [["Child", names[0]], ["Mother", names[-1]]])
    elif r < 0.45:
        tags.append([["Child", names[0]], ["Mother", names[-1]]])
    elif r < 0.47:
        tags.append([["Derived", names[0]], ["Mother", names[-1]]])  # KeyError 'Original'
    elif r < 0.49:
        tags.append([["Derived", "nobody"], ["Original", names[0]]])
    elif r < 0.50:
        tags.append([["Derived", names[0]], ["Original", names[0]]])
    ad_number = rng.choice(["R", "R", "R", "R", "1", "."])
    contigs = list(rng.choice(CONTIG_SETS))
    fmt_style = rng.choice(["full", "full", "mixed", "mixed", "gt_only", "no_dp", "no_ad"])
    nrec = rng.choice([0, 1, 2, 3]) if rng.random() < 0.15 else rng.randint(1, nmax)
    recs = []
    for c in contigs:
        pos = 0
        k = nrec // len(contigs) + (1 if rng.random() < 0.5 else 0)
        for _ in range(k):
            step = rng.choice([0, 1, 1, 2, 5, 50, 1000, 20000]) if rng.random() < 0.5 else rng.randint(1, 3000)
            pos += step
            pos = max(pos, 1)
            kind = rng.random()
            if kind < 0.6:
                ref, alts = rng.choice("ACGT"), [rng.choice("ACGT")]
            elif kind < 0.78:
                ref, alts = rng.choice(["A", "C"]), [rng.choice(["AT", "ACGT", "CTTTTTTTT", "GA"])]  # insertion
            elif kind < 0.94:
                ref, alts = rng.choice(["AT", "ACGT", "CTTTTTTTT"]), [rng.choice(["A", "C"])]  # deletion
            elif biallelic_only:
                ref, alts = "AC", ["GT"]
            elif kind < 0.97:
                ref, alts = "A", [rng.choice("CG"), "T"]
            elif kind < 0.985:
                ref, alts = "A", ["G", "<NON_REF>"]
            else:
                ref, alts = "A", []
            if fmt_style == "full":
                fmt = ["GT", "AD", "DP"]
            elif fmt_style == "gt_only":
                fmt = ["GT"]
            elif fmt_style == "no_dp":
                fmt = ["GT", "AD"]
            elif fmt_style == "no_ad":
                fmt = ["GT", "DP"]
            else:
                fmt = rng.choice([["GT", "AD", "DP"], ["GT", "AD", "DP"], ["GT", "AD"], ["GT", "DP"], ["GT"], ["GT", "DP", "AD"]])
            smps = [_gen_smp(rng, ad_number, max(1, len(alts)), dyadic, het_rich) for _ in names]
            if not allow_inf:
                for s in smps:  # no DP=0 next to a positive alt count (infinite frequency)
                    if "DP" in fmt and s["dp"] == 0:
                        s["dp"] = 1 if rng.random() < 0.5 else None
            recs.append({"chrom": c, "pos": pos, "ref": ref, "alts": alts,
                         "filter": rng.choice([["PASS"], ["PASS"], ["PASS"], [], ["q10"], ["KEEP"], ["q10", "s50"]]),
                         "info_dp": rng.choice([None, 0 if allow_inf else 1, 30, rng.randint(1, 300)]) if rng.random() < 0.75 else None,
                         "somatic": rng.random() < 0.15, "fmt": fmt, "smps": smps})
    if rng.random() < 0.15:
        rng.shuffle(recs)  # file order differs from cnvkit's order
    if rng.random() < 0.3:
        tags = [list(reversed(t)) if rng.random() < 0.5 else t for t in tags]  # Original= before Derived=
    return {"samples": names, "tags": tags, "ad_number": ad_number, "contigs": contigs, "records": recs,
            "fmt_style": fmt_style, "extra_headers": _gen_headers(rng, names, tags)}


def _gen_headers(rng, names, tags):
    """header lines the reader has to look past: generic and structured records of other kinds, GATK command
    lines of other tools, and -- only next to a PEDIGREE record, which the documented rules put first -- the
    MuTect / MuTect2 command lines the reader would otherwise take a pair from"""
    if rng.random() < 0.6:
        return []
    pool = ["##source=synthetic", "##reference=file:///ref.fa",
            f'##SAMPLE=<ID={names[-1]},Description="a sample">',
            f'##GATKCommandLine=<ID=HaplotypeCaller,CommandLineOptions="x=1 normal_sample_name={names[0]}">',
            '##GATKCommandLine.HaplotypeCaller=<ID=HaplotypeCaller,CommandLineOptions="x=1">']
    if tags:
        pool += [f'##GATKCommandLine=<ID=MuTect,CommandLineOptions="tumor_sample_name={names[-1]} '
                 f'normal_sample_name={names[0]}">',
                 '##GATKCommandLine.MuTect2=<ID=MuTect2,CommandLineOptions="x=1">'] * 2
    return rng.sample(pool, rng.randint(1, 3))


def _mutect2_style(rng, v, o):
    """the cell `load_het_snps` works around: every genotype of the normal is 0/0 (Mutect2) or missing, the depths
    still tell the germline hets; the pair is declared by PEDIGREE or by the ids; zygosity_freq mostly left out"""
    names = v["samples"]
    t, n = rng.sample(range(len(names)), 2)
    for rec in v["records"]:
        for k, smp in enumerate(rec["smps"]):
            if k != t:
                smp["gt"] = [None, None] if rng.random() < 0.1 else [0, 0]
    r = rng.random()
    if r < 0.4:
        v["tags"] = [[["Derived", names[t]], ["Original", names[n]]]]
        o["sid"], o["nid"] = None, None
    elif r < 0.8:
        v["tags"] = []
        o["sid"], o["nid"] = names[t], rng.choice([names[n], n])
    else:
        v["tags"] = []
        o["sid"], o["nid"] = None, names[n]
    v["extra_headers"] = [h for h in v.get("extra_headers") or [] if "MuTect" not in h]
    o["zyg_freq"] = None if rng.random() < 0.8 else 0.25


def _gen_sel(rng, names, allow_bad=True):
    r = rng.random()
    if r < 0.5:
        return None
    if r < 0.78:
        return rng.choice(names)
    if r < 0.93:
        return rng.randint(-len(names), len(names) - 1)
    if not allow_bad:
        return None
    return rng.choice(["zz", "", len(names), -len(names) - 1])


def gen_read(rng, nmax=40, **kw):
    v = gen_vcf(rng, nmax, allow_inf=rng.random() < 0.2, **kw)
    names = v["samples"]
    nid = _gen_sel(rng, names) if (len(names) >= 2 or rng.random() < 0.15) and rng.random() < 0.65 else None
    c = {"op": "vcf_read", "tag": "read",
         "in": {"vcf": v, "sid": _gen_sel(rng, names), "nid": nid,
                "min_depth": rng.choice([None, None, 0, 1, 10, 20, 20, 30]),
                "skip_reject": rng.random() < 0.2, "skip_somatic": rng.random() < 0.5}}
    if rng.random() < 0.3:
        c["in"]["implicit"] = True  # arguments that equal the reader's default are left out of the call
    return c


def _gen_hetopts(rng, v):
    names = v["samples"]
    zf = rng.choice([None, None, None, None, None, None, None, 0.25, 0.25, 0.125, 0.1, 0.3,
                     rng.choice([0.0, 0.4, 0.375, 0.5, 0.6, 0.2, 0.45])])
    if v.get("fmt_style") in ("gt_only", "no_ad") and rng.random() < 0.9:
        zf = None  # without AD every frequency is 0: nothing would be heterozygous by frequency
    nid = _gen_sel(rng, names, False) if len(names) >= 2 and rng.random() < 0.5 else None
    return {"sid": _gen_sel(rng, names, rng.random() < 0.3), "nid": nid,
            "min_depth": rng.choice([20, 20, 20, 0, None, 10, 1]), "zyg_freq": zf,
            "tumor_boost": rng.random() < (0.4 if (nid is not None or any(k == "Derived" for t in v["tags"] for k, _ in t))
                                           else 0.03)}


def gen_hets(rng, nmax=40):
    v = gen_vcf(rng, nmax, dyadic=rng.random() < 0.3, ns=rng.choice([1, 2, 2, 2, 3]), het_rich=rng.random() < 0.8)
    i = {"vcf": v}
    o = _gen_hetopts(rng, v)
    if len(v["samples"]) >= 2 and rng.random() < 0.1:
        _mutect2_style(rng, v, o)
    i.update(o)
    if rng.random() < 0.3:
        i["implicit"] = True  # arguments that equal the function's default are left out of the call
    return {"op": "vcf_hets", "tag": "hets", "in": i}


_BENIGN_HEADERS = ["##source=synthetic", "##reference=file:///ref.fa", '##SAMPLE=<ID=S,Description="a sample">',
                   '##GATKCommandLine.HaplotypeCaller=<ID=HaplotypeCaller,CommandLineOptions="x=1">']
PAIR_CELLS = ["mutect", "mutect", "mutect-no-tumor", "mutect-unknown-tumor", "mutect-no-normal", "mutect-dup-key",
              "mutect2-NT", "mutect2-TN", "mutect2-other", "mutect2-other", "mutect2-1", "mutect2-3",
              "mutect+mutect2", "othergatk+mutect2", "ped+mutect", "ped+mutect2", "ped-noderived+mutect",
              "ped-noderived+mutect2"]


def _mutect_rec(rng, t, n, noise=True):
    """a legacy MuTect command line: option tokens (key, value | None for a bare token) in shuffled order"""
    toks = ([["tumor_sample_name", t]] if t is not None else []) + ([["normal_sample_name", n]] if n is not None else [])
    if noise:
        toks += rng.sample([["analysis_type", "MuTect"], ["bare", None], ["filter", "a=b,c"], ["dbsnp", "[(x=1)]"],
                            ["tumor_sample_nam", "S0"], ["normal_sample_name2", "S1"], ["--flag", None]],
                           rng.randint(0, 4))
        rng.shuffle(toks)
    return {"id": "MuTect", "opts": toks, "sep": rng.choice([" ", " ", "  ", "   "]), "lead": rng.choice(["", "", " "])}


def _pair_cell(rng, v, cell):
    """overwrite the header of `v` with one cell of the header-declared-pair conventions; returns the sample a
    selector should favour (None: any)"""
    k = len(v["samples"])
    names = {1: [["A"], ["TUMOR"]], 2: [["A", "B"], ["S0", "S1"]], 3: [["A", "B", "C"], ["NORMAL", "TUMOR", "X9"]]}
    if cell == "mutect2-NT":
        v["samples"] = ["NORMAL", "TUMOR"]
    elif cell == "mutect2-TN":
        v["samples"] = ["TUMOR", "NORMAL"]
    elif cell == "mutect2-other":
        v["samples"] = rng.choice([["A", "B"], ["TUMOR", "X9"], ["X9", "NORMAL"], ["NORMAL", "Tumor"], ["b", "a"]])
    else:
        v["samples"] = rng.choice(names[k])
    s = v["samples"]
    v["tags"], v["gatk"], v["mutect2"] = [], [], False
    v["extra_headers"] = rng.sample(_BENIGN_HEADERS, rng.choice([0, 0, 1, 2]))
    t, n = (rng.sample(s, 2) if k >= 2 else (s[0], s[0]))
    other = {"id": rng.choice(["HaplotypeCaller", "UnifiedGenotyper", None]),
             "opts": [["normal_sample_name", s[0]], ["tumor_sample_name", s[-1]]]}
    if cell == "mutect":
        v["gatk"] = [_mutect_rec(rng, t, n)]
        if rng.random() < 0.3:
            v["gatk"].insert(rng.randint(0, 1), other)
    elif cell == "mutect-no-tumor":
        v["gatk"] = [_mutect_rec(rng, None, n)]
    elif cell == "mutect-unknown-tumor":
        v["gatk"] = [_mutect_rec(rng, rng.choice(["zz", "tumor", s[0] + "x"]), n)]
    elif cell == "mutect-no-normal":  # malformed: options["normal_sample_name"] raises KeyError
        v["gatk"] = [_mutect_rec(rng, t, None)]
        if rng.random() < 0.3:
            v["gatk"][0]["opts"] = None  # no CommandLineOptions item at all
        elif rng.random() < 0.2:
            v["gatk"][0]["opts"] = []
    elif cell == "mutect-dup-key":  # a dict built from the tokens: the last one of a key counts
        g = _mutect_rec(rng, t, n, noise=False)
        g["opts"] = [["normal_sample_name", t], ["tumor_sample_name", n]] + g["opts"]
        v["gatk"] = [g]
    elif cell.startswith("mutect2"):
        v["mutect2"] = rng.choice([True, True, "##GATKCommandLine.MuTect2=unstructured"])
    elif cell == "mutect+mutect2":  # GATKCommandLine shadows GATKCommandLine.MuTect2
        v["gatk"], v["mutect2"] = [_mutect_rec(rng, s[-1], s[0])], True
    elif cell == "othergatk+mutect2":  # ... even when no record of it is MuTect's: nothing is declared
        v["gatk"], v["mutect2"] = [other], True
    elif cell in ("ped+mutect", "ped+mutect2"):  # PEDIGREE wins (the GATK lines say the opposite pair)
        v["tags"] = [[["Derived", t], ["Original", n]]]
        if cell == "ped+mutect":
            v["gatk"] = [_mutect_rec(rng, n, t)]
            v["mutect2"] = rng.random() < 0.5
        else:
            v["mutect2"] = True
    else:  # a PEDIGREE record without Derived shadows the GATK lines too: nothing is declared
        v["tags"] = [rng.choice([[["Child", s[0]], ["Mother", s[-1]]], [["ID", s[0]]], []])]
        if cell == "ped-noderived+mutect":
            v["gatk"] = [_mutect_rec(rng, t, n)]
        else:
            v["mutect2"] = True
    return t


def _pair_sels(rng, names, tumour):
    """selectors crossed with the header cell: none (half), the declared tumour, any sample, a normal id"""
    r = rng.random()
    sid = None if r < 0.5 else (tumour if r < 0.7 and tumour in names else _gen_sel(rng, names, rng.random() < 0.3))
    nid = None if rng.random() < 0.6 else _gen_sel(rng, names, False)
    return sid, nid


def _pair_ns(cell, rng):
    if cell in ("mutect2-NT", "mutect2-TN", "mutect2-other"):
        return 2
    if cell == "mutect2-1":
        return 1
    if cell == "mutect2-3":
        return 3
    return rng.choice([2, 2, 3])


def gen_pairs_read(rng, nmax=30):
    cell = rng.choice(PAIR_CELLS)
    c = gen_read(rng, nmax, ns=_pair_ns(cell, rng))
    v = c["in"]["vcf"]
    t = _pair_cell(rng, v, cell)
    if cell == "mutect-no-tumor" and rng.random() < 0.15:
        v["records"] = []  # no record: the reader never asks for the tumour column
    c["in"]["sid"], c["in"]["nid"] = _pair_sels(rng, v["samples"], t)
    c["tag"] = "pairs-" + cell
    return c


def gen_pairs_hets(rng, nmax=30):
    cell = rng.choice(PAIR_CELLS)
    v = gen_vcf(rng, nmax, dyadic=rng.random() < 0.3, ns=_pair_ns(cell, rng), het_rich=True)
    t = _pair_cell(rng, v, cell)
    o = _gen_hetopts(rng, v)
    o["sid"], o["nid"] = _pair_sels(rng, v["samples"], t)
    o["tumor_boost"] = rng.random() < 0.25
    i = {"vcf": v}
    i.update(o)
    return {"op": "vcf_hets", "tag": "pairs-" + cell, "in": i}


def _gen_segs(rng, contigs, span):
    style = rng.choice(["tile", "tile", "tile", "tile", "gaps", "gaps", "overlap", "nested", "foreign", "empty", "one",
                        "interleaved" if rng.random() < 0.3 else "tile", "unsorted"])
    if style == "empty":
        return []
    segs = []
    chroms = list(contigs)
    if style == "foreign":
        chroms = chroms[:1] + ["chr7"] if rng.random() < 0.5 else ["chr7"] + chroms
    elif rng.random() < 0.2 and len(chroms) > 1:
        chroms = chroms[:-1]
    for c in chroms:
        pos = 0 if rng.random() < 0.7 else rng.randint(0, span // 3 + 1)
        k = 1 if style == "one" else rng.randint(1, 6)
        for j in range(k):
            ln = rng.randint(1, max(2, span // k + 5))
            segs.append([c, pos, pos + ln])
            if style == "tile" or style == "one":
                pos += ln
            elif style == "gaps":
                pos += ln + rng.randint(0, 30)
            elif style == "overlap":
                pos += max(1, ln - rng.randint(0, 10))
            else:
                segs.append([c, pos + ln // 3, pos + ln // 3 + max(1, ln // 4)])
                pos += ln
        if style == "nested":
            segs_c = sorted([s for s in segs if s[0] == c], key=lambda s: (s[1], s[2]))
            segs = [s for s in segs if s[0] != c] + segs_c
    if style == "interleaved":
        rng.shuffle(segs)  # not a segment table: the model mirrors the code, the spec is not applied
    if style == "unsorted":  # each chromosome's rows together, not in coordinate order
        segs = [g for c in chroms for g in rng.sample([x for x in segs if x[0] == c], len([x for x in segs if x[0] == c]))]
    return segs


def _gen_fill(rng, n, p=0.5):
    """which rows of a table of n rows have another row in front of them that is filtered away before the call
    (the table then is a filtered subset: its pandas index labels have gaps and do not start at 0)"""
    if rng.random() >= p:
        return None
    f = [rng.random() < 0.3 for _ in range(n)]
    if n and not any(f):
        f[0] = True
    return f


def _gen_freq(rng, dyadic, z):
    if dyadic:
        return Fraction(rng.randint(0, 16), 16)
    if z == 0.5:
        base = rng.choice([0.5, 0.5, 0.3, 0.7, 0.4])
    else:
        base = z
    x = min(1.0, max(0.0, rng.gauss(base, 0.12)))
    return Fraction(rng.choice([x, x, round(x, 2), Fraction(rng.randint(0, 30), 30)]))


def gen_table(rng, nmax=60):
    """a VariantArray as data: rows [chrom,s,e,ref,alt,somatic,[zyg,depth,ac,freq],n|None], some marked removed"""
    contigs = list(rng.choice(CONTIG_SETS))
    from skgenome.chromsort import sorter_chrom
    contigs.sort(key=sorter_chrom)
    paired = rng.random() < 0.5
    dyadic = rng.random() < 0.4
    n = rng.choice([0, 1, 2]) if rng.random() < 0.08 else rng.randint(3, nmax)
    hom_only = rng.random() < 0.03
    rows, span = [], 0
    for c in contigs:
        pos = 0
        for _ in range(n // len(contigs) + (1 if rng.random() < 0.5 else 0)):
            pos += rng.choice([0, 1, 1, 2, 5, 40]) if rng.random() < 0.6 else rng.randint(1, 200)
            ln = rng.choice([1, 1, 1, 1, 2, 4, 9])
            z = rng.choice([0.0, 1.0]) if hom_only else rng.choice([0.5, 0.5, 0.5, 0.0, 1.0])
            f = _gen_freq(rng, dyadic, z)
            depth = rng.choice([8, 16, 30, 64])
            g = [frac(z), frac(depth), frac(f * depth), frac(f)]
            ng = None
            if paired:
                nz = rng.choice([0.0, 1.0]) if hom_only else rng.choice([0.5, 0.5, 0.5, 0.0, 1.0])
                nf = _gen_freq(rng, dyadic, nz)
                if nf == 1 and f != 1:
                    nf = Fraction(15, 16)  # TumorBoost divides by 1 - n: keep n = 1 only with t = 1 (NaN)
                ng = [frac(nz), frac(depth), frac(nf * depth), frac(nf)]
            rows.append([c, pos, pos + ln, "A", "N" * ln, False, g, ng])
            span = max(span, pos + ln)
    rows.sort(key=lambda r: (sorter_chrom(r[0]), r[1], r[2]))
    drop = [rng.random() < 0.25 for _ in rows] if rng.random() < 0.6 else [False] * len(rows)
    return {"paired": paired, "rows": rows, "drop": drop, "dyadic": dyadic}, contigs, span


def gen_baf(rng, nmax=60):
    t, contigs, span = gen_table(rng, nmax)
    # (TumorBoost on a table without rows raises TypeError inside pandas: not generated)
    segs = _gen_segs(rng, contigs, span)
    i = {"table": t, "segs": segs, "above": rng.choice([None, None, None, None, True, False]),
         "boost": rng.random() < 0.35 and len(t["rows"]) > 0,
         # the ranges as a filtered subset and / or as a CopyNumArray with its other columns
         "segs_fill": _gen_fill(rng, len(segs)), "segs_cna": rng.random() < 0.4}
    if rng.random() < 0.15:
        i["reuse"] = True  # the same VariantArray has answered other BAF questions before
    if rng.random() < 0.3:
        i["implicit"] = True
    return {"op": "vcf_baf", "tag": "baf", "in": i}


def gen_mirror(rng, nmax=30):
    t, _, _ = gen_table(rng, nmax)
    i = {"table": t, "above": rng.choice([None, None, True, False]),
         "boost": rng.random() < 0.35 and len(t["rows"]) > 0}
    if rng.random() < 0.15:
        i["reuse"] = True
    if rng.random() < 0.3:
        i["implicit"] = True
    return {"op": "vcf_mirror", "tag": "mirror", "in": i}


def gen_pipeline(rng, nmax=40):
    dy = rng.random() < 0.4
    v = gen_vcf(rng, nmax, biallelic_only=True, dyadic=dy, ns=rng.choice([1, 2, 2, 3]), het_rich=rng.random() < 0.85)
    span = max([r["pos"] for r in v["records"]] + [10]) + 10
    o = _gen_hetopts(rng, v)
    o["tumor_boost"] = False
    if o["zyg_freq"] == 0.6:
        o["zyg_freq"] = None
    from skgenome.chromsort import sorter_chrom
    segs = []
    for c in sorted(v["contigs"], key=sorter_chrom):
        pos = 0
        for _ in range(rng.randint(1, 5)):
            ln = rng.randint(1, span // 2 + 2)
            segs.append([c, pos, pos + ln])
            pos += ln + (0 if rng.random() < 0.8 else rng.randint(1, 50))
    if len(v["samples"]) >= 2 and rng.random() < 0.08:
        _mutect2_style(rng, v, o)
    i = {"vcf": v, "segs": segs, "purity": rng.choice([None, None, 1.0, 0.5, 0.25, 0.7, 0.33]), "dyadic": dy}
    i.update(o)
    return {"op": "vcf_pipeline", "tag": "pipeline", "in": i}


def gen_pipeline_api(rng, nmax=40):
    c = gen_pipeline(rng, nmax)
    i = c["in"]
    if rng.random() < 0.3:
        i["implicit"] = True
    if BAF_LABELS_REPAIRED:  # (see BAF_LABELS_REPAIRED) the segment table handed to do_call is a filtered subset
        i["segs_fill"] = _gen_fill(rng, len(i["segs"]), 0.4)
    return c


def _gen_bins(rng, contigs, span, steps):
    """a bin table [chrom, start, end, log2] tiling 0..span on every contig (6..30 bins each, fewer than by_arm
    needs to look for a centromere); log2 constant per chromosome, or -- `steps` -- a staircase with a little
    deterministic noise, so that haar finds several segments in one arm"""
    from skgenome.chromsort import sorter_chrom
    bins = []
    for c in sorted(contigs, key=sorter_chrom):
        nb = rng.randint(6, 30)
        w = span // nb + 1
        level, k0 = rng.choice([0.0, 0.5, -0.5]), 0
        cuts = sorted(rng.sample(range(2, nb - 1), min(rng.randint(1, 2), nb - 3))) if steps else []
        for k in range(nb):
            if k in cuts:
                level += rng.choice([1.5, -1.5, 2.0])
            noise = 0.0078125 * ((k * 5) % 3 - 1) if steps else 0.0
            bins.append([c, k * w, (k + 1) * w, level + noise])
    return bins


def gen_segment(rng, nmax=40):
    """VCF -> load_het_snps -> do_segmentation(bins, variants=) -> baf column of the segments it returns"""
    c = gen_pipeline(rng, nmax)
    i = c["in"]
    span = max(g[2] for g in i["segs"])
    steps = BAF_LABELS_REPAIRED and rng.random() < 0.6
    i["bins"] = _gen_bins(rng, i["vcf"]["contigs"], span, steps)
    i["seg_method"] = "haar" if steps else "none"
    i["via"], i["purity"] = "segment", None
    del i["segs"]  # the segments are the code's answer
    if rng.random() < 0.3:
        i["implicit"] = True
    c["tag"] = "segment"
    return c


def _name_sel(sel, names):
    """a selector the command line can express: None or a string (a column position becomes that column's name)"""
    if isinstance(sel, int) and not isinstance(sel, bool):
        return names[sel] if -len(names) <= sel < len(names) else None
    return sel


def gen_pipeline_cli(rng, nmax=40):
    """the pipeline case through `cnvkit.py call -v` (or `export nexus-ogt`, or `segment -v`): the options are the
    case's parameters, the exact argument vector is part of the case ({seg} {vcf} {out} stand for the scratch files)"""
    kind = rng.choice(["call"] * 6 + ["nexus"] * 2 + ["segment"] * 2)
    nexus, segment = kind == "nexus", kind == "segment"
    c = gen_segment(rng, 40) if segment else gen_pipeline(rng, nmax)
    i = c["in"]
    i.pop("implicit", None)
    names = i["vcf"]["samples"]
    i["sid"], i["nid"] = _name_sel(i["sid"], names), _name_sel(i["nid"], names)
    if i["min_depth"] is None:
        i["min_depth"] = 20  # "no depth filter" cannot be said on the command line; leaving the option out means 20
    # (finding AQ, fixed by a52d03f: `export nexus-ogt` on a VCF without any record raised ValueError in
    # baf_by_ranges; such VCFs go through both commands, and corpus-AQ keeps the witness)
    long_ = lambda short, long: long if rng.random() < 0.4 else short
    groups = []
    if i["sid"] is not None:
        groups.append([long_("-i", "--sample-id"), i["sid"]])
    if i["nid"] is not None:
        groups.append([long_("-n", "--normal-id"), i["nid"]])
    if i["min_depth"] != 20 or rng.random() < 0.3:
        groups.append([long_("-m", "--min-variant-depth") if nexus else "--min-variant-depth", str(i["min_depth"])])
    if i["zyg_freq"] is not None:
        if i["zyg_freq"] == 0.25 and rng.random() < 0.6:
            groups.append([long_("-z", "--zygosity-freq")])  # bare: the parser's `const` is what reaches the code
        else:
            groups.append([long_("-z", "--zygosity-freq"), repr(float(i["zyg_freq"]))])
    if nexus:
        i["purity"] = None
        head = ["export", "nexus-ogt", "{seg}", "{vcf}"]
        if BAF_LABELS_REPAIRED and rng.random() < 0.5:
            # (see BAF_LABELS_REPAIRED) bins lighter than --min-weight are left out of the output
            i["weights"] = [rng.choice([0.25, 0.5, 0.75, 1.0]) for _ in i["segs"]]
            i["min_weight"] = rng.choice([0.5, 0.75, 0.3])
            groups.append([long_("-w", "--min-weight"), repr(i["min_weight"])])
    elif segment:
        head = ["segment", "{seg}"]
        groups.append([long_("-v", "--vcf"), "{vcf}"])
        groups.append([long_("-m", "--method"), i["seg_method"]])
        if rng.random() < 0.2:
            groups.append([long_("-p", "--processes"), "1"])
    else:
        head = ["call", "{seg}"]
        groups.append([long_("-v", "--vcf"), "{vcf}"])
        if i["purity"] is not None:
            groups.append(["--purity", repr(float(i["purity"]))])
        r = rng.random()
        if r < 0.6:
            groups.append([long_("-m", "--method"), "none"])
        elif r < 0.75:
            groups.append([long_("-m", "--method"), "clonal"])
        elif r < 0.8:
            groups.append([long_("-m", "--method"), "threshold"])
        # else: the default method (threshold); the baf column does not depend on the calling method
    groups.append([long_("-o", "--output"), "{out}"])
    rng.shuffle(groups)
    i["cli"] = True
    i["argv"] = head + [a for g in groups for a in g]
    c["tag"] = "cli-nexus" if nexus else "cli-segment" if segment else "cli-pipeline"
    return c


CLI_COMMANDS = {
    # command function -> (argument head; {seg} {vcf} {out} stand for file names), short flag of --min-variant-depth if any
    "_cmd_segment": (["segment", "{seg}", "-v", "{vcf}"], None),
    "_cmd_call": (["call", "{seg}", "-v", "{vcf}"], None),
    "_cmd_scatter": (["scatter", "-v", "{vcf}"], None),
    "_cmd_export_theta": (["export", "theta", "{seg}", "-v", "{vcf}", "-o", "{out}"], "-m"),
    "_cmd_export_nbo": (["export", "nexus-ogt", "{seg}", "{vcf}"], "-m"),
}


def gen_cliopts(rng):
    """the VCF options of one of the five commands that read a VCF, as an argument vector: ids given or not, the depth
    option given (incl. its default value spelled out) or left out, -z left out / bare / with a number; short and long
    spellings, option order shuffled.  What is observed is what `load_het_snps` receives."""
    cmd = rng.choice(sorted(CLI_COMMANDS))
    head, m_short = CLI_COMMANDS[cmd]
    sid = rng.choice([None, None, "T", "TUMOR", "S0", "b"])
    nid = rng.choice([None, None, None, "N", "NORMAL", "S1", "a"])
    md = rng.choice([None, None, None, 0, 1, 10, 20, 30, 100])
    zyg = rng.choice([None, None, None, "bare", "bare", 0.25, 0.3, 0.1, 0.4, 0.125, 0.5, 0.0])
    long_ = lambda short, long: long if (short is None or rng.random() < 0.4) else short
    groups = []
    if sid is not None:
        groups.append([long_("-i", "--sample-id"), sid])
    if nid is not None:
        groups.append([long_("-n", "--normal-id"), nid])
    if md is not None:
        groups.append([long_(m_short, "--min-variant-depth"), str(md)])
    if zyg == "bare":
        groups.append([long_("-z", "--zygosity-freq")])
    elif zyg is not None:
        groups.append([long_("-z", "--zygosity-freq"), repr(float(zyg))])
    rng.shuffle(groups)
    return {"op": "vcf_cliopts", "tag": "cliopts",
            "in": {"cmd": cmd, "sid": sid, "nid": nid, "min_depth": md, "zyg": zyg,
                   "argv": head + [a for g in groups for a in g]}}


def gen_boost(rng):
    grid = [Fraction(k, 8) for k in range(0, 9)]
    n = rng.randint(1, 12)
    ts, ns = [], []
    for _ in range(n):
        if rng.random() < 0.5:
            t, m = rng.choice(grid), rng.choice(grid)
        else:
            t, m = Fraction(rng.random()), Fraction(rng.random())
        if m == 1 and t != 1:
            m = Fraction(7, 8)
        ts.append(frac(t))
        ns.append(frac(m))
    i = {"t": ts, "n": ns}
    if rng.random() < 0.5:
        # through VariantArray.tumor_boost() on a paired table holding these frequencies (a filtered subset of a
        # larger table when `fill` is given): each value is looked up by the label of its own row
        i["method"], i["fill"] = True, _gen_fill(rng, n, 0.7)
    return {"op": "vcf_boost", "tag": "boost", "in": i}


def gen_rescale(rng):
    p = rng.choice([1.0, 0.5, 0.25, 0.75, 0.1, 0.9, rng.uniform(0.05, 1.0)])
    obs = [None if rng.random() < 0.15 else frac(rng.choice([0.5, 0.25, 1.0, 0.0, rng.random()])) for _ in range(rng.randint(1, 10))]
    return {"op": "vcf_rescale", "tag": "rescale", "in": {"purity": frac(p), "obs": obs}}


def _smp(gt, ad, dp, phased=False):
    return {"gt": gt, "phased": phased, "ad": ad, "dp": dp, "trunc": False}


def _rec(chrom, pos, ref, alt, smps, fmt=("GT", "AD", "DP"), somatic=False, info_dp=None, flt=("PASS",)):
    return {"chrom": chrom, "pos": pos, "ref": ref, "alts": [alt], "filter": list(flt), "info_dp": info_dp,
            "somatic": somatic, "fmt": list(fmt), "smps": smps}


def corpus():
    two = ["T", "N"]
    # fix W: TumorBoost values must stay with their own rows (a homozygous row precedes the hets)
    recs = [_rec("chr1", 11, "A", "G", [_smp([0, 1], [18, 12], 30), _smp([0, 1], [15, 15], 30)]),
            _rec("chr1", 21, "A", "G", [_smp([1, 1], [0, 30], 30), _smp([1, 1], [0, 30], 30)]),
            _rec("chr1", 31, "A", "G", [_smp([0, 1], [21, 9], 30), _smp([0, 1], [18, 12], 30)]),
            _rec("chr1", 41, "A", "G", [_smp([0, 1], [9, 21], 30), _smp([0, 1], [12, 18], 30)])]
    v = {"samples": two, "tags": [], "ad_number": "R", "contigs": ["chr1"], "records": recs}
    g = lambda z, f: [frac(z), "32", frac(Fraction(f) * 32), frac(Fraction(f))]
    rows = [["chr1", 10, 11, "A", "G", False, g(0.5, "3/8"), g(0.5, "1/2")],
            ["chr1", 20, 21, "A", "G", False, g(1.0, "1"), g(1.0, "1")],
            ["chr1", 30, 31, "A", "G", False, g(0.5, "1/4"), g(0.5, "3/8")],
            ["chr1", 40, 41, "A", "G", False, g(0.5, "3/4"), g(0.5, "5/8")]]
    tb = {"paired": True, "rows": rows, "drop": [False] * 4, "dyadic": True}
    single = {"samples": ["S0"], "tags": [], "ad_number": "R", "contigs": ["chr1"],
              "records": [_rec("chr1", 10, "A", "G", [_smp([0, 1], [3, 4], 7)], info_dp=30)]}
    # an insertion just before a segment boundary (its row ends at start + len(alt), inside the next segment)
    indel = {"samples": ["S0"], "tags": [], "ad_number": "R", "contigs": ["chr1"],
             "records": [_rec("chr1", 50, "A", "G", [_smp([0, 1], [24, 8], 32)]),
                         _rec("chr1", 100, "A", "ACGT", [_smp([0, 1], [8, 24], 32)]),
                         _rec("chr1", 150, "A", "G", [_smp([0, 1], [16, 16], 32)]),
                         _rec("chr1", 160, "A", "G", [_smp([0, 1], [4, 28], 32)])]}
    homs = {"samples": ["S0"], "tags": [], "ad_number": "R", "contigs": ["chr1"],
            "records": [_rec("chr1", 50, "A", "G", [_smp([1, 1], [0, 32], 32)]),
                        _rec("chr1", 60, "A", "G", [_smp([0, 0], [32, 0], 32)])]}
    # fix V: the normal's DP is "." in every record -> n_depth / n_alt_freq columns were object-typed (all None),
    # and _tumor_boost raised TypeError
    noad = {"samples": two, "tags": [[["Derived", "T"], ["Original", "N"]]], "ad_number": "R", "contigs": ["chr2"],
            "records": [_rec("chr2", 1010, "G", "T", [_smp([0, 1], [17, 13], 30), _smp([0, 1], [15, 15], None)],
                             fmt=("GT", "DP"))]}
    base = {"sid": None, "nid": None, "min_depth": 20, "zyg_freq": None, "tumor_boost": False}
    return [
        {"op": "vcf_hets", "tag": "corpus-V", "in": dict(base, vcf=noad, tumor_boost=True, min_depth=0)},
        {"op": "vcf_hets", "tag": "corpus-W", "in": dict(base, vcf=v, sid="T", nid="N", tumor_boost=True)},
        {"op": "vcf_baf", "tag": "corpus-W", "in": {"table": tb, "segs": [["chr1", 0, 25], ["chr1", 25, 100]],
                                                     "above": None, "boost": True}},
        {"op": "vcf_read", "tag": "corpus-Y", "in": {"vcf": single, "sid": None, "nid": "S0", "min_depth": None,
                                                     "skip_reject": False, "skip_somatic": False}},
        {"op": "vcf_pipeline", "tag": "corpus-indel-boundary", "in": dict(base, vcf=indel, segs=[["chr1", 0, 100], ["chr1", 100, 200]],
                                                             purity=None, dyadic=True)},
        {"op": "vcf_hets", "tag": "corpus-X", "in": dict(base, vcf=homs)},
        {"op": "vcf_pipeline", "tag": "corpus-X", "in": dict(base, vcf=homs, segs=[["chr1", 0, 100]], purity=None, dyadic=True)},
        # fix AQ: a VCF with a header and no record through `export nexus-ogt` (baf_by_ranges without alt_freq
        # built its all-missing answer on the variant table's index -> ValueError)
        {"op": "vcf_pipeline", "tag": "corpus-AQ",
         "in": dict(base, vcf={"samples": ["S0"], "tags": [], "ad_number": "R", "contigs": ["chr1"], "records": []},
                    segs=[["chr1", 0, 1000], ["chr1", 1000, 2000]], purity=None, dyadic=True, cli=True,
                    argv=["export", "nexus-ogt", "{seg}", "{vcf}", "-o", "{out}"])},
    ]


def gen_read_boundary(rng, nmax=30):
    """round 5c: the filters of read_vcf at their boundaries -- every sample's DP is min_depth - 1, min_depth or min_depth + 1
    (so that `>=` and `>` / `>=` on the wrong column differ on most records), FILTER walks through '.', PASS, KEEP, a
    rejecting value and PASS next to a rejecting value, skip_reject / skip_somatic mostly on, a normal whenever there is one"""
    m = rng.choice([2, 10, 20, 20, 30])
    v = gen_vcf(rng, nmax, allow_inf=False, ns=rng.choice([1, 2, 2, 3]))
    filters = [[], ["PASS"], ["KEEP"], ["q10"], ["PASS", "q10"], ["q10", "s50"]]
    for k, r in enumerate(v["records"]):
        r["filter"] = list(filters[(k + rng.randint(0, 1)) % len(filters)])
        if rng.random() < 0.5:
            r["somatic"] = rng.random() < 0.4
        for s in r["smps"]:
            dp = m + rng.choice([-1, 0, 0, 1])
            s["dp"] = dp
            if isinstance(s["ad"], list) and len(s["ad"]) >= 2 and all(isinstance(x, int) for x in s["ad"][:2]):
                s["ad"][1] = min(s["ad"][1], dp)
                s["ad"][0] = dp - s["ad"][1]
            elif isinstance(s["ad"], int):
                s["ad"] = min(s["ad"], dp)
    names = v["samples"]
    nid = _gen_sel(rng, names, allow_bad=False) if len(names) >= 2 and rng.random() < 0.8 else None
    return {"op": "vcf_read", "tag": "read-boundary",
            "in": {"vcf": v, "sid": _gen_sel(rng, names, allow_bad=False) if rng.random() < 0.7 else None, "nid": nid,
                   "min_depth": m if rng.random() < 0.9 else rng.choice([m - 1, m + 1]),
                   "skip_reject": rng.random() < 0.7, "skip_somatic": rng.random() < 0.7}}


def gen_cases(rng, tier):
    cases = []
    if tier == "search":
        n = {"read": 400, "hets": 400, "baf": 600, "mirror": 100, "pipeline": 300, "boost": 50, "rescale": 30,
             "segment": 100}
    elif tier == "quick":
        n = {"read": 900, "hets": 700, "baf": 1400, "mirror": 250, "pipeline": 450, "boost": 150, "rescale": 50,
             "segment": 250}
    else:
        n = {"read": 6000, "hets": 5000, "baf": 12000, "mirror": 2000, "pipeline": 4000, "boost": 600, "rescale": 200,
             "segment": 2000}
    for _ in range(n["read"]):
        cases.append(gen_read(rng, 500 if rng.random() < 0.01 else 40))
    for _ in range(n["hets"]):
        cases.append(gen_hets(rng, 500 if rng.random() < 0.01 else 40))
    for _ in range(n["baf"]):
        cases.append(gen_baf(rng))
    for _ in range(n["mirror"]):
        cases.append(gen_mirror(rng))
    for _ in range(n["pipeline"]):
        cases.append(gen_pipeline_api(rng, 500 if rng.random() < 0.01 else 40))
    for _ in range(n["segment"]):
        cases.append(gen_segment(rng))
    for _ in range(n["boost"]):
        cases.append(gen_boost(rng))
    for _ in range(n["rescale"]):
        cases.append(gen_rescale(rng))
    # command-line share: ~10 % of all cases, generated last so that the API case stream stays what it was
    for _ in range({"search": 210, "quick": 480}.get(tier, 3600)):
        cases.append(gen_pipeline_cli(rng, 500 if rng.random() < 0.01 else 40))
    # the option glue of all five VCF-reading commands (cheap: the command stops where it calls load_het_snps)
    for _ in range({"search": 150, "quick": 200}.get(tier, 1500)):
        cases.append(gen_cliopts(rng))
    # header-declared pairs of the two GATK conventions and their precedence (Model/VcfPairs.lean), generated last
    for _ in range({"search": 200, "quick": 360}.get(tier, 2400)):
        cases.append(gen_pairs_read(rng))
    for _ in range({"search": 100, "quick": 180}.get(tier, 1200)):
        cases.append(gen_pairs_hets(rng))
    for _ in range({"search": 40, "quick": 80}.get(tier, 500)):
        cases.append(gen_read_boundary(rng))
    return cases


# ---------------------------------------------------------------------------------------------
# the real code

_TMP = None


def _tmpdir():
    """one scratch directory for all runs (every file in it is removed right after its read; a directory per
    worker process was never removed, the workers are killed without running their exit handlers)"""
    global _TMP
    if _TMP is None or not os.path.isdir(_TMP):
        _TMP = "/var/tmp/c18-scratch"
        os.makedirs(_TMP, exist_ok=True)
    return _TMP


def _write_vcf(v):
    fd, fn = tempfile.mkstemp(dir=_tmpdir(), suffix=".vcf")
    with os.fdopen(fd, "w") as f:
        f.write(vcf_text(v))
    return fn


def _num(x):
    """float -> exact rational string, 'inf', or None for NaN"""
    x = float(x)
    if math.isnan(x):
        return None
    if math.isinf(x):
        return "inf"
    return frac(x)


def _geno(r, pre):
    return [_num(r[pre + "zygosity"]), _num(r[pre + "depth"]), _num(r[pre + "alt_count"]), _num(r[pre + "alt_freq"])]


def _table_json(varr):
    d = varr.data
    paired = "n_zygosity" in d.columns
    rows = []
    for r in d.to_dict("records"):
        rows.append([str(r["chromosome"]), int(r["start"]), int(r["end"]), str(r["ref"]), str(r["alt"]),
                     bool(r["somatic"]), _geno(r, ""), _geno(r, "n_") if paired else None])
    return {"paired": paired, "rows": rows}


def _series(ser):
    return [_num(x) for x in ser]


def _va(t):
    """build the VariantArray of a `table` input, removing the rows marked `drop` through a boolean mask
    (so that the index labels have the gaps real tables have after load_het_snps' filters)"""
    import pandas as pd
    from cnvlib.vary import VariantArray as VA
    cols = ["chromosome", "start", "end", "ref", "alt", "somatic", "zygosity", "depth", "alt_count", "alt_freq"]
    if t["paired"]:
        cols += ["n_zygosity", "n_depth", "n_alt_count", "n_alt_freq"]
    recs = []
    drop = t.get("drop") or [False] * len(t["rows"])
    filler = ["chr1", 0, 1, "A", "C", False, ["1", "9", "9", "1"], ["1", "9", "9", "1"]]
    keep = []
    for r, dr in zip(t["rows"], drop):
        if dr:  # a different row sits at this label before the mask is applied
            recs.append(_flat(filler, t["paired"]))
            keep.append(False)
        recs.append(_flat(r, t["paired"]))
        keep.append(True)
    df = pd.DataFrame.from_records(recs, columns=cols)
    if not len(df):
        df = df.astype({"start": int, "end": int, "somatic": bool, "zygosity": float, "alt_freq": float})
    va = VA(df)
    if not all(keep):
        import numpy as np
        va = va[np.array(keep, dtype=bool)]
    return va


def _flat(r, paired):
    f = lambda s: float(Fraction(s))
    g = r[6]
    out = [r[0], r[1], r[2], r[3], r[4], r[5], f(g[0]), f(g[1]), f(g[2]), f(g[3])]
    if paired:
        n = r[7]
        out += [f(n[0]), f(n[1]), f(n[2]), f(n[3])]
    return tuple(out)


_SEG_COLS = ["chromosome", "start", "end", "gene", "log2", "probes"]


def _segs_ga(segs, fill=None, cna=False):
    """the ranges as a GenomicArray of three columns or as a CopyNumArray (segment table); with `fill`, as a
    filtered subset of a longer table: the marked rows have another row in front of them that a boolean mask
    removes, so the index labels of what is left have gaps"""
    import numpy as np
    rows, keep = [], []
    for k, g in enumerate(segs):
        if fill and fill[k]:
            rows.append((g[0], g[1], g[1] + 1))
            keep.append(False)
        rows.append(tuple(g))
        keep.append(True)
    if cna:
        from cnvlib.cnary import CopyNumArray as CNA
        arr = CNA.from_rows([(c, s, e, "-", 0.0, 10) for c, s, e in rows], columns=_SEG_COLS)
    else:
        from skgenome import GenomicArray as GA
        arr = GA.from_rows(rows, columns=["chromosome", "start", "end"])
    if not all(keep):
        arr = arr[np.array(keep, dtype=bool)]
    return arr


def _kept_segs(i):
    """the ranges an answer is expected for: all of them, or (export nexus-ogt --min-weight) the heavy enough ones"""
    if i.get("weights") is None:
        return i["segs"]
    return [g for g, w in zip(i["segs"], i["weights"]) if not w < i["min_weight"]]


def _bins_cna(bins):
    from cnvlib.cnary import CopyNumArray as CNA
    return CNA.from_rows([(c, s, e, "g", lg, 1.0, 1.0) for c, s, e, lg in bins],
                         columns=["chromosome", "start", "end", "gene", "log2", "depth", "weight"])


def _segment_answer(tbl, bins):
    """segments and their baf column out of a do_segmentation result; the segments must cover each chromosome's
    bins from the first start to the last end, in order, without overlap (what they are beyond that is the
    segmentation's business: C11, C16)"""
    coords = [(str(c), int(s), int(e)) for c, s, e in zip(tbl["chromosome"], tbl["start"], tbl["end"])]
    chroms = list(dict.fromkeys(b[0] for b in bins))
    if list(dict.fromkeys(c for c, _, _ in coords)) != chroms:
        raise CliOutputError("the segments do not follow the chromosomes of the bins")
    for c in chroms:
        mine = [g for g in coords if g[0] == c]
        bs = [b for b in bins if b[0] == c]
        if mine[0][1] != bs[0][1] or mine[-1][2] != bs[-1][2] or any(a[2] > b[1] for a, b in zip(mine, mine[1:])) \
                or any(g[1] >= g[2] for g in mine):
            raise CliOutputError(f"the segments of {c} do not partition its bins")
    baf = list(tbl["baf"]) if "baf" in tbl.columns else [float("nan")] * len(tbl)
    return {"segs": [list(g) for g in coords], "baf": _series(baf)}


def _het_kwargs(i, boost=None):
    """load_het_snps' arguments after the file name: positionally, or (`implicit`) by keyword with everything that
    equals the function's default left out"""
    boost = i["tumor_boost"] if boost is None else boost
    if not i.get("implicit"):
        return (i["sid"], i["nid"], i["min_depth"], i["zyg_freq"], boost), {}
    kw = {}
    if i["sid"] is not None:
        kw["sample_id"] = i["sid"]
    if i["nid"] is not None:
        kw["normal_id"] = i["nid"]
    if i["min_depth"] != 20:
        kw["min_variant_depth"] = i["min_depth"]
    if i["zyg_freq"] is not None:
        kw["zygosity_freq"] = i["zyg_freq"]
    if boost:
        kw["tumor_boost"] = True
    return (), kw


def _baf_kwargs(i):
    if not i.get("implicit"):
        return {"above_half": i["above"], "tumor_boost": i["boost"]}
    kw = {}
    if i["above"] is not None:
        kw["above_half"] = i["above"]
    if i["boost"]:
        kw["tumor_boost"] = True
    return kw


class CliOutputError(Exception):
    """the command did not write what it computed (never an expected refusal of the model)"""


def _same_num(a, b):
    a, b = float(a), float(b)
    if math.isnan(a) or math.isnan(b):
        return math.isnan(a) and math.isnan(b)
    return abs(a - b) <= 1e-5 * max(1.0, abs(b))


def _pipeline_cli(i):
    """VCF -> per-segment BAF through `cnvkit.py call -v` / `cnvkit.py export nexus-ogt`: write the segment table
    and the VCF, run the argument vector of the case the way cnvkit.py does, take the table the command hands to
    its writer (files carry 6 significant digits) and check that the written file reads back equal to it"""
    import logging
    import pandas as pd
    from skgenome import tabio
    from cnvlib import commands
    from cnvlib.cmdutil import read_cna
    from cnvlib.cnary import CopyNumArray as CNA
    d = tempfile.mkdtemp(dir="/var/tmp", prefix="c18cli")
    try:
        paths = {"seg": os.path.join(d, "s.cns"), "vcf": os.path.join(d, "s.vcf"), "out": os.path.join(d, "s.out")}
        with open(paths["vcf"], "w") as f:
            f.write(vcf_text(i["vcf"]))
        segment = i.get("via") == "segment"
        if segment:
            segarr = _bins_cna(i["bins"])  # log2 values are short dyadic fractions: the file is exact
        elif i.get("weights") is not None:
            segarr = CNA.from_rows([(c, s, e, "-", 0.0, 10, w) for (c, s, e), w in zip(i["segs"], i["weights"])],
                                   columns=_SEG_COLS + ["weight"])
        else:
            segarr = CNA.from_rows([(c, s, e, "-", 0.0, 10) for c, s, e in i["segs"]], columns=_SEG_COLS)
        tabio.write(segarr, paths["seg"])  # integer coordinates, log2 0: the file is exact
        argv = [a.format(**paths) if a.startswith("{") else a for a in i["argv"]]
        nexus = argv[:2] == ["export", "nexus-ogt"]
        captured = []

        class _Tab:
            def __getattr__(self, name):
                return getattr(tabio, name)

            def write(self, garr, outfname=None, *a, **k):
                captured.append(garr.data)
                return tabio.write(garr, outfname, *a, **k)
        real_wdf = commands.write_dataframe

        def _wdf(outfname, dframe, *a, **k):
            captured.append(dframe)
            return real_wdf(outfname, dframe, *a, **k)
        saved_tab, quiet = commands.tabio, logging.root.manager.disable
        commands.tabio, commands.write_dataframe = _Tab(), _wdf
        logging.disable(logging.CRITICAL)
        try:
            args = commands.parse_args(argv)
            args.func(args)
        finally:
            logging.disable(quiet)
            commands.tabio, commands.write_dataframe = saved_tab, real_wdf
        if len(captured) != 1 or not os.path.exists(paths["out"]):
            raise CliOutputError("the command did not write exactly one table to the requested output")
        tbl = captured[0]
        if segment:
            ans = _segment_answer(tbl, i["bins"])
            back = read_cna(paths["out"]).data
            if [list(g) for g in zip(back["chromosome"].astype(str), back["start"].astype(int),
                                     back["end"].astype(int))] != ans["segs"] or \
                    ("baf" in tbl.columns) != ("baf" in back.columns) or (
                    "baf" in tbl.columns and not all(_same_num(a, b) for a, b in zip(back["baf"], tbl["baf"]))):
                raise CliOutputError("the written file does not read back as the table the command computed")
            return ans
        want = _kept_segs(i)
        if len(tbl) != len(want):
            raise CliOutputError(f"{len(tbl)} output rows for {len(want)} segments")
        if nexus:
            coords = [(str(r[0]), int(r[1]), int(r[2])) for r in tbl.iloc[:, :3].itertuples(index=False)]
            baf = tbl["B-Allele Frequency"]
            back = pd.read_csv(paths["out"], sep="\t", dtype={0: str})
            bcoords = [(str(r[0]), int(r[1]), int(r[2])) for r in back.iloc[:, :3].itertuples(index=False)]
            bbaf = back.iloc[:, 4] if back.shape[1] == 5 else None
        else:
            coords = [(str(c), int(s), int(e)) for c, s, e in zip(tbl["chromosome"], tbl["start"], tbl["end"])]
            # `if variants:` is False for an empty het table: do_call then adds no baf column at all
            baf = tbl["baf"] if "baf" in tbl.columns else None
            back = read_cna(paths["out"]).data
            bcoords = [(str(c), int(s), int(e)) for c, s, e in zip(back["chromosome"], back["start"], back["end"])]
            bbaf = back["baf"] if "baf" in back.columns else None
        if coords != [(c, s, e) for c, s, e in want]:
            raise CliOutputError("output rows are not the segments of the input, in order")
        if bcoords != coords or (baf is None) != (bbaf is None) or (
                baf is not None and not all(_same_num(a, b) for a, b in zip(bbaf, baf))):
            raise CliOutputError("the written file does not read back as the table the command computed")
        return [float("nan")] * len(tbl) if baf is None else list(baf)
    finally:
        shutil.rmtree(d, ignore_errors=True)


def _cli_options(i):
    """run the argument vector the way cnvkit.py does, up to the command's call of load_het_snps: what that function
    receives, bound to ITS parameter names (positional or keyword), defaults applied"""
    import inspect
    import logging
    from cnvlib import commands, cmdutil
    from cnvlib.cnary import CopyNumArray as CNA
    d = tempfile.mkdtemp(dir="/var/tmp", prefix="c18opt")
    try:
        paths = {"seg": os.path.join(d, "s.cns"), "vcf": os.path.join(d, "s.vcf"), "out": os.path.join(d, "s.out")}
        argv = [a.format(**paths) if a.startswith("{") else a for a in i["argv"]]
        seg = CNA.from_rows([("chr1", 0, 1000, "-", 0.0, 10, 1.0), ("chr1", 1000, 2000, "-", 0.5, 10, 1.0)],
                            columns=_SEG_COLS + ["weight"], meta_dict={"sample_id": "s"})
        got = {}

        class _Reached(Exception):
            pass

        def _fake(*a, **k):
            got["bound"] = inspect.signature(cmdutil.load_het_snps).bind(*a, **k)
            raise _Reached()
        saved = commands.load_het_snps, commands.read_cna
        quiet = logging.root.manager.disable
        commands.load_het_snps, commands.read_cna = _fake, (lambda *a, **k: seg.copy())
        logging.disable(logging.CRITICAL)
        cwd = os.getcwd()
        os.chdir(d)
        try:
            try:
                args = commands.parse_args(argv)
            except SystemExit as exc:
                raise CliOutputError(f"the argument vector is not accepted: exit {exc.code}")
            if args.func.__name__ != i["cmd"]:
                raise CliOutputError(f"{argv[:2]} runs {args.func.__name__}, not {i['cmd']}")
            try:
                args.func(args)
            except _Reached:
                pass
        finally:
            os.chdir(cwd)
            logging.disable(quiet)
            commands.load_het_snps, commands.read_cna = saved
        if "bound" not in got:
            raise CliOutputError("the command did not call load_het_snps")
        b = got["bound"]
        b.apply_defaults()
        a = b.arguments
        if a["vcf_fname"] != paths["vcf"]:
            raise CliOutputError("load_het_snps did not receive the VCF file name")
        zf = a["zygosity_freq"]
        return [a["sample_id"], a["normal_id"], a["min_variant_depth"], None if zf is None else frac(zf),
                bool(a["tumor_boost"])]
    finally:
        shutil.rmtree(d, ignore_errors=True)


def run_impl(case):
    from skgenome import tabio
    from cnvlib import cmdutil, call, vary
    op, i = case["op"], case["in"]
    if op == "vcf_cliopts":
        return _cli_options(i)
    if op == "vcf_read":
        fn = _write_vcf(i["vcf"])
        try:
            if i.get("implicit"):
                given = {"sample_id": i["sid"], "normal_id": i["nid"], "min_depth": i["min_depth"],
                         "skip_reject": i["skip_reject"], "skip_somatic": i["skip_somatic"]}
                t = tabio.read(fn, "vcf", **{k: x for k, x in given.items() if x is not None and x is not False})
            else:
                t = tabio.read(fn, "vcf", sample_id=i["sid"], normal_id=i["nid"], min_depth=i["min_depth"],
                               skip_reject=i["skip_reject"], skip_somatic=i["skip_somatic"])
        finally:
            os.unlink(fn)
        return _table_json(t)
    if op == "vcf_hets":
        fn = _write_vcf(i["vcf"])
        try:
            a, kw = _het_kwargs(i)
            t = cmdutil.load_het_snps(fn, *a, **kw)
        finally:
            os.unlink(fn)
        return _table_json(t)
    if op in ("vcf_baf", "vcf_mirror"):
        va = _va(i["table"])
        if i.get("reuse"):  # earlier questions to the same object leave it as it was
            if len(va):
                va.baf_by_ranges(_segs_ga(i["segs"] if op == "vcf_baf" else [[va.chromosome.iat[0], 0, 10 ** 6]]),
                                 above_half=True, tumor_boost=True)
                va.mirrored_baf(above_half=False, tumor_boost=True)
            va.heterozygous()
            va.zygosity_from_freq(0.25, 0.75)
        if op == "vcf_mirror":
            return _series(va.mirrored_baf(**_baf_kwargs(i)))
        return _series(va.baf_by_ranges(_segs_ga(i["segs"], i.get("segs_fill"), i.get("segs_cna")), **_baf_kwargs(i)))
    if op == "vcf_pipeline" and i.get("cli"):
        out = _pipeline_cli(i)
        return out if isinstance(out, dict) else _series(out)
    if op == "vcf_pipeline":
        fn = _write_vcf(i["vcf"])
        try:
            a, kw = _het_kwargs(i, False)
            varr = cmdutil.load_het_snps(fn, *a, **kw)
        finally:
            os.unlink(fn)
        if i.get("via") == "segment":
            from cnvlib import segmentation
            out = segmentation.do_segmentation(_bins_cna(i["bins"]), i["seg_method"], variants=varr)
            return _segment_answer(out.data, i["bins"])
        segarr = _segs_ga(i["segs"], i.get("segs_fill"), True)
        if not len(varr):
            # `if variants:` is False for an empty array: do_call adds no baf column at all
            return [None] * len(segarr)
        kw = {} if i.get("implicit") and i["purity"] is None else {"purity": i["purity"]}
        out = call.do_call(segarr, variants=varr, method="none", is_sample_female=True, **kw)
        if [(str(c), int(b), int(e)) for c, b, e in zip(out["chromosome"], out["start"], out["end"])] != \
                [tuple(g) for g in i["segs"]]:
            raise CliOutputError("do_call's rows are not the segments it was given, in order")
        return _series(out["baf"])
    if op == "vcf_boost":
        import numpy as np
        if i.get("method"):
            rows = [["chr1", k, k + 1, "A", "G", False, ["1/2", "32", frac(Fraction(t) * 32), t],
                     ["1/2", "32", frac(Fraction(n) * 32), n]] for k, (t, n) in enumerate(zip(i["t"], i["n"]))]
            va = _va({"paired": True, "rows": rows, "drop": i.get("fill")})
            ser = va.tumor_boost()
            return _series([ser.loc[lbl] for lbl in va.data.index])
        t = np.array([float(Fraction(x)) for x in i["t"]])
        n = np.array([float(Fraction(x)) for x in i["n"]])
        return _series(vary._tumor_boost(t, n))
    if op == "vcf_rescale":
        import pandas as pd
        obs = pd.Series([float("nan") if x is None else float(Fraction(x)) for x in i["obs"]])
        return _series(call.rescale_baf(float(Fraction(i["purity"])), obs))
    raise ValueError(op)


# ---------------------------------------------------------------------------------------------
# Lean side


def _sel_json(x):
    return x


def to_line(case, impl):
    op, i = case["op"], dict(case["in"])
    if op == "vcf_cliopts":
        i.pop("argv", None)
        if i["zyg"] is None:
            i.pop("zyg")
        elif i["zyg"] != "bare":
            i["zyg"] = frac(float(i["zyg"]))
    if "vcf" in i:
        i.update(model_vcf(i.pop("vcf")))
    if op in ("vcf_hets", "vcf_pipeline"):
        zf = i.get("zyg_freq")
        i["zyg_freq"] = None if zf is None else [frac(zf), frac(1 - zf)]
    for k in ("implicit", "reuse", "segs_fill", "segs_cna", "method", "fill"):
        i.pop(k, None)
    if op == "vcf_pipeline":
        if i.get("via") == "segment":  # the ranges are the segments the code came up with
            i["segs"] = impl["segs"] if isinstance(impl, dict) and "segs" in impl else []
            impl = impl["baf"] if isinstance(impl, dict) and "baf" in impl else impl
        else:
            i["segs"] = _kept_segs(i)
        for k in ("cli", "argv", "via", "bins", "seg_method", "weights", "min_weight"):
            i.pop(k, None)
        p = i.get("purity")
        i["purity"] = None if (p is None or p >= 1.0) else frac(p)
    if "table" in i:
        t = i["table"]
        i["table"] = {"paired": t["paired"], "rows": t["rows"]}
    line = {"op": op, "in": i}
    if isinstance(impl, dict) and "__error__" in impl:
        line["impl"] = {"error": impl["__error__"]}
    else:
        line["impl"] = impl
    return line


def _close(a, b, tol=1e-9):
    """a, b: rational strings / 'inf' / None"""
    if a is None or b is None or a == "inf" or b == "inf":
        return a == b
    fa, fb = float(Fraction(a)), float(Fraction(b))
    return abs(fa - fb) <= tol * max(1.0, abs(fb))


def _rows_equal(ri, rm):
    if ri[:6] != rm[:6]:
        return False
    for gi, gm in ((ri[6], rm[6]), (ri[7], rm[7])):
        if (gi is None) != (gm is None):
            return False
        if gi is not None and not all(_close(x, y) for x, y in zip(gi, gm)):
            return False
    return True


def _dyadic_case(case):
    i = case["in"]
    if "table" in i:
        return bool(i["table"].get("dyadic"))
    return bool(i.get("dyadic"))


def _unwrap(impl):
    """a do_segmentation answer carries its segments along: the BAFs are what is judged"""
    return impl["baf"] if isinstance(impl, dict) and "baf" in impl else impl


def _judge_cliopts(case, impl, resp):
    spec = list(resp.get("spec") or [])
    out = resp["out"]
    ierr = impl["__error__"] if isinstance(impl, dict) and "__error__" in impl else None
    if ierr:
        return (spec or ["cli_reads_the_vcf_options"]), [], None
    if isinstance(out, dict):
        return spec, ([] if spec else ["the command's load_het_snps call is outside the model: " + str(out)]), None
    same = len(impl) == len(out) and all(
        (a == b) if (k != 3 or a is None or b is None) else Fraction(a) == Fraction(b)
        for k, (a, b) in enumerate(zip(impl, out)))
    return spec, ([] if spec or same else [f"load_het_snps received {impl}, model {out}"]), None


def judge(case, impl, resp):
    impl = _unwrap(impl)
    if "error" in resp and "out" not in resp:
        return [], ["model error: " + str(resp["error"])], None
    if case["op"] == "vcf_cliopts":
        return _judge_cliopts(case, impl, resp)
    spec = list(resp.get("spec") or [])
    out = resp["out"]
    disagree = []
    ierr = impl["__error__"] if isinstance(impl, dict) and "__error__" in impl else None
    merr = out.get("error") if isinstance(out, dict) else None
    if ierr or merr:
        if ierr != merr:
            disagree.append(f"{case['op']}: impl raises {ierr} ({(impl or {}).get('msg') if ierr else ''}), model {merr}")
    elif isinstance(out, dict):
        if impl["paired"] != out["paired"]:
            disagree.append("paired columns differ")
        elif len(impl["rows"]) != len(out["rows"]):
            disagree.append(f"row count impl {len(impl['rows'])} model {len(out['rows'])}")
        else:
            for k, (ri, rm) in enumerate(zip(impl["rows"], out["rows"])):
                if not _rows_equal(ri, rm):
                    disagree.append(f"row {k}: impl {ri} model {rm}")
                    break
    else:
        # the property leaves the mirroring side open when none is asked for: a value and its mirror
        # image 1 - value are the same observable (per range for BAFs, for the whole array for mirrored_baf)
        side_free = case["op"] in ("vcf_baf", "vcf_mirror", "vcf_pipeline") and case["in"].get("above") is None
        flip = lambda b: None if b is None else frac(1 - Fraction(b))
        if len(impl) != len(out):
            disagree.append(f"length impl {len(impl)} model {len(out)}")
        elif case["op"] == "vcf_mirror":
            if not (all(_close(a, b) for a, b in zip(impl, out)) or
                    (side_free and all(_close(a, flip(b)) for a, b in zip(impl, out)))):
                disagree.append(f"mirrored values differ: impl {impl[:6]} model {out[:6]}")
        else:
            for k, (a, b) in enumerate(zip(impl, out)):
                if not (_close(a, b) or (side_free and _close(a, flip(b)))):
                    disagree.append(f"value {k}: impl {a} model {b}")
                    break
    # knife-edge: a frequency within 1e-9 of (but not exactly on) a zygosity threshold, or a median
    # within 1e-9 of 0.5 computed from numbers on which float arithmetic is not exact
    if (disagree or spec) and not (ierr or merr):
        zs, ms = resp.get("slack"), resp.get("mslack")
        if zs is not None and 0 < float(Fraction(zs)) < 1e-9:
            return [], [], f"knife-edge: threshold slack {zs}"
        if ms is not None and float(Fraction(ms)) < 1e-9 and not _dyadic_case(case):
            return [], [], f"knife-edge: median slack {ms}"
    if spec and ierr and ierr not in ERRS:
        spec = ["raises_" + ierr] + spec
    return spec, ([] if spec else disagree), None


def nontrivial(case, impl, resp):
    impl = _unwrap(impl)
    op, i = case["op"], case["in"]
    if isinstance(impl, dict) and "__error__" in impl:
        return False
    if op == "vcf_cliopts":
        return True
    if op in ("vcf_read", "vcf_hets"):
        return len(i["vcf"]["records"]) >= 1 and len(impl["rows"]) >= 1
    if op in ("vcf_baf", "vcf_pipeline"):
        return any(x is not None for x in impl)
    return len(impl) >= 1


# known findings -------------------------------------------------------------------------------


def classify_no_het_fallback(case, impl, resp):
    """open finding X: no record is germline-heterozygous, `heterozygous()` then returns every record
    (documented fallback) -- only that shape: the model's het table / BAF input holds no het row"""
    op, i = case["op"], case["in"]
    if isinstance(impl, dict) and "__error__" in impl:
        return False
    if op == "vcf_hets":
        rows = impl["rows"]
        key = (lambda r: r[7][0]) if impl["paired"] else (lambda r: r[6][0])
        return len(rows) > 0 and all(key(r) in ("0", "1") for r in rows)
    if op == "vcf_baf":
        t = i["table"]
        key = (lambda r: r[7][0]) if t["paired"] else (lambda r: r[6][0])
        return len(t["rows"]) > 0 and all(key(r) in ("0", "1") for r in t["rows"])
    if op == "vcf_pipeline":
        return bool(resp.get("nohet"))
    return False


# shrinking ------------------------------------------------------------------------------------


def shrink(case):
    i = case["in"]
    if "vcf" in i:
        recs = i["vcf"]["records"]
        for k in range(len(recs)):
            c = {"op": case["op"], "tag": "shrunk", "in": dict(i)}
            c["in"]["vcf"] = dict(i["vcf"], records=recs[:k] + recs[k + 1:])
            yield c
        if len(recs) > 4:
            for half in (recs[: len(recs) // 2], recs[len(recs) // 2:]):
                c = {"op": case["op"], "tag": "shrunk", "in": dict(i)}
                c["in"]["vcf"] = dict(i["vcf"], records=half)
                yield c
    if "table" in i:
        t = i["table"]
        for k in range(len(t["rows"])):
            c = {"op": case["op"], "tag": "shrunk", "in": dict(i)}
            c["in"]["table"] = dict(t, rows=t["rows"][:k] + t["rows"][k + 1:], drop=t["drop"][:k] + t["drop"][k + 1:])
            yield c
    if i.get("segs"):
        for k in range(len(i["segs"])):
            c = {"op": case["op"], "tag": "shrunk", "in": dict(i)}
            c["in"]["segs"] = i["segs"][:k] + i["segs"][k + 1:]
            for key in ("segs_fill", "weights"):
                if i.get(key):
                    c["in"][key] = i[key][:k] + i[key][k + 1:]
            yield c
