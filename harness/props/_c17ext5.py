"""C17, round 5: `do_bintest(cnarr, segments=None, ...)` / `cnvkit.py bintest <cnr>` without -s (op `bintest_noseg`,
Model/StatsExt5.lean, Driver/StatsExt5.lean).  The real code takes the residual of every bin from the median log2 of
its chromosome (`CopyNumArray.residuals(None)`); everything after that is the code the op `bintest` already ties.
Generator: 1-3 chromosomes (also single-bin chromosomes: residual exactly 0), off-target bins, weight-1 bins, ties,
alpha grid plus alpha = 1.5 (accepted by bintest: every tested bin comes back), target_only on/off, the API call
styles and table representations of the op `bintest`, ~20 % through the command line (no -s; -a/-t/-o spellings,
output to a file or to standard output)."""
from __future__ import annotations

import os
from fractions import Fraction

from ..core import frac


def params_noseg(i):
    """normal-tail table: for every bin, z as z_prob computes it from the residual against the chromosome median"""
    import numpy as np
    import pandas as pd
    from scipy.stats import norm

    phi = [[frac(0), frac(float(2.0 * norm.cdf(-0.0)))]]
    bins = i["bins_f"]
    for c in {b[0] for b in bins}:
        sub = [b for b in bins if b[0] == c]
        lg = pd.Series([b[4] for b in sub], dtype=float)
        resid = (lg - lg.median()).to_numpy()
        for b, r in zip(sub, resid):
            if b[5] < 1 and r != 0:
                z = r / np.sqrt(1 - b[5])
                phi.append([frac(Fraction(float(z)) ** 2), frac(float(2.0 * norm.cdf(-abs(z))))])
    return {"phi": phi}


def _cli_noseg(i):
    """`cnvkit.py bintest S.cnr [-a A] [-t] [-o OUT]` in-process; returns the table handed to the writer"""
    import contextlib
    import logging
    import shutil
    import tempfile
    from cnvlib import commands
    from cnvlib.cmdutil import read_cna
    from skgenome import tabio
    from . import C17 as base

    d = tempfile.mkdtemp(prefix="c17ns", dir="/var/tmp")
    quiet = logging.root.manager.disable
    logging.disable(logging.CRITICAL)
    try:
        fb, fo = os.path.join(d, "S.cnr"), os.path.join(d, "S.out.tsv")
        cn = base._mk_bins(i)
        tabio.write(cn, fb)
        if not base._same_table(read_cna(fb), cn, ["log2", "weight"], 0.0):
            raise AssertionError("harness slip: the written bin table does not carry the case's numbers exactly")
        before = open(fb, "rb").read()
        captured = []

        class _Tab:
            def __getattr__(self, name):
                return getattr(tabio, name)

            def write(self, garr, outfname=None, *a, **k):
                captured.append((garr, outfname))
                return tabio.write(garr, outfname, *a, **k)
        style = i.get("cli_style", 0)
        long_ = bool(style & 1)
        opts = []
        if "alpha" not in i.get("cli_implicit", []):
            opts += ["--alpha=" + repr(i["alpha_f"])] if long_ else ["-a", repr(i["alpha_f"])]
        if i["target_only"]:
            opts += ["--target" if long_ else "-t"]
        if not i.get("cli_noout"):
            opts += ["--output" if long_ else "-o", fo]
        argv = ["bintest"] + ([fb] + opts if style & 2 else opts + [fb])
        saved = commands.tabio
        commands.tabio = _Tab()
        try:
            args = commands.parse_args(argv)
            if args.segment is not None:
                raise AssertionError("harness slip: a segment file on a segment-less command line")
            if i.get("cli_noout"):
                with open(fo, "w") as h, contextlib.redirect_stdout(h):
                    args.func(args)
                    captured = [(g, fo if n is h else n) for g, n in captured]
            else:
                args.func(args)
        finally:
            commands.tabio = saved
        if len(captured) != 1 or captured[0][1] != fo or not os.path.exists(fo):
            raise AssertionError("cnvkit.py bintest did not write exactly one table to the requested output")
        out = captured[0][0]
        if len(out) == 0:
            with open(fo) as h:
                ok = len([ln for ln in h.read().splitlines() if ln.strip()]) <= 1
        else:
            ok = base._same_table(read_cna(fo), out, ["log2", "weight", "p_bintest"], 1e-5)
        if not ok:
            raise AssertionError("the file written by cnvkit.py bintest does not read back as the table it computed")
        return out, before == open(fb, "rb").read()
    finally:
        logging.disable(quiet)
        shutil.rmtree(d, ignore_errors=True)


def run_noseg(i):
    """alpha >= 1 is outside the property's quantifier (alpha in (0,1)); today's bintest accepts it and the model says
    what comes back (every tested bin), but a refusal would be legitimate: it is recorded, not judged"""
    if i["alpha_f"] >= 1:
        try:
            return _run_noseg(i)
        except (ValueError, RuntimeError, SystemExit) as e:
            return {"hits": [], "refused": type(e).__name__, "input_unmutated": True, "_params": params_noseg(i)}
    return _run_noseg(i)


def _run_noseg(i):
    from cnvlib import bintest
    from . import C17 as base

    if i.get("cli"):
        out, unmut = _cli_noseg(i)
        labels = list(range(len(i["bins_f"])))
    else:
        cn = base._mk_bins(i)
        cn0 = cn.data.copy()
        style = i.get("call", "kw")
        if style == "pos":
            out = bintest.do_bintest(cn, None, i["alpha_f"], i["target_only"])
        elif style == "omit":
            kw = {}
            if i["alpha_f"] != 0.005:
                kw["alpha"] = i["alpha_f"]
            if i["target_only"]:
                kw["target_only"] = True
            out = bintest.do_bintest(cn, **kw)               # `segments` left to its default
        else:
            out = bintest.do_bintest(cn, segments=None, alpha=i["alpha_f"], target_only=i["target_only"])
        unmut = bool(cn.data.equals(cn0))
        labels = [int(x) for x in cn.data.index]
    d = out.data
    pos = {lab: k for k, lab in enumerate(labels)}
    hits = [[pos.get(int(lab), len(labels) + abs(int(lab))), base._num(l), base._num(p)]
            for lab, l, p in zip(d.index, d["log2"], d["p_bintest"])]
    for h, c, s, e, g in zip(hits, d["chromosome"], d["start"], d["end"], d["gene"]):
        if h[0] < len(labels):
            b = i["bins_f"][h[0]]
            if [str(c), int(s), int(e), str(g)] != [b[0], b[1], b[2], b[3]]:
                h[0] = len(labels) + h[0]
    return {"hits": hits, "input_unmutated": unmut, "_params": params_noseg(i)}


def noseg_case(rng, cli=False):
    from . import C17 as base
    pool = [1, 1, 2, 3, 4, 5, 8, 15, 30]
    anti_p = 0.3 if rng.random() < 0.6 else 0.0
    bins, _segs = base._tables(rng, lambda: rng.choice(pool), anti_p=anti_p, straddle_p=0.0, api=not cli)
    if not bins:
        bins, _segs = base._tables(rng, lambda: 4, anti_p=0.3, api=not cli)
    for b in bins:
        if rng.random() < 0.1:
            b[4] = b[4] + rng.choice([-3.0, 2.5, 4.0, -1.5])
    if rng.random() < 0.15 and bins:
        # a chromosome with a single bin: its residual is exactly 0 whatever its log2 and weight
        bins.append(["chr9", 1000, 1200, "Solo", rng.choice([2.5, -1.0, 0.0]), rng.choice([1.0, 0.5])])
    if cli:
        base._round6(bins, [], False)
    i = base._pack(bins, [], False)
    alpha = rng.choice([0.005, 0.05, 0.5, 0.25, 0.001, 0.9, 1.5])
    i.update({"alpha": frac(alpha), "alpha_f": alpha, "target_only": rng.random() < 0.5})
    rp = base._repr(rng, cli, seg_extra=False)
    rp.pop("ssub", None)
    i.update({"call": "kw" if cli else rng.choice(["kw", "pos", "omit"]), "repr": rp})
    if i["call"] == "omit" and rng.random() < 0.5:
        i.update({"alpha": frac(0.005), "alpha_f": 0.005})
    tag = "noseg"
    if cli:
        implicit = []
        if rng.random() < 0.3:
            i.update({"alpha": frac(0.005), "alpha_f": 0.005})
            implicit.append("alpha")
        i.update({"cli": True, "cli_implicit": implicit, "cli_style": rng.randrange(4)})
        if rng.random() < 0.25:
            i["cli_noout"] = True
        tag = "cli-noseg"
    return {"op": "bintest_noseg", "tag": tag, "in": i}


def gen_noseg(rng, tier):
    import random
    r = random.Random(rng.getrandbits(64))
    n_api, n_cli = {"quick": (90, 22), "thorough": (800, 200), "search": (80, 16)}[tier]
    return [noseg_case(r) for _ in range(n_api)] + [noseg_case(r, cli=True) for _ in range(n_cli)]
