"""C17, round 5c: `do_segmetrics` on segments without bins and on one-bin segments (op `seg_small`,
Model/StatsSmallExt5c.lean, Driver/StatsSmallExt5c.lean, Props/C17Small.lean).  The real `do_segmetrics` runs on a real
bin table / segment table in which segments with 0, 1 and (for company) 3 bins are mixed; the segment's own log2 always
differs from its bins'; every statistic or a random subset is requested (one spread statistic: the generator branch,
several: the list branch); `smoothed` on/off, bootstraps 0 / 5 / 100 / 1000, alpha 0.05 / 0.3 / 0.5 / 0.9.  Compared
cell by cell with the model on every segment with at most one bin: NaN where the model says NaN, the number otherwise."""
from __future__ import annotations

from fractions import Fraction

from ..core import frac

LOC = ["mean", "median", "mode", "p_ttest"]
SPREAD = ["stdev", "sem", "mad", "mse", "iqr", "bivar"]
COLS = LOC + SPREAD + ["ci_lo", "ci_hi", "pi_lo", "pi_hi"]


def run_small(i):
    import numpy as np
    import pandas as pd
    from cnvlib import segmetrics
    from cnvlib.cnary import CopyNumArray as CNA

    brow, srow = [], []
    for k, (chrom, slog2, bins) in enumerate(i["raw_f"]):
        s0 = 10000 * (k + 1)
        srow.append((chrom, s0, s0 + 5000, "G", slog2, len(bins), 1.0))
        for j, (lg, w) in enumerate(bins):
            brow.append((chrom, s0 + 100 + 300 * j, s0 + 300 + 300 * j, "G", lg, w))
    cn = CNA(pd.DataFrame(brow, columns=["chromosome", "start", "end", "gene", "log2", "weight"]).astype(
        {"start": int, "end": int, "log2": float, "weight": float}))
    sg = CNA(pd.DataFrame(srow, columns=["chromosome", "start", "end", "gene", "log2", "probes", "weight"]))
    cn0, sg0 = cn.data.copy(), sg.data.copy()
    st = i["stats"]
    out = segmetrics.do_segmetrics(
        cn, sg, location_stats=[x for x in LOC if x in st], spread_stats=[x for x in SPREAD if x in st],
        interval_stats=[x for x in ("ci", "pi") if x in st], alpha=i["alpha_f"], bootstraps=i["bootstraps"],
        smoothed=i["smoothed"]).data
    if len(out) != len(srow):
        raise AssertionError("row count changed")
    rows = []
    for k in range(len(out)):
        r = {}
        for c in COLS:
            if c in out.columns:
                v = float(out[c].iloc[k])
                r[c] = None if np.isnan(v) else frac(Fraction(v))
        rows.append(r)
    return {"rows": rows, "log2_kept": [float(x) for x in out["log2"]] == [float(x[1]) for x in i["raw_f"]],
            "input_unmutated": bool(cn.data.equals(cn0) and sg.data.equals(sg0))}


def wanted(stats):
    w = [c for c in LOC + SPREAD if c in stats]
    for nm in ("ci", "pi"):
        if nm in stats:
            w += [nm + "_lo", nm + "_hi"]
    return w


def judge_small(case, impl, resp):
    i = case["in"]
    spec, dis = [], []
    if not impl.get("input_unmutated", True):
        spec.append("segmetrics_input_unchanged")
    if not impl.get("log2_kept", True):
        dis.append("segment log2 changed")
    want = wanted(i["stats"])
    for k, (m, r) in enumerate(zip(resp["out"], impl["rows"])):
        if m is None:
            continue
        if sorted(r) != sorted(want):
            dis.append(f"segment {k}: columns {sorted(r)} instead of {sorted(want)}")
            break
        for c in want:
            mv, iv = m[COLS.index(c)], r[c]
            if (mv is None) != (iv is None):
                dis.append(f"segment {k} ({len(i['segs'][k][1])} bins) {c}: model {mv} impl {iv}")
            elif mv is not None:
                a, b = float(Fraction(mv)), float(Fraction(iv))
                if abs(a - b) > 1e-9 * max(1.0, abs(a), abs(b)):
                    dis.append(f"segment {k} ({len(i['segs'][k][1])} bins) {c}: model {mv} impl {iv}")
        if dis:
            break
    return spec, dis, None


def small_case(rng, tag=None):
    vals = [0.75, -1.25, 0.0, 2.5, -0.3, 0.1, 1e-3, -4.0, 0.2]
    nseg = rng.choice([1, 2, 3, 4, 6])
    raw, kinds = [], []
    for k in range(nseg):
        kind = rng.choice([0, 0, 1, 1, 1, 3])
        chrom = "chr1" if k < (nseg + 1) // 2 or rng.random() < 0.5 else "chr2"
        if raw and raw[-1][0] == "chr2":
            chrom = "chr2"
        bins = [[rng.choice(vals) if rng.random() < 0.6 else round(rng.uniform(-3, 3), 4),
                 rng.choice([1.0, 0.5, 0.25, round(rng.uniform(0.05, 1.0), 3)])] for _ in range(kind)]
        slog2 = rng.choice(vals)
        while any(abs(slog2 - b[0]) < 0.05 for b in bins):   # the segment's log2 differs from its bins'
            slog2 += 0.37
        raw.append([chrom, slog2, bins])
        kinds.append(kind)
    if not any(len(r[2]) for r in raw):
        raw[0][2] = [[0.75, 0.5]]                            # the bin table must not be empty
        if abs(raw[0][1] - 0.75) < 0.05:
            raw[0][1] += 0.37
    allst = LOC + SPREAD + ["ci", "pi"]
    r = rng.random()
    if r < 0.5:
        stats = list(allst)
    elif r < 0.7:
        stats = [rng.choice(SPREAD)] + rng.sample(["ci", "pi", "mean"], 2)   # ONE spread statistic: generator branch
    else:
        stats = [s for s in allst if rng.random() < 0.5] or ["ci"]
    alpha = rng.choice([0.05, 0.3, 0.5, 0.9])
    i = {"segs": [[frac(Fraction(s)), [frac(Fraction(b[0])) for b in bins]] for _c, s, bins in raw], "raw_f": raw,
         "alpha": frac(alpha), "alpha_f": alpha, "bootstraps": rng.choice([0, 5, 100, 1000]),
         "smoothed": rng.random() < 0.5, "stats": stats}
    if tag is None:
        n0 = sum(1 for r_ in raw if not r_[2])
        n1 = sum(1 for r_ in raw if len(r_[2]) == 1)
        tag = "small-" + ("empty+one" if n0 and n1 else "empty" if n0 else "one" if n1 else "none") + \
              ("-smooth" if i["smoothed"] and "ci" in stats else "")
    return {"op": "seg_small", "tag": tag, "in": i}


def gen_small(rng, tier):
    import random
    r = random.Random(rng.getrandbits(64))
    n = {"quick": 80, "thorough": 600, "search": 60}[tier]
    return [small_case(r) for _ in range(n)]


def nontrivial_small(case, impl, resp):
    return any(len(s[1]) <= 1 for s in case["in"]["segs"])


def shrink_small(case):
    import copy
    i = case["in"]
    for k in range(len(i["segs"])):
        if len(i["segs"]) > 1:
            j = copy.deepcopy(i)
            del j["segs"][k]
            del j["raw_f"][k]
            if any(len(r[2]) for r in j["raw_f"]):
                yield {"op": "seg_small", "tag": case.get("tag"), "in": j}
    for k in range(len(i["stats"])):
        if len(i["stats"]) > 1:
            j = copy.deepcopy(i)
            del j["stats"][k]
            yield {"op": "seg_small", "tag": case.get("tag"), "in": j}
