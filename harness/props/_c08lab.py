"""C08, round 5: the pattern of `rangelabel.re_label` and the whole of `from_label` (hooked into C08.py like _c08ext).

  lab_parse : texts (valid `chr:start-end` labels with / without gene part, open-ended `chr:start-` / `chr:-end`,
              labels without chromosome, trailing newline / tabs / several words, near misses that must be REFUSED,
              random strings over the label alphabet) -> `re_label.match(text).groups()` and
              `from_label(text, keep_gene)` of the real code (value or ValueError), against
                (1) the groups of the pattern AST regenerated from the source text (Generated/RegexLabel.lean) under the
                    backtracking semantics of Model/FormatsExt5Label.lean,
                (2) the hand-written parser Fmt.fromLabel (proved equal to (1): Props/C08Label.lean),
                (3) the full model Fmt.C08L.fromLabelFull (shift, None for open ends, keep_gene).
              A text of the strict form name:digits-digits must be read as (name, digits-1, digits): clause
              `coords_zero_based_half_open` (the harness splits the text itself, without the repo's pattern).
"""
from __future__ import annotations

EXT_OPS = ("lab_parse",)

CHROMS = ["chr1", "X", "GL000207.1", "chr17_ctg5_hap1", "1", "chrUn_gl000211", "MT", "chr10", "a.b", "_x", "9", "HLA_A", "c..d", "Z."]
GENES = ["BRCA1", "A,B", "C>T", "-", "+", "x:1-2", "g.1", "NA", "7", "a-b"]
ALPHA = "chr1X._:- \t09ab:--"


def _num(rng):
    return rng.choice([0, 1, 9, 10, 99, 100, rng.randint(0, 3 * 10 ** 8), 3 * 10 ** 8])


def label_text(rng):
    k = rng.random()
    c = rng.choice(CHROMS)
    s, e = _num(rng), _num(rng)
    if k < 0.25:
        t = f"{c}:{s}-{e}"
    elif k < 0.33:
        t = f"{c}:{s}-"
    elif k < 0.41:
        t = f"{c}:-{e}"
    elif k < 0.45:
        t = rng.choice([f":{s}-{e}", ":-", f"{c}:-", ":", "-", f"{c}", f"{c}:", f"{c}:{s}", ""])
    elif k < 0.62:
        sep = rng.choice([" ", "\t", "  ", " \t ", "", "\n"])
        t = f"{c}:{s}-{e}{sep}{rng.choice(GENES)}" + rng.choice(["", "", " more words", "\t1.5"])
    elif k < 0.82:   # near misses: one character of a valid label replaced / inserted / removed
        t = f"{c}:{s}-{e}"
        pos = rng.randrange(len(t) + 1)
        m = rng.random()
        ch = rng.choice(" :;-._\tx0,/")
        if m < 0.4 and pos < len(t):
            t = t[:pos] + ch + t[pos + 1:]
        elif m < 0.7:
            t = t[:pos] + ch + t[pos:]
        elif pos < len(t):
            t = t[:pos] + t[pos + 1:]
    elif k < 0.97:
        t = "".join(rng.choice(ALPHA) for _ in range(rng.randint(0, 12)))
    else:
        t = rng.choice(["chr1:١-٢", "chré:1-2", "chr1:1-2 gène", "chr1:1-2 G", "é1:5-6"])   # outside: non-ASCII
    if rng.random() < 0.3:
        t += "\n"    # read_text hands from_label the line with its newline
    return t


def lab_case(rng, n=40, tag=None, keep=None):
    keep = (rng.random() < 0.7) if keep is None else keep
    return {"op": "lab_parse", "tag": tag or ("labparse" if keep else "labparse-nogene"),
            "in": {"texts": [label_text(rng) for _ in range(n)], "keep": keep}}


CORPUS_TEXTS = ["chr1:10-20", "chr1:10-20\n", "chr1:1-1", "chr1:0-5", "GL000207.1:11-20 G1", "chr1:1234-", "chr1:-5678", ":5-", ":-", ":",
                "chr1", "chr1:", "chr1:12", "chr1-12:13", "chr 1:10-20", " chr1:10-20", ".1:1-2", "a.b:1-2", "-:1-2", "chr1:1-2-3",
                "chr1:1--3", "chr1:10-20\tBRCA1,BRCA2\textra", "chr1:10-20  C>T", "chr1;10-20", "chr1:10_20", "chr1:x-20", "chr1:10-x",
                "chr1:10 -20", "chr1: 10-20", "1:1-2:3-4", "chr1:007-010", "", "\n", "_:1-2", "chr1.:3-4", "chr1:10-20-"]


def corpus():
    return [{"op": "lab_parse", "tag": "corpus-labparse", "in": {"texts": CORPUS_TEXTS, "keep": True}},
            {"op": "lab_parse", "tag": "corpus-labparse-nogene", "in": {"texts": CORPUS_TEXTS, "keep": False}}]


def gen_cases(rng, tier):
    n = {"quick": 1, "thorough": 5, "search": 2}[tier]
    return [lab_case(rng) for _ in range(25 * n)]


# ---------------------------------------------------------------------------------------------
# the real code

def run_impl(case):
    from skgenome.rangelabel import from_label, re_label
    i = case["in"]
    out = {"groups": [], "full": []}
    for t in i["texts"]:
        m = re_label.match(t)
        out["groups"].append(None if m is None else [g or "" for g in m.groups()])
        try:
            r = from_label(t, keep_gene=i["keep"])
            r = list(r) + ([None] if len(r) == 3 else [])
            out["full"].append(r)
        except ValueError as e:
            out["full"].append("ValueError" if str(e).startswith("Invalid range spec") else "ValueError?" + str(e))
    return out


def to_line(case, impl, is_err):
    return {"op": "lab_parse", "in": case["in"]}


def _strict(t):
    """(name, start, end) of a text of the strict form name:digits-digits, split by hand; else None"""
    t = t.rstrip("\n")
    if t.count(":") != 1 or t.count("-") != 1:
        return None
    c, rest = t.split(":")
    a, b = rest.split("-") if "-" in rest else (None, None)
    ok_name = bool(c) and all(ch.isascii() and (ch.isalnum() or ch in "_.") for ch in c) and c[0] != "."
    if not ok_name or not a or not b or not (a.isascii() and a.isdigit() and b.isascii() and b.isdigit()):
        return None
    return [c, int(a) - 1, int(b)]


def judge(case, impl, resp, is_err):
    if "error" in resp and "out" not in resp:
        return [], ["driver error: " + resp["error"]], None
    if is_err(impl):
        return ["raises_" + impl["__error__"]], [], None
    out = resp["out"]
    spec, dis = [], []
    for t, o, g, f in zip(case["in"]["texts"], out, impl["groups"], impl["full"]):
        if o["outside"]:
            continue
        if o["re"] != g:
            dis.append(f"re_label.match({t!r}).groups(): regenerated pattern {o['re']} code {g}")
        elif o["hand"] != g:
            dis.append(f"re_label.match({t!r}).groups(): hand parser {o['hand']} code {g}")
        mf = "ValueError" if isinstance(o["full"], str) and o["full"].startswith("ValueError") else o["full"]
        if mf != f and not dis:
            dis.append(f"from_label({t!r}, keep_gene={case['in']['keep']}): model {mf} code {f}")
        st = _strict(t)
        if st is not None and (not isinstance(f, list) or f[:3] != st):
            spec.append("coords_zero_based_half_open")
        if dis:
            break
    return sorted(set(spec)), dis[:1], None


def nontrivial(case, impl, resp):
    full = impl["full"] if isinstance(impl, dict) and "full" in impl else []
    return sum(1 for f in full if isinstance(f, list)) >= 3 and any(f == "ValueError" for f in full)


def shrink(case):
    texts = case["in"]["texts"]
    if len(texts) > 1:
        for k in range(len(texts)):
            yield {"op": "lab_parse", "tag": "shrunk", "in": {"texts": [texts[k]], "keep": case["in"]["keep"]}}
