"""C03 -- segments tile each chromosome and account for every surviving bin."""
from __future__ import annotations

import math
import random
from fractions import Fraction

from ..core import frac
from .. import c03_outlier as _outl
from .. import c03_baf as _baf

LEVEL = "proof"
RULE = ("bin tables of 1..6 chromosomes (incl. X/Y) x 1..400 bins, optional centromere-sized gap (also at the two extreme "
        "admissible places of by_arm and next to them, exactly 1e5 +- 1 wide, a second hole wider / narrower / equally wide), "
        "zero-weight bins, weights exactly at min_weight, null-coverage bins at the edges and inside, bins failing only "
        "one of the two low-coverage tests or sitting at the log2 cut-off (-15, -15.0001, -14.9999), whole arms / small "
        "chromosomes without a survivor, duplicate / Antitarget / '-' names; methods none, haar, hmm, "
        "hmm-tumor, hmm-germline x skip_low x skip_outliers {0,3,10} x min_weight {0,0.3} x processes {1,2,3,16, 0 = all CPUs}; "
        "the table is held (stratified per method) with default / offset / holed (filtered subset of a larger table) / "
        "permuted pandas labels, in API or .cnr column order or without a depth column (depth = 2**log2), with an extra gc or "
        "baf column; do_segmentation is called with keywords, all-positional, or with defaults left out; threshold given "
        "in 30 %; `variants=` (45 % of none/haar, 15 % of HMM cases: SNVs too few (<= 50 per chromosome) or all at 0.5, so "
        "that the BAF re-segmentation must leave the bin-level segments alone; chromosomes without SNVs, SNVs in holes and "
        "on a foreign contig); 10 % on a table object that was segmented before; "
        "the real do_segmentation output is checked by the Lean tile checker and compared with the Lean model of the "
        "glue run on the partition read off the reported probes; one case in seven goes through the command line "
        "(`cnvkit.py segment` on a written .cnr: -m METHOD, --drop-low-coverage present/absent, --drop-outliers {absent = 10, 0, 3, 10}, "
        "-p {absent = 1, N, bare = all CPUs}, -t {absent, FDR for haar, smoothing window for the HMMs}; the table handed to the "
        ".cns writer is judged like an API result, the written .cns must read back equal to it, and the same call through the "
        "API with the same threshold must give the same segments). Fallback cells: per method (none, haar, an HMM) a table / chromosome / "
        "arm losing every bin to skip_low, zero weights or min_weight; and transfer_fields(segments, cnarr) called on its own "
        "(op transfer: bin table with / without weight column x with / without depth column, one chromosome or several, "
        "segments = runs of bins of which a third span zero-weight bins only and a fifth are left out, segment table with 6 / 8 / "
        "permuted columns, no segments -> the make_null_segment tuple, no bins -> segments unchanged), each real row judged by "
        "the Lean row oracle transferSpec and compared with the model transferFields. Outlier filter on its own (op outlier): "
        "drop_outliers(table, width {50,20,10}, factor {10,5,3,2.5,1,0.5}) on 1..4 chromosomes of width-1 / width / width+1 / "
        "width+2 / longer bins (noise, flat, all-zero, stepped log2; planted outliers on either side), trend and rolling "
        "quantile taken from the real savgol / rolling_quantile, the mask compared with the Lean model dropMask AND with the "
        "rule generated from the source text (knife-edge elements excepted). BAF column of the variants= branch (op seg_baf, "
        "one in six): do_segmentation(bins, none / haar, variants=) on 1..3 chromosomes x 6..125 bins with level steps (several "
        "segments per arm), dropped bins in front / at the end of a chromosome (stretched endpoints), a centromere-sized hole, "
        "<= 50 SNVs per chromosome (frequencies k/64, some in dropped bins and in holes), table held with default / gapped / "
        "permuted / offset labels, keyword / positional / implicit call: the real baf column compared with the Lean model "
        "C03Baf.doSegBaf and judged by the oracle baf_of_own_range. non-trivial = a bin was filtered out or a chromosome "
        "was split into arms or more than one segment was reported; distinct by hash")
EXHAUSTIVE = {"quick": False, "thorough": False}
ASSUMPTIONS = ["input bins sorted, non-overlapping, positive length (a .cnr table)",
               "`variants`, when given, do not make the BAF re-segmentation split a segment (a split segment counts SNVs, "
               "not bins, in `probes` and breaks between SNVs, not between bins: outside the statement)",
               "the smoothed trend (savgol) and the rolling quantile of the residuals are parameters of the outlier model (real smoothing code); in the op segment the whole outlier mask is taken from the real filter",
               "the partition chosen by haar / HMM is read off the real output (cumulative probes): the segmenters are black boxes"]
TRUSTED_EXTRA = ["pomegranate HMM, haar numerics, savgol smoothing (black boxes: only the partition they return is used)",
                 "cnvlib.parallel process pool ordering (pool.map)"]
METHODS = ("none", "haar", "hmm", "hmm-tumor", "hmm-germline")


def _table(rng, big):
    nchrom = rng.randint(1, 3 if not big else 6)
    style = rng.choice(["chr", ""])
    pool = [style + str(i) for i in (1, 2, 3, 7, 10, 21)]
    names = sorted(rng.sample(pool, min(nchrom, len(pool))), key=lambda c: int(c.replace("chr", "")))
    if rng.random() < 0.4:
        names.append(style + "X")
    if rng.random() < 0.2:
        names.append(style + "Y")
    rows = []
    # WGS-like wide bins: one filtered bin inside an arm then opens a hole of centromere size (>= 100 kb)
    # between two SURVIVING bins, so the segmenter's own arm split differs from the split of the input
    wide = rng.random() < 0.3
    for c in names:
        n = rng.choice([1, 2, 3, 8, 30, 60]) if not big else rng.choice([20, 110, 130, 200, 400])
        if wide and rng.random() < 0.7:
            n = rng.randint(105, 170)
        if rng.random() < 0.3:
            n = rng.randint(102, 140)  # enough bins for an arm split
        pos = rng.randint(0, 10 ** 5)
        cm, cm2 = -1, -1
        cmgap = rng.randint(120000, 3 * 10 ** 6)
        if n > 101 and rng.random() < 0.7:
            cm = rng.randint(n // 3, max(n // 3, 2 * n // 3))
            if rng.random() < 0.35:
                # the first bin of the q arm must lie in [margin + 1, n - margin - 1] (margin 50 up to 504 bins):
                # the two extreme admissible places and their inadmissible neighbours
                cm = rng.choice([50, 51, n - 51, n - 50])
            if rng.random() < 0.2:
                cmgap = rng.choice([99999, 100000, 100001])  # the hole must be at least 1e5 wide
            if rng.random() < 0.2:
                cm2 = rng.randint(40, n - 40)  # a second large hole: wider, narrower or exactly as wide (first one wins)
        cmgap2 = rng.choice([cmgap, cmgap, cmgap - rng.randint(1, 50000), cmgap + rng.randint(1, 50000)])
        # a whole chromosome (few bins) or a whole arm without a single surviving bin under skip_low / the weight filter
        dead = (0, 0)
        if rng.random() < 0.12:
            if cm > 0 and rng.random() < 0.8:
                dead = (0, cm) if rng.random() < 0.5 else (cm, n)
            elif n <= 8:
                dead = (0, n)
        dead_kind = rng.choice(["null", "null", "w0"])
        level = 0.0
        gname = 0
        for i in range(n):
            if i == cm:
                pos += cmgap
            elif i == cm2:
                pos += cmgap2
            elif rng.random() < 0.5:
                pos += rng.randint(0, 2000)
            if rng.random() < 0.03:
                level = rng.choice([-1.0, 0.0, 0.585, 1.0])
            ln = rng.randint(50, 500) if not wide else rng.randint(60000, 150000)
            if rng.random() < 0.2:
                gname += 1
            g = rng.choice(["G%d" % gname] * 6 + ["Antitarget", "-", "G%d" % max(0, gname - 2)])
            null = rng.random() < (0.06 if not wide else 0.02) or (i in (0, n - 1) and rng.random() < 0.3)
            if dead[0] <= i < dead[1] and dead_kind == "null":
                null = True
            lg = -20.0 if null else round(level + rng.gauss(0, 0.08), 4)
            if not null and rng.random() < 0.02:
                lg = round(level + rng.choice([-4, 4]), 3)  # outlier
            depth = 0.0 if null else round(50 * 2.0 ** lg, 3)
            if rng.random() < 0.008:
                # the two tests of drop_low_coverage one at a time, and the cut-off log2 < -15 itself
                lg, depth = rng.choice([(-15.0, 0.002), (-15.0001, 0.002), (lg if not null else 0.1, 0.0),
                                        (-20.0, 0.001), (-14.9999, 0.002)])
            w = 0.0 if rng.random() < (0.05 if not wide else 0.015) else round(rng.uniform(0.15, 1.0), 3)
            if rng.random() < 0.012:
                w = 0.3  # exactly the min_weight that a third of the cases uses (`<`, not `<=`)
            if dead[0] <= i < dead[1] and dead_kind == "w0":
                w = 0.0
            rows.append([c, pos, pos + ln, g, lg, w, depth])
            pos += ln
    return rows


def _variants(rng, rows):
    """SNVs for the `variants=` argument, as [chrom, pos, alt_freq]: never enough to make the BAF re-segmentation
    split a segment (<= 50 per chromosome, or all of them at 0.5), so the bin-level statement must hold unchanged.
    Some chromosomes carry none, some SNVs lie in the holes between bins or on a contig the bins do not have."""
    chroms = list(dict.fromkeys(r[0] for r in rows))
    kind = rng.choice(["sparse", "sparse", "dense05", "one"])
    have = [c for c in chroms if rng.random() < 0.65] or [rng.choice(chroms)]
    out, per = [], {}
    prev = None
    for r in rows:
        if r[0] in have:
            if kind == "dense05":
                out.append([r[0], rng.randint(r[1], r[2] - 1), 0.5])
            elif per.get(r[0], 0) < 50 and rng.random() < 0.25:
                out.append([r[0], rng.randint(r[1], r[2] - 1), rng.choice([0.5, 0.31, 0.88, 0.5])])
                per[r[0]] = per.get(r[0], 0) + 1
            elif per.get(r[0], 0) < 50 and prev is not None and prev[0] == r[0] and r[1] - prev[2] > 1 and rng.random() < 0.3:
                out.append([r[0], rng.randint(prev[2], r[1] - 1), 0.4])  # in the hole before this bin
                per[r[0]] = per.get(r[0], 0) + 1
        prev = r
    if kind == "one" and out:
        out = [rng.choice(out)]
    if rng.random() < 0.3:
        out.append(["chrUn_zz", 77, 0.5])
    return out


def gen_cases(rng, tier):
    n = {"quick": 100, "thorough": 1000, "search": 150}[tier]
    cases = []
    for k in range(n):
        big = rng.random() < 0.3
        rows = _table(rng, big)
        method = METHODS[k % len(METHODS)]
        i = {"bins": rows, "method": method, "skip_low": rng.random() < 0.6,
             "skip_outliers": rng.choice([0, 10, 10, 3]), "min_weight": rng.choice([0, 0, 0.3]),
             "processes": rng.choice([1, 1, 2, 3, 16, 0])}
        # how the table is held (none of this is visible in the property's prose): pandas labels that are not the
        # row positions, column order, a table without `depth`, extra columns
        # (stratified over the rounds of the method cycle, so that every method meets every value in a quick run)
        rnd = k // len(METHODS)
        i["index"] = ("default", "holes", "perm", "offset", "holes")[(rnd + k) % 5]
        i["cols"] = ("api", "fix", "nodepth")[rnd % 3]
        i["extra"] = rng.choice([None, None, None, "gc", "baf"])
        # how the function is called: every option by keyword, everything positional, defaults left out
        i["call"] = ("kw", "pos", "implicit", "implicit")[(rnd + 2 * k) % 4]
        if rng.random() < 0.3:
            i["threshold"] = (rng.choice([0.01, 0.3, 1e-8]) if method == "haar" else
                              rng.choice([0.25, 0.6, 5.0, 9.0]) if method.startswith("hmm") else 0.01)
        if rng.random() < (0.45 if not method.startswith("hmm") else 0.15):
            i["variants"] = _variants(rng, rows)
        if rng.random() < 0.1:
            i["reuse"] = True  # the table object has been segmented before
        cases.append({"op": "segment", "tag": method + ("+v" if i.get("variants") else ""), "in": i})
    # n//6 extra cases (one in seven) go through `cnvkit.py segment` (a separate random stream: the API cases above are unchanged)
    crng = random.Random()
    crng.setstate(rng.getstate())
    for k in range(max(5, n // 6)):
        cases.append(_cli_case(crng, k % len(METHODS), k // len(METHODS)))
    # fallback branches (separate stream again: everything above is unchanged): units / tables without a survivor
    # through do_segmentation, and transfer_fields called on its own (tables without weight / depth column,
    # segments over zero-weight bins only, no segments, no bins)
    frng = random.Random()
    frng.setstate(crng.getstate())
    for k in range(max(9, n // 8)):
        cases.append(_dead_case(frng, ("none", "haar", "hmm", "hmm-tumor", "hmm-germline")[k % 3 if k < 9 else k % 5], k // 3))
    for k in range(max(24, n // 4)):
        cases.append(_transfer_case(frng, k))
    # round 5: the outlier filter on its own (op outlier, harness/c03_outlier.py; a separate stream again)
    orng = random.Random()
    orng.setstate(frng.getstate())
    for k in range(max(30, n // 4)):
        cases.append(_outl.gen_case(orng, k))
    # round 5b: the BAF column of the `variants=` branch (op seg_baf, harness/c03_baf.py; a separate stream again)
    brng = random.Random()
    brng.setstate(orng.getstate())
    for k in range(max(24, n // 5)):
        cases.append(_baf.gen_case(brng, k))
    import os
    if os.environ.get("VERIF_C03_ONLY"):  # development / mutation runs: one op only (never set by ./check itself)
        cases = [c for c in cases if c["op"] == os.environ["VERIF_C03_ONLY"]]
    return cases


def _dead_case(rng, method, rnd):
    """do_segmentation on a table in which a whole arm / chromosome / the whole table loses every bin to skip_low or
    to the weight filter (`if not len(filtered_cn): return filtered_cn` -- no segment for that unit, and a table
    without segments when nothing survives)"""
    what = ("table", "chrom", "arm")[rnd % 3]
    how = ("null", "w0", "minw")[(rnd // 3 + rnd) % 3]
    rows = []
    names = ["chr1", "chr2"] if rng.random() < 0.7 else ["chr1"]
    for ci, c in enumerate(names):
        n = rng.randint(104, 130) if (what == "arm" and ci == 0) else rng.choice([1, 3, 9, 25])
        if method.startswith("hmm") and n < 25:
            n = rng.choice([25, 40, 60])  # (too few surviving bins make pomegranate fail: finding U, not the point here)
        cm = rng.randint(52, n - 52) if n > 103 else -1
        side = rng.random() < 0.5
        pos = rng.randint(0, 5000)
        for k in range(n):
            if k == cm:
                pos += 10 ** 6
            dead = what == "table" or (ci == 0 and (what == "chrom" or (k < cm) == side))
            lg, w = round(rng.gauss(0, 0.1), 4), round(rng.uniform(0.4, 1.0), 3)
            depth = round(50 * 2.0 ** lg, 3)
            if dead and how == "null":
                lg, depth = -20.0, 0.0
            elif dead and how == "w0":
                w = 0.0
            elif dead and how == "minw":
                w = round(rng.uniform(0.01, 0.29), 3)
            ln = rng.randint(50, 500)
            rows.append([c, pos, pos + ln, "G%d" % (k // 4), lg, w, depth])
            pos += ln + rng.choice([0, 0, 700])
    i = {"bins": rows, "method": method, "skip_low": how == "null", "skip_outliers": rng.choice([0, 10]),
         "min_weight": 0.3 if how == "minw" else 0, "processes": rng.choice([1, 1, 2]),
         "index": rng.choice(["default", "offset"]), "cols": rng.choice(["api", "fix"]), "extra": None, "call": "kw"}
    return {"op": "segment", "tag": "dead-%s-%s-%s" % (what, how, method), "in": i}


def _transfer_case(rng, k):
    """transfer_fields(segments, cnarr) on its own.  The segments are consecutive runs of the unit's bins (first bin's
    start to last bin's end, as every segmenter reports them; some runs left out, so that the end-point stretch has
    work to do); stretches of zero-weight bins coincide with a run in half of the cases."""
    kind = ("table", "table", "table", "nosegs", "table", "nobins")[k % 6]
    has_w = (k // 2) % 2 == 0
    has_d = (k // 3) % 3 != 0
    rows = [r for r in _table(rng, False)]
    chroms = list(dict.fromkeys(r[0] for r in rows))
    if rng.random() < 0.6:  # a unit of the per-arm methods: one chromosome; else the whole table (HMM methods)
        c = rng.choice(chroms)
        rows = [r for r in rows if r[0] == c]
    rows = rows[:rng.choice([1, 2, 5, 12, 40, 400])] if rng.random() < 0.7 else rows
    segs = []
    by = {}
    for idx, r in enumerate(rows):
        by.setdefault(r[0], []).append(idx)
    for c, idxs in by.items():
        cuts = sorted(set(rng.sample(range(1, len(idxs)), min(len(idxs) - 1, rng.choice([0, 1, 2, 5])))) if len(idxs) > 1 else [])
        runs = [idxs[a:b] for a, b in zip([0] + cuts, cuts + [len(idxs)])]
        for run in runs:
            z = rng.random()
            if z < 0.35:
                for j in run:
                    rows[j][5] = 0.0  # a segment that spans zero-weight bins only
            elif z < 0.45:
                for j in run:
                    rows[j][5] = 1.0
            if len(runs) > 1 and rng.random() < 0.2:
                continue  # run without a segment (its bins were all filtered out)
            segs.append([c, rows[run[0]][1], rows[run[-1]][2], rng.choice(["-", "junk"]), round(rng.gauss(0, 0.5), 4),
                         len(run), round(rng.uniform(0, 9), 3), round(rng.uniform(0, 9), 3)])
    if not segs and rows:
        segs.append([rows[0][0], rows[0][1], rows[-1][2] if rows[-1][0] == rows[0][0] else rows[0][2], "-", 0.25, 1, 1.0, 1.0])
    if kind == "nosegs":
        segs = []
    elif kind == "nobins":
        rows = []
    i = {"bins": rows, "segs": segs, "has_weight": has_w, "has_depth": has_d,
         "segcols": rng.choice(["min", "full", "perm"])}
    return {"op": "transfer", "tag": "transfer-%s-%s%s" % (kind, "w" if has_w else "nw", "d" if has_d else "nd"), "in": i}


def _r6(v):
    return float("%.6g" % v)


def _cli_case(rng, m, rnd):
    """a case for the command line: the .cnr carries 6 significant digits, so the numeric inputs are pre-rounded to
    survive the round trip exactly; there is no --min-weight option, so min_weight stays at the API default"""
    method = METHODS[m]
    rows = [r[:4] + [_r6(v) for v in r[4:]] for r in _table(rng, rng.random() < 0.25)]
    # stratified, so that even a few rounds give every method both values of the flag and every outlier setting
    skip_low = (m + rnd) % 2 == 0
    outl = [0, 10, 3][(m + rnd) % 3]
    procs = rng.choice([1, 1, 2, 3, 0])  # 0 = bare `-p`: all CPUs
    if method == "haar":
        thr = rng.choice([None, None, 0.0001, 0.01, 0.3, 1e-8])
    elif method.startswith("hmm"):
        thr = rng.choice([None, None, 0.25, 0.6, 5.0, 9.0])
    else:
        thr = rng.choice([None, 0.01])
    # defaults left implicit in about half of the cases where the value is the parser's default
    implicit = [name for name, dflt in (("outliers", outl == 10), ("processes", procs == 1)) if dflt and rng.random() < 0.6]
    return {"op": "segment", "tag": "cli-" + method,
            "in": {"bins": rows, "method": method, "skip_low": skip_low, "skip_outliers": outl, "min_weight": 0,
                   "processes": procs, "threshold": thr, "implicit": implicit, "short": rng.random() < 0.5, "cli": True}}


def corpus():
    rows = []
    for c in ("chr1", "chr2"):
        for i in range(30):
            lg = 0.0 if i < 15 else -1.0
            d = 0.0 if (i in (0, 29) or c == "chr1") else 1.0
            rows.append([c, i * 100, i * 100 + 50, "G%d" % (i // 5), lg if d else -20.0, 1.0, d])
    out = []
    for m in ("none", "haar", "hmm-germline"):
        out.append({"op": "segment", "tag": "corpus-CR", "in": {"bins": rows, "method": m, "skip_low": True,
                                                               "skip_outliers": 0, "min_weight": 0, "processes": 1}})
    # fallback branches of transfer_fields: zero total weight, no weight column, no depth column, no segments, no bins
    cn = [["chr1", 0, 10, "A", 0.0, 0.0, 7.0], ["chr1", 10, 20, "A", 1.0, 0.0, 9.0], ["chr1", 20, 30, "B", 1.0, 2.0, 5.0],
          ["chr1", 30, 40, "-", -1.0, 0.5, 3.0]]
    sg = [["chr1", 0, 20, "-", 0.5, 2, 0.0, 0.0], ["chr1", 20, 40, "-", 0.25, 2, 0.0, 0.0]]
    for hw, hd, bins, segs in ((True, True, cn, sg), (False, True, cn, sg), (False, False, cn, sg), (True, False, cn, sg),
                               (True, True, cn, []), (False, True, cn, []), (True, True, [], sg)):
        out.append({"op": "transfer", "tag": "corpus-fallback", "in": {"bins": bins, "segs": segs, "has_weight": hw,
                                                                       "has_depth": hd, "segcols": "full"}})
    return out


def classify_hmm_zero_variance(case, impl, resp):
    """finding U: pomegranate refuses a NormalDistribution with stdev 0 (too few / constant autosomal bins)"""
    return (case["in"].get("method", "").startswith("hmm") and isinstance(impl, dict)
            and impl.get("__error__") == "ZeroDivisionError" and "NormalDistribution" in impl.get("tb", ""))


def _eff_bins(i):
    """the bins as the code sees them: a table without a `depth` column gets depth = 2**log2 in transfer_fields (and
    drop_low_coverage then tests log2 only -- 2**log2 is never 0)"""
    if i.get("cols") != "nodepth":
        return i["bins"]
    import numpy as np
    return [r[:6] + [float(np.exp2(np.float64(r[4])))] for r in i["bins"]]


def _cna(rows, i=None):
    """the CopyNumArray of a case; `i` (the case input) selects the representation"""
    import random as _random
    import numpy as np
    import pandas as pd
    from cnvlib.cnary import CopyNumArray as CNA
    i = i or {}
    names = ["chromosome", "start", "end", "gene", "log2", "weight", "depth"]
    order = {"api": names, "fix": ["chromosome", "start", "end", "gene", "depth", "log2", "weight"],
             "nodepth": names[:6]}[i.get("cols", "api")]
    rng = _random.Random(len(rows) * 7919 + (rows[0][1] if rows else 0))
    recs, mask = [tuple(r) for r in rows], [True] * len(rows)
    if i.get("index") == "holes" and rows:
        # the table as a filtered subset of a larger one: junk rows interleaved, then removed with a boolean mask
        recs, mask = [], []
        for r in rows:
            for _ in range(rng.choice([0, 0, 1, 1, 2, 3])):
                j = rng.choice(rows)
                recs.append((j[0], j[1], j[2], "junk", 3.3, 0.77, 9.0))
                mask.append(False)
            recs.append(tuple(r))
            mask.append(True)
        if all(mask):
            recs.insert(0, (rows[0][0], rows[0][1], rows[0][2], "junk", 3.3, 0.77, 9.0))
            mask.insert(0, False)
    df = pd.DataFrame.from_records(recs, columns=names)
    if i.get("extra") == "gc":
        df["gc"] = [round(rng.uniform(0.2, 0.8), 3) for _ in recs]
    elif i.get("extra") == "baf":
        df["baf"] = [round(rng.uniform(0.3, 0.7), 3) for _ in recs]
    df = df[order + [c for c in df.columns if c not in names]]
    if i.get("index") == "perm":
        lab = list(range(len(df)))
        rng.shuffle(lab)
        df.index = lab  # unique labels in no order (a table sorted with sort_values outside cnvkit)
    elif i.get("index") == "offset":
        df.index = range(1000, 1000 + len(df))
    arr = CNA(df, {"sample_id": "S"})
    if not all(mask):
        arr = arr[np.array(mask)]
    return arr


def _vary(i):
    import pandas as pd
    from cnvlib.vary import VariantArray as VA
    v = i.get("variants")
    if not v:
        return None
    df = pd.DataFrame({"chromosome": [x[0] for x in v], "start": [x[1] for x in v], "end": [x[1] + 1 for x in v],
                       "ref": "A", "alt": "G", "zygosity": 0.5, "alt_freq": [x[2] for x in v]})
    return VA(df, {"sample_id": "S"})


def _seg_rows(seg):
    d = seg.data
    return [[str(d["chromosome"].iat[k]), int(d["start"].iat[k]), int(d["end"].iat[k]), str(d["gene"].iat[k]),
             frac(float(d["log2"].iat[k])), int(d["probes"].iat[k]), frac(float(d["weight"].iat[k])),
             frac(float(d["depth"].iat[k]))] for k in range(len(d))]


def _argv(i, fin, fout):
    """the command line of a CLI case; options whose value is the parser's default are left out when listed in
    i["implicit"]; bare `-p` (all CPUs) goes last so that it cannot swallow the file name"""
    short = i.get("short")
    argv = ["segment", fin, "-o", fout, "-m" if short else "--method", i["method"]]
    if i["skip_low"]:
        argv.append("--drop-low-coverage")
    if "outliers" not in i["implicit"]:
        argv += ["--drop-outliers", "%g" % i["skip_outliers"]]
    if i.get("threshold") is not None:
        argv += ["-t" if short else "--threshold", repr(i["threshold"])]
    if i["processes"] == 0:
        argv.append("-p" if short else "--processes")
    elif "processes" not in i["implicit"]:
        argv += ["-p" if short else "--processes", str(i["processes"])]
    return argv


def _segment_cli(i):
    """the same computation through the command line: write the .cnr, run `cnvkit.py segment`, take the table it
    hands to the writer and check that the written .cns reads back equal to it.  Returns (bins as read, segments)."""
    import logging
    import os
    import shutil
    import tempfile
    import numpy as np
    from cnvlib import commands
    from cnvlib.cmdutil import read_cna
    from cnvlib.cnary import CopyNumArray as CNA
    from skgenome import tabio
    d = tempfile.mkdtemp(dir="/var/tmp", prefix="c03cli")
    try:
        fin, fout = os.path.join(d, "S.cnr"), os.path.join(d, "out", "S.cns")
        os.mkdir(os.path.join(d, "out"))
        # .cnr column order as `fix` writes it
        tabio.write(CNA.from_rows([(r[0], r[1], r[2], r[3], r[6], r[4], r[5]) for r in i["bins"]],
                                  columns=["chromosome", "start", "end", "gene", "depth", "log2", "weight"],
                                  meta_dict={"sample_id": "S"}), fin)
        cna = read_cna(fin)
        got = [[str(r.chromosome), int(r.start), int(r.end), str(r.gene), float(r.log2), float(r.weight),
                float(r.depth)] for r in cna]
        if got != [list(r) for r in i["bins"]]:
            raise AssertionError("harness: the written .cnr does not read back as the generated bins")
        captured = []

        class _Tab:
            def __getattr__(self, name):
                return getattr(tabio, name)

            def write(self, garr, outfname=None, *a, **k):
                captured.append((garr, outfname))
                return tabio.write(garr, outfname, *a, **k)
        saved = commands.tabio
        commands.tabio = _Tab()
        quiet = logging.root.manager.disable  # the harness workers already run with logging disabled: restore, not reset
        logging.disable(logging.CRITICAL)
        cwd = os.getcwd()
        os.chdir(d)  # a default output name must not land in the harness directory
        try:
            np.random.seed(12345)
            args = commands.parse_args(_argv(i, fin, fout))
            args.func(args)
        finally:
            os.chdir(cwd)
            logging.disable(quiet)
            commands.tabio = saved
        if len(captured) != 1 or captured[0][1] != fout or not os.path.exists(fout) or sorted(os.listdir(d)) != ["S.cnr", "out"]:
            raise AssertionError("cnvkit.py segment did not write exactly one table, to the requested output")
        seg = captured[0][0]
        back = read_cna(fout)
        cols = ("chromosome", "start", "end", "gene", "log2", "probes", "weight", "depth")
        if len(seg) == 0:
            # no bin survived the filters: the command writes a table without rows (the columns of an empty table are
            # not something the property speaks about) -- it must read back as a table without rows
            if len(back) != 0:
                raise AssertionError("the written .cns of a table without segments does not read back empty")
            return cna, seg
        if len(back) != len(seg) or any(c not in back for c in cols):
            raise AssertionError("the written .cns does not read back as the table segment computed (shape)")
        for c in cols:
            for a, b in zip(back[c], seg[c]):
                if c in ("chromosome", "gene"):
                    ok = str(a) == str(b)
                elif c in ("start", "end", "probes"):
                    ok = int(a) == int(b)
                else:
                    ok = abs(float(a) - float(b)) <= 1e-5 * max(1e-300, abs(float(b))) or (a != a and b != b)
                if not ok:
                    raise AssertionError(f"the written .cns does not read back as the table segment computed ({c}: {a!r} vs {b!r})")
        return cna, seg
    finally:
        shutil.rmtree(d, ignore_errors=True)


def _segment_api(i, cna):
    import numpy as np
    from cnvlib import segmentation
    np.random.seed(12345)
    thr = i.get("threshold")
    work = cna.copy()
    if i.get("reuse"):
        segmentation.do_segmentation(work, "none" if i["method"] != "none" else "haar", skip_low=not i["skip_low"])
    call = i.get("call", "kw")
    if call == "pos":
        return segmentation.do_segmentation(work, i["method"], None, thr, _vary(i), i["skip_low"], i["skip_outliers"],
                                            i["min_weight"], False, "Rscript", i["processes"])
    kw = {"skip_low": i["skip_low"], "skip_outliers": i["skip_outliers"], "min_weight": i["min_weight"],
          "processes": i["processes"]}
    if call == "implicit":
        kw = {k: v for k, v in kw.items() if v != {"skip_low": False, "skip_outliers": 10, "min_weight": 0,
                                                   "processes": 1}[k]}
    if thr is not None:
        kw["threshold"] = thr
    if i.get("variants"):
        kw["variants"] = _vary(i)
    return segmentation.do_segmentation(work, i["method"], **kw)


def _same_segs(a, b):
    """True, or a description of the first difference between two segment lists"""
    if len(a) != len(b):
        return f"segment count {len(a)} (command line) vs {len(b)} (API)"
    for x, y in zip(a, b):
        if x[:4] != y[:4] or x[5] != y[5] or not all(_close(x[k], y[k]) for k in (4, 6, 7)):
            return f"command line {x} vs API {y}"
    return True


def _tf_bins(i):
    """the bins of a transfer case as transfer_fields sees them (no depth column: depth = 2**log2)"""
    if i["has_depth"]:
        return i["bins"]
    import numpy as np
    return [r[:6] + [float(np.exp2(np.float64(r[4])))] for r in i["bins"]]


def _tf_run(case):
    import pandas as pd
    from cnvlib import segmentation
    from cnvlib.cnary import CopyNumArray as CNA
    i = case["in"]
    names = ["chromosome", "start", "end", "gene", "log2", "weight", "depth"]
    df = pd.DataFrame.from_records([tuple(r) for r in i["bins"]], columns=names)
    if not len(df):
        df = df.astype({"chromosome": str, "start": int, "end": int, "gene": str, "log2": float, "weight": float, "depth": float})
    df = df[[c for c in names if (c != "weight" or i["has_weight"]) and (c != "depth" or i["has_depth"])]]
    snames = ["chromosome", "start", "end", "gene", "log2", "probes", "weight", "depth"]
    sdf = pd.DataFrame.from_records([tuple(r) for r in i["segs"]], columns=snames)
    if not len(sdf):
        sdf = sdf.astype({"chromosome": str, "start": int, "end": int, "gene": str, "log2": float, "probes": int,
                          "weight": float, "depth": float})
    scols = {"min": snames[:6], "full": snames,
             "perm": ["chromosome", "start", "end", "depth", "gene", "weight", "probes", "log2"]}[i["segcols"]]
    sdf = sdf[scols]
    segarr = CNA(sdf, {"sample_id": "S"})
    got = segmentation.transfer_fields(segarr, CNA(df, {"sample_id": "S"}))
    if isinstance(got, tuple):
        if len(got) != len(scols):
            raise AssertionError("make_null_segment: the row does not have one value per column of the segment table")
        return {"kind": "null", "cols": scols, "row": [v if isinstance(v, str) else frac(float(v)) for v in got]}
    d = got.data
    have = {c: (c in d.columns) for c in ("gene", "weight", "depth")}
    rows = [[str(d["chromosome"].iat[k]), int(d["start"].iat[k]), int(d["end"].iat[k]),
             str(d["gene"].iat[k]) if have["gene"] else None, frac(float(d["log2"].iat[k])), int(d["probes"].iat[k]),
             frac(float(d["weight"].iat[k])) if have["weight"] else None,
             frac(float(d["depth"].iat[k])) if have["depth"] else None] for k in range(len(d))]
    return {"kind": "rows", "segs": rows, "same_object": got is segarr}


def _tf_line(case, impl):
    i = case["in"]
    cn = [[b[0], b[1], b[2], b[3], frac(b[4]), frac(b[5]) if i["has_weight"] else frac(1.0), frac(b[6]), False]
          for b in _tf_bins(i)]
    segs = [[g[0], g[1], g[2], g[3], frac(g[4]), g[5], frac(g[6]), frac(g[7])] for g in i["segs"]]
    line = {"op": "transfer", "in": {"cn": cn, "segs": segs, "has_weight": i["has_weight"]}}
    if not (isinstance(impl, dict) and "__error__" in impl):
        line["impl"] = impl
    return line


def _tf_judge(case, impl, resp):
    if isinstance(impl, dict) and "__error__" in impl:
        return ["raises_" + impl["__error__"]], [], None
    if "error" in resp:
        return [], ["model error: " + resp["error"]], None
    i = case["in"]
    out, dis = resp["out"], []
    spec = list(resp.get("spec") or [])
    names = ["chromosome", "start", "end", "gene", "log2", "probes", "weight", "depth"]
    if resp["kind"] == "null":
        if impl["kind"] != "null":
            return [], ["transfer_fields: model returns the null row of make_null_segment, impl a table"], None
        want = dict(zip(names, out[0]))
        for c, v in zip(impl["cols"], impl["row"]):
            ok = (v == want[c]) if c in ("chromosome", "gene") else _close(v, want[c])
            if not ok:
                dis.append(f"transfer_fields null row, column {c}: model {want[c]} impl {v}")
                break
        return [], dis, None
    if impl["kind"] != "rows":
        return [], [f"transfer_fields: model returns a table ({resp['kind']}), impl the null row"], None
    segs = impl["segs"]
    if resp["kind"] == "unchanged":
        # columns the segment table did not have stay absent
        present = {"min": names[:6], "full": names, "perm": names}[i["segcols"]]
    else:
        present = names
    if len(out) != len(segs):
        dis.append(f"transfer_fields: segment count model {len(out)} impl {len(segs)}")
    else:
        for k, (m, s) in enumerate(zip(out, segs)):
            for c, a, b in zip(names, m, s):
                if c not in present:
                    ok = b is None
                elif b is None:
                    ok = False
                elif c in ("chromosome", "start", "end", "gene", "probes"):
                    ok = a == b
                else:
                    ok = _close(b, a)
                if not ok:
                    dis.append(f"transfer_fields segment {k} column {c} ({resp['kind']}, "
                               f"{'weight column' if i['has_weight'] else 'no weight column'}, "
                               f"{'depth column' if i['has_depth'] else 'no depth column'}): model {a} impl {b}")
                    break
            if dis:
                break
    return spec, dis, None


def run_impl(case):
    if case["op"] == "seg_baf":
        return _baf.run_impl(case)
    if case["op"] == "outlier":
        return _outl.run_impl(case)
    if case["op"] == "transfer":
        return _tf_run(case)
    from cnvlib import segmentation
    i = case["in"]
    method = i["method"]
    per_arm = not method.startswith("hmm")
    cli_same = None
    if i.get("cli"):
        cna, seg = _segment_cli(i)
        segs = _seg_rows(seg)
        # the same call through the API (same threshold; bare -p = all CPUs): the options the model cannot see
        # (threshold, processes) must not change anything else either
        cli_same = _same_segs(segs, _seg_rows(_segment_api(i, _cna(i["bins"]))))
    else:
        cna = _cna(i["bins"], i)
        segs = _seg_rows(_segment_api(i, cna))
    # units and masks, replicating the order of the filters with the real filter functions
    units_src = [ca for _c, ca in cna.by_arm()] if per_arm else [cna]
    units, keeps = [], []
    where = {lab: k for k, lab in enumerate(cna.data.index)}  # pandas label -> row position in the case's bins
    if len(where) != len(i["bins"]):
        raise AssertionError("harness: the table built for the case does not have one uniquely labelled row per bin")
    for ca in units_src:
        labels = list(ca.data.index)
        f1 = ca.drop_low_coverage(verbose=False) if i["skip_low"] else ca
        f2 = segmentation.drop_outliers(f1, 50, i["skip_outliers"]) if i["skip_outliers"] else f1
        if i["min_weight"]:
            low = (f2["weight"] < i["min_weight"]).fillna(True)
        else:
            low = (f2["weight"] == 0).fillna(True)
        f3 = f2[~low] if len(low) and low.sum() else f2
        s1, s2, s3 = set(f1.data.index), set(f2.data.index), set(f3.data.index)
        units.append([[where[labels[k]], (labels[k] in s1) and (labels[k] not in s2)] for k in range(len(labels))])
        keeps.append([labels[k] in s3 for k in range(len(labels))])
    arms_all = [len(ca) for _c, ca in cna.by_arm()]
    res = {"segs": segs, "units": units, "keeps": keeps, "arms": arms_all}
    if cli_same is not None:
        res["cli_same"] = cli_same
    return res


def _runs(segs, units_bins, keeps):
    """read the partition of each unit's survivors off the reported probes"""
    by_chrom = {}
    for s in segs:
        by_chrom.setdefault(s[0], []).append(s[5])
    runs = []
    for ub, kp in zip(units_bins, keeps):
        n = sum(kp)
        if not ub or n == 0:
            runs.append([])
            continue
        # a unit may hold several chromosomes (HMM: whole genome) -> consume per chromosome in unit order
        r = []
        chroms = []
        for b in ub:
            if b[0] not in chroms:
                chroms.append(b[0])
        for c in chroms:
            nc = sum(1 for b, k in zip(ub, kp) if k and b[0] == c)
            got = 0
            q = by_chrom.get(c, [])
            while got < nc and q:
                p = q.pop(0)
                r.append(max(int(p), 0))
                got += int(p)
        runs.append(r)
    return runs


def to_line(case, impl):
    if case["op"] == "seg_baf":
        return _baf.to_line(case, impl)
    if case["op"] == "outlier":
        return _outl.to_line(case, impl)
    if case["op"] == "transfer":
        return _tf_line(case, impl)
    i = case["in"]
    method = i["method"]
    per_arm = not method.startswith("hmm")
    base = {"per_arm": per_arm, "check_log2": method == "none" or method.startswith("hmm"),
            "skip_low": i["skip_low"], "min_weight": frac(i["min_weight"])}
    if isinstance(impl, dict) and "__error__" in impl:
        rows = [[r[0], r[1], r[2], r[3], frac(r[4]), frac(r[5]), frac(r[6]), False] for r in _eff_bins(i)]
        return {"op": "segment", "in": dict(base, units=[rows], runs=[[]])}
    bins = _eff_bins(i)
    units_bins, units_json = [], []
    for u in impl["units"]:
        ub = [bins[lab] for lab, _o in u]
        units_bins.append(ub)
        units_json.append([[b[0], b[1], b[2], b[3], frac(b[4]), frac(b[5]), frac(b[6]), bool(o)]
                           for b, (_lab, o) in zip(ub, u)])
    runs = _runs([list(s) for s in impl["segs"]], units_bins, impl["keeps"])
    allbins = [[b[0], b[1], b[2], b[3], frac(b[4]), frac(b[5]), frac(b[6]), False] for b in bins]
    return {"op": "segment", "in": dict(base, units=units_json, runs=runs, bins=allbins), "impl": impl["segs"]}


def _close(a, b):
    a, b = Fraction(a), Fraction(b)
    return abs(a - b) <= Fraction(1, 10 ** 9) * max(1, abs(b))


def judge(case, impl, resp):
    if case["op"] == "seg_baf":
        return _baf.judge(case, impl, resp)
    if case["op"] == "outlier":
        return _outl.judge(case, impl, resp)
    if case["op"] == "transfer":
        return _tf_judge(case, impl, resp)
    if isinstance(impl, dict) and "__error__" in impl:
        return ["raises_" + impl["__error__"]], [], None
    if "error" in resp:
        return [], ["model error: " + resp["error"]], None
    spec = list(resp.get("spec") or [])
    if impl.get("cli_same", True) is not True:
        spec.append("command_line_matches_api")
    dis = []
    if resp["keep"] != impl["keeps"]:
        dis.append("survive mask: model filters != real filters")
    if resp.get("arms") is not None and resp["arms"] != impl["arms"]:
        # int(round(0.1 * n)) in float vs exact half-even rounding can differ only when n ends in 5
        sizes = {}
        for r in case["in"]["bins"]:
            sizes[r[0]] = sizes.get(r[0], 0) + 1
        if not any(n % 10 == 5 and n > 500 for n in sizes.values()):
            dis.append(f"by_arm: model arms {resp['arms']} impl {impl['arms']}")
    out, segs = resp["out"], impl["segs"]
    check_log2 = case["in"]["method"] == "none" or case["in"]["method"].startswith("hmm")
    if len(out) != len(segs):
        dis.append(f"segment count model {len(out)} impl {len(segs)}")
    else:
        for k, (m, s) in enumerate(zip(out, segs)):
            if m[:4] != s[:4] or m[5] != s[5] or not _close(s[6], m[6]) or not _close(s[7], m[7]) or \
                    (check_log2 and not _close(s[4], m[4])):
                dis.append(f"segment {k}: model {m} impl {s}")
                break
    return spec, dis, None


def nontrivial(case, impl, resp):
    if case["op"] == "seg_baf":
        return _baf.nontrivial(case, impl, resp)
    if case["op"] == "outlier":
        return _outl.nontrivial(case, impl, resp)
    if isinstance(impl, dict) and "__error__" in impl:
        return False
    if case["op"] == "transfer":
        return True
    filtered = any(not k for ks in impl["keeps"] for k in ks)
    chroms = {r[0] for r in case["in"]["bins"]}
    return filtered or len(impl["arms"]) > len(chroms) or len(impl["segs"]) > len(chroms)


def shrink(case):
    if case["op"] == "seg_baf":
        yield from _baf.shrink(case)
        return
    if case["op"] == "outlier":
        yield from _outl.shrink(case)
        return
    if case["op"] == "transfer":
        # only segments are removed: every remaining one still spans the bins it was cut from
        sg = case["in"]["segs"]
        for a in range(len(sg)):
            if len(sg) > 1:
                c = {"op": case["op"], "tag": "shrunk", "in": dict(case["in"])}
                c["in"]["segs"] = sg[:a] + sg[a + 1:]
                yield c
        return
    rows = case["in"]["bins"]
    n = len(rows)
    for frac_ in (2, 3):
        step = max(1, n // frac_)
        for a in range(0, n, step):
            c = {"op": case["op"], "tag": "shrunk", "in": dict(case["in"])}
            c["in"]["bins"] = rows[:a] + rows[a + step:]
            if c["in"]["bins"]:
                yield c
