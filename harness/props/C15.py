"""C15 -- centring is a uniform shift zeroing the autosomes; sample sex is inferred right."""
from __future__ import annotations

import math
import random
from fractions import Fraction

from ..core import frac
from . import _call as K
from . import _c15ext5 as _ext5

LEVEL = "proof"
RULE = ("center_all on tables of 1..24 chromosomes (chr / plain names, or none named like autosomes) x 4 estimators x "
        "by_chrom x skip_low x PAR genome, with null-coverage bins; expect_flat_log2 and shift_xx on tables with X/Y/PAR "
        "rows; the decision logic of compare_sex_chromosomes with scipy's Mood statistics as parameters; plus an oracle "
        "run of guess_xx on seeded noisy samples (sd 0.01..0.3, 40..400 X bins, both sexes x reference sexes x +-Y x "
        "+-weights) -- search on the real code, not proof -- each also through shift_xx with the sex left to be inferred "
        "and through the `sex` report (do_sex; one in three via `cnvkit.py sex FILE [-y] -o OUT`); bounded ADVERSARIAL noise "
        "(every bin within d of its level, d inside and outside the proved margin 1/4; flat / tiny / noisy autosomes; X noise "
        "pushed towards the other sex) against the margin theorem and the exact Mood-table model (`sex_margin`); a share of the centring "
        "cases through `cnvkit.py call -m none --center [EST] [--drop-low-coverage] [--diploid-parx-genome G]`; the glue of the sex "
        "inference (`sex_glue`: compare_sex_chromosomes with skip_low / PAR genome, its early returns and chrY fall-backs, guess_xx, "
        "the do_sex / `cnvkit.py sex` row) on tables with and without chrX / chrY / autosome-like names / low bins / weights. non-trivial = table has >= 2 chromosomes and a sex "
        "chromosome or a null-coverage bin; distinct by hash")
EXHAUSTIVE = {"quick": False, "thorough": False}
ASSUMPTIONS = ["mode/biweight estimators: only the clauses 'uniform shift' and 're-centering changes nothing' are checked "
               "(their values are C19's subject); mode cases are generated with a clear density peak",
               "sex inference under noise is a statistical claim: covered by an oracle run on the real code only, EXCEPT on "
               "the median-difference path (all Mood tables degenerate), where the margin theorem (every bin within d < 1/4 "
               "of its level, no distribution assumed) is evaluated as a spec clause on the real decision"]
TRUSTED_EXTRA = ["scipy.stats.median_test (Mood) statistic, gaussian_kde", "pandas Series.median/mean",
                 "sex_margin on tables with a weight column: the five weighted medians are taken from the real "
                 "descriptives.weighted_median (parameters of the model; C19 verifies that function)"]
ESTS = ("median", "mean", "biweight", "mode")


def _names(rng, n, style):
    if style == "none":
        pool = ["scaffold_%d" % i for i in range(1, 30)] + ["chrUn_1", "chrM", "MT"]
        return rng.sample(pool, min(n, len(pool)))
    pre = "chr" if style == "chr" else ""
    autos = [pre + str(i) for i in range(1, 23)]
    k = max(1, min(n, 22))
    out = sorted(rng.sample(autos, k), key=lambda c: int(c.replace("chr", "")))
    if n > 1 and rng.random() < 0.7:
        out.append(pre + "X")
    if n > 2 and rng.random() < 0.5:
        out.append(pre + "Y")
    if rng.random() < 0.2:
        out.append(pre + "M" if pre else "MT")
    return out


def _center_case(rng, est):
    style = rng.choice(["chr", "plain", "plain", "chr", "none"])
    par = rng.choice([None, None, "grch37", "grch38"])
    names = _names(rng, rng.randint(1, 24), style)
    rows = []
    for c in names:
        level = rng.choice([0.0, 0.0, rng.uniform(-1.5, 1.5)])
        n = rng.randint(1, 12) if est != "mode" else rng.randint(6, 14)
        for i in range(n):
            cls = "auto"
            cu = c.replace("chr", "")
            if cu == "X" and par and rng.random() < 0.4:
                _c, s, e = K.make_row(rng, "parx", "chr" if c.startswith("chr") else "plain", par)
            else:
                s = rng.randint(0, 10 ** 8)
                e = s + rng.randint(1, 10 ** 5)
            null = rng.random() < 0.1
            if est == "mode":
                lg = round(level + rng.gauss(0, 0.02), 4) if rng.random() < 0.8 else round(level + rng.uniform(-2, 2), 3)
            else:
                lg = rng.choice([round(level + rng.gauss(0, 0.3), 3), float(rng.randint(-3, 3)), level])
            depth = None
            if null:
                lg = rng.choice([-20.0, -16.0, -15.0, -14.99, lg])
            rows.append([c, s, e, lg, None])
    has_depth = rng.random() < 0.5
    if has_depth:
        for r in rows:
            r[4] = 0.0 if (r[3] <= -15 or rng.random() < 0.05) else round(2.0 ** r[3] * 40, 3)
    return {"op": "center", "tag": est,
            "in": {"rows": [[r[0], r[1], r[2], frac(r[3]), None if r[4] is None else frac(r[4])] for r in rows],
                   "rows_f": rows, "est": est, "by_chrom": rng.random() < 0.6, "skip_low": rng.random() < 0.5, "par": par}}


def _sex_table(rng, female, hapx, with_y, with_w, sd, nx, par=None, style=None):
    style = style or rng.choice(["chr", ""])
    rows = []
    for c in range(1, rng.randint(2, 22) + 1):
        for i in range(rng.randint(20, 200)):
            rows.append([style + str(c), i * 1000, i * 1000 + 500, rng.gauss(0, sd), rng.uniform(.3, 1)])
    xl = (0 if female else -1) + (1 if hapx else 0)
    for i in range(nx):
        rows.append([style + "X", 3000000 + i * 1000, 3000000 + i * 1000 + 500, xl + rng.gauss(0, sd), rng.uniform(.3, 1)])
    if with_y:
        yl = 0.0 if not female else -4.0
        for i in range(rng.randint(5, 100)):
            rows.append([style + "Y", 3000000 + i * 1000, 3000000 + i * 1000 + 500,
                         yl + rng.gauss(0, sd if not female else 1.0), rng.uniform(.3, 1)])
    return rows


def _margin_case(rng, k):
    """bounded ADVERSARIAL noise (no distribution): every bin within d of its level; the theorem
    `sex_inferred_within_margin` (d < 1/4, median-difference path) says the decision cannot flip.  Flavours of the
    autosomes: flat (all at one value: every Mood table is degenerate, the path of the theorem), tiny tables, and
    bounded-noise autosomes (Mood path: only model = code is compared there).  Also radii outside the margin."""
    female, hapx, with_y = rng.random() < .5, rng.random() < .5, rng.random() < .6
    style = rng.choice(["chr", ""])
    a = rng.choice([0.0, 0.0, 0.5, -0.25, round(rng.uniform(-1, 1), 3)])
    d = rng.choice([0.0, 0.05, 0.125, 0.2, 0.24, 0.2499, 0.2499, 0.26, 0.3, 0.45])
    flavour = rng.choice(["flat", "flat", "flat", "tiny", "bounded"])
    pattern = rng.choice(["towards-other", "towards-other", "up", "down", "alternate", "random", "one-outlier"])
    xl = a + (0 if female else -1) + (1 if hapx else 0)

    def noise(level, i, n, other):
        sgn = 1.0 if other > level else -1.0
        if pattern == "towards-other":
            return sgn * d
        if pattern == "up":
            return d
        if pattern == "down":
            return -d
        if pattern == "alternate":
            return d if i % 2 else -d
        if pattern == "one-outlier":
            return sgn * d if i else -sgn * d
        return rng.uniform(-d, d)
    rows = []
    nchrom = rng.randint(1, 4)
    for c in range(1, nchrom + 1):
        n = rng.randint(1, 3) if flavour == "tiny" else rng.randint(8, 30)
        for i in range(n):
            v = a if flavour != "bounded" else a + rng.choice([-d, d, rng.uniform(-d, d)])
            rows.append([style + str(c), i * 1000, i * 1000 + 500, v])
    nx = rng.randint(1, 3) if flavour == "tiny" else rng.randint(1, 7)
    other_x = a + (0 if not female else -1) + (1 if hapx else 0)
    for i in range(nx):
        rows.append([style + "X", i * 1000, i * 1000 + 500, xl + noise(xl, i, nx, other_x)])
    if with_y:
        ny = rng.randint(1, 5)
        for i in range(ny):
            if female:
                v = a - 2 - rng.choice([0.0, 0.0, 1.0, rng.uniform(0, 18)])
            else:
                v = a + noise(a, i, ny, a - 3)
            rows.append([style + "Y", i * 1000, i * 1000 + 500, v])
    # the radius actually realised (exact): largest deviation from the levels
    F = Fraction
    dev = [abs(F(r[3]) - F(a)) for r in rows if r[0].replace("chr", "").isdigit()]
    dev += [abs(F(r[3]) - (F(a) + (0 if female else -1) + (1 if hapx else 0))) for r in rows if r[0].endswith("X")]
    if not female:
        dev += [abs(F(r[3]) - F(a)) for r in rows if r[0].endswith("Y")]
    dmax = max(dev)
    # four tables in ten carry a weight column (compare_to_auto then takes descriptives.weighted_median): weights
    # skewed so that the heavy bins are the ones pushed furthest
    with_w = rng.random() < 0.4
    if with_w:
        for r in rows:
            r.append(rng.choice([1.0, 0.05, 0.5, round(rng.uniform(0.01, 1), 3)]))
    return {"op": "sex_margin", "tag": "margin-%s-%s%s" % (flavour, "in" if 4 * dmax < 1 else "out", "-w" if with_w else ""),
            "in": {"rows_f": rows, "hapX": hapx, "female": female, "a": frac(a), "d": "%d/%d" % (dmax.numerator, dmax.denominator),
                   "flavour": flavour, "pattern": pattern, "with_w": with_w}}


def gen_cases(rng, tier):
    n = {"quick": 60, "thorough": 600, "search": 100}[tier]
    cases = []
    for k in range(n):
        for est in ESTS:
            cases.append(_center_case(rng, est))
    # the same centring through the command line: `cnvkit.py call FILE -m none --center EST [--drop-low-coverage]
    # [--diploid-parx-genome G]` (per-chromosome first: the command has no other mode); rows in file order, values
    # with 6 significant digits so that the written .cnr is exact
    crng = random.Random(rng.random())
    for k in range(max(8, n // 3)):
        c = _center_case(crng, ESTS[k % 4])
        i = c["in"]
        r6 = lambda v: v if v is None else float("%.6g" % v)
        rows = [[r[0], r[1], r[2], r6(r[3]), r6(r[4])] for r in i["rows_f"]]
        order = {}
        for r in rows:
            order.setdefault(r[0], len(order))
        rows.sort(key=lambda r: (order[r[0]], r[1], r[2]))
        if len({(r[0], r[1], r[2]) for r in rows}) != len(rows) or any(m in order for m in ("chrM", "MT")) or             any(not c0.replace("chr", "").isdigit() and c0.replace("chr", "") not in ("X", "Y") for c0 in order):
            continue  # duplicated coordinates / names the reader would re-order: keep the file order = table order
        i.update(rows_f=rows, rows=[[r[0], r[1], r[2], frac(r[3]), None if r[4] is None else frac(r[4])] for r in rows],
                 by_chrom=True, cli=True, explicit_est=crng.random() < 0.7)
        if not i["explicit_est"]:
            i["est"] = "median"  # `--center` without a value: the parser's const
        c["tag"] = "cli-" + i["est"]
        cases.append(c)
    for k in range(n):
        c = _center_case(rng, "median")
        rows = c["in"]["rows"]
        cases.append({"op": "expect_flat", "tag": "expect_flat",
                      "in": {"rows": rows, "rows_f": c["in"]["rows_f"], "hapX": rng.random() < 0.5, "par": c["in"]["par"]}})
        cases.append({"op": "shift_xx", "tag": "shift_xx",
                      "in": {"rows": rows, "rows_f": c["in"]["rows_f"], "hapX": rng.random() < 0.5, "is_xx": rng.random() < 0.5}})
    m = {"quick": 40, "thorough": 400, "search": 60}[tier]
    for k in range(m):
        female, hapx, with_y, with_w = (rng.random() < .5, rng.random() < .5, rng.random() < .5, rng.random() < .5)
        sd = rng.uniform(0.01, 0.3)
        nx = rng.randint(40, 400)
        rows = _sex_table(rng, female, hapx, with_y, with_w, sd, nx)
        cli = (k % 3 == 0)
        cases.append({"op": "sex_oracle", "tag": "sex-noise" + ("-cli" if cli else ""),
                      "in": {"rows_f": rows, "female": female, "hapX": hapx, "with_w": with_w, "sd": sd, "nx": nx, "with_y": with_y,
                             "cli": cli}})
    for k in range(m):
        # decision logic: small tables, also flat / degenerate ones where Mood's test fails
        female, hapx, with_y = (rng.random() < .5, rng.random() < .5, rng.random() < .6)
        sd = rng.choice([0.0, 0.0, 0.05, 0.5, 1.5])
        style = rng.choice(["chr", ""])
        rows = []
        for c in range(1, rng.randint(1, 4) + 1):
            for i in range(rng.randint(1, 12)):
                rows.append([style + str(c), i * 1000, i * 1000 + 500, round(rng.gauss(0, sd), 3), 1.0])
        xl = (0 if female else -1) + (1 if hapx else 0)
        for i in range(rng.randint(1, 10)):
            rows.append([style + "X", i * 1000, i * 1000 + 500, round(xl + rng.gauss(0, sd), 3), 1.0])
        if with_y:
            for i in range(rng.randint(1, 6)):
                rows.append([style + "Y", i * 1000, i * 1000 + 500, round((0 if not female else -4) + rng.gauss(0, sd), 3), 1.0])
        cases.append({"op": "sex", "tag": "sex-logic", "in": {"rows_f": rows, "hapX": hapx, "par": None, "weighted": False}})
    mrng = random.Random(rng.random())
    for k in range({"quick": 240, "thorough": 2400, "search": 400}[tier]):
        cases.append(_margin_case(mrng, k))
    cases.extend(_ext5.gen_cases(random.Random(rng.random()), tier))   # round 5: after everything else
    return cases


def _cna(rows_f, cols):
    from cnvlib.cnary import CopyNumArray as CNA
    # (`filename` as read_cna sets it: do_sex labels its rows with it)
    return CNA.from_rows([tuple(r) for r in rows_f], columns=cols, meta_dict={"sample_id": "S", "filename": "S.cnr"})


def _center_cli(i, cna):
    """`cnvkit.py call -m none --center` on the written table; returns the table handed to the writer (and checks
    that the written file reads back equal to it to 6 digits)"""
    import os
    import shutil
    import tempfile
    import logging
    from cnvlib import commands
    from cnvlib.cmdutil import read_cna
    from skgenome import tabio
    d = tempfile.mkdtemp(prefix="c15cli", dir="/var/tmp")
    try:
        fin, fout = os.path.join(d, "S.cnr"), os.path.join(d, "S.call.cns")
        tabio.write(cna, fin)
        back = read_cna(fin)
        if list(back["log2"]) != list(cna["log2"]) or list(back.chromosome) != list(cna.chromosome) or             list(back.start) != list(cna.start):
            raise AssertionError("the written .cnr does not read back as the table of the case")
        opts = ["-m", "none", "-o", fout] + (["--drop-low-coverage"] if i["skip_low"] else []) + (
            ["--diploid-parx-genome", i["par"]] if i["par"] else [])
        if i["explicit_est"]:
            argv = ["call", fin, "--center", i["est"]] + opts
        else:
            argv = ["call"] + opts + ["--center", "--", fin]  # a bare `--center` (parser const) must not swallow the file name
        captured = []

        class _Tab:
            def __getattr__(self, name):
                return getattr(tabio, name)

            def write(self, garr, outfname=None, *a, **k):
                captured.append(garr)
                return tabio.write(garr, outfname, *a, **k)
        saved = commands.tabio
        commands.tabio = _Tab()
        prev = logging.root.manager.disable
        logging.disable(logging.CRITICAL)
        try:
            args = commands.parse_args(argv)
            args.func(args)
        finally:
            logging.disable(prev)
            commands.tabio = saved
        if len(captured) != 1 or not os.path.exists(fout):
            raise AssertionError("cnvkit.py call did not write exactly one table to the requested output")
        out = captured[0]
        rb = read_cna(fout)
        if len(rb) != len(out) or any(abs(a - b) > 1e-5 * max(1, abs(b)) for a, b in zip(rb["log2"], out["log2"])):
            raise AssertionError("the written .cns does not read back as the table call computed")
        return out
    finally:
        shutil.rmtree(d, ignore_errors=True)


def run_impl(case):
    import numpy as np
    i = case["in"]
    op = case["op"]
    if op in _ext5.EXT_OPS:
        return _ext5.run_impl(case)
    if op in ("center", "expect_flat", "shift_xx"):
        rows = [[r[0], r[1], r[2], "G", r[3]] + ([r[4]] if r[4] is not None else []) for r in i["rows_f"]]
        has_depth = any(r[4] is not None for r in i["rows_f"])
        cols = ["chromosome", "start", "end", "gene", "log2"] + (["depth"] if has_depth else [])
        cna = _cna(rows, cols)
        if op == "center":
            import pandas as pd
            from cnvlib import descriptives
            orig = cna.copy()
            sel = (orig.drop_low_coverage(verbose=False) if i["skip_low"] else orig).autosomes(diploid_parx_genome=i["par"])
            labels = list(sel.data.index)
            if i.get("cli"):
                cna = _center_cli(i, cna)
            else:
                cna.center_all(i["est"], by_chrom=i["by_chrom"], skip_low=i["skip_low"], diploid_parx_genome=i["par"])
            new = [frac(float(v)) for v in cna["log2"]]
            # the chosen estimator of the bins selected on the original values, re-applied to the output
            # (biweight / mode are not modelled: the real estimator functions are used here)
            reest = 0.0
            if labels and i["est"] in ("biweight", "mode"):
                f = {"biweight": descriptives.biweight_location, "mode": descriptives.modal_location}[i["est"]]
                sub = cna.data.loc[labels]
                if i["by_chrom"]:
                    vals = pd.Series([f(g["log2"]) for _c, g in sub.groupby("chromosome", sort=False) if len(g)])
                else:
                    vals = sub["log2"]
                reest = float(f(vals))
            return {"log2": new, "reest": frac(reest), "sel": [int(x) for x in labels]}
        if op == "expect_flat":
            return [frac(float(v)) for v in cna.expect_flat_log2(i["hapX"], i["par"])]
        if op == "shift_xx":
            return [frac(float(v)) for v in cna.shift_xx(i["hapX"], i["is_xx"])["log2"]]
    if op == "sex_oracle":
        cols = ["chromosome", "start", "end", "gene", "log2", "weight"]
        rows = [[r[0], r[1], r[2], "G", r[3], r[4]] for r in i["rows_f"]]
        cna = _cna(rows, cols)
        if not i["with_w"]:
            cna = cna.keep_columns(cols[:-1])
        xx = bool(cna.guess_xx(i["hapX"], verbose=False))
        # shift_xx with the sex left to be inferred must act as with the inferred sex given explicitly, and bring
        # chrX to the autosomal level
        import numpy as np
        inferred = cna.shift_xx(i["hapX"])
        explicit = cna.shift_xx(i["hapX"], xx)
        same = bool(np.allclose(inferred["log2"].values, explicit["log2"].values, rtol=0, atol=1e-12))
        isx = (inferred.chromosome == inferred.chr_x_label).values
        auto = inferred.autosomes()["log2"].values
        dx = float(np.median(inferred["log2"].values[isx]) - np.median(auto)) if isx.any() and len(auto) else 0.0
        # the `sex` report: do_sex, and for one case in three `cnvkit.py sex FILE [-y] -o OUT` on the written table
        from cnvlib import commands
        rep = commands.do_sex([cna], i["hapX"], None)
        report = str(rep["sex"].iat[0])
        if i.get("cli"):
            import os, shutil, tempfile, logging
            from skgenome import tabio
            d = tempfile.mkdtemp(prefix="c15sex", dir="/var/tmp")
            try:
                fin, fout = os.path.join(d, "S.cnr"), os.path.join(d, "sex.tsv")
                tabio.write(cna, fin)
                argv = ["sex", fin, "-o", fout] + (["-y"] if i["hapX"] else [])
                prev = logging.root.manager.disable
                logging.disable(logging.CRITICAL)
                try:
                    a = commands.parse_args(argv)
                    a.func(a)
                finally:
                    logging.disable(prev)
                lines = [ln.rstrip("\n").split("\t") for ln in open(fout)]
                if len(lines) != 2 or lines[0][:2] != ["sample", "sex"]:
                    raise AssertionError("cnvkit.py sex did not write one row per file: %r" % (lines[:3],))
                report = lines[1][1]
            finally:
                shutil.rmtree(d, ignore_errors=True)
        return {"xx": xx, "shift_same": same, "x_minus_auto": dx, "report": report}
    if op == "sex_margin":
        from scipy.stats import median_test
        from cnvlib import commands
        cols = ["chromosome", "start", "end", "gene", "log2"] + (["weight"] if i.get("with_w") else [])
        rows = [[r[0], r[1], r[2], "G"] + list(r[3:]) for r in i["rows_f"]]
        cna = _cna(rows, cols)
        is_xy, stats = cna.compare_sex_chromosomes(i["hapX"], None)
        auto_l = cna.autosomes()["log2"].values

        def raw(vals):
            try:
                stat = median_test(auto_l, vals, ties="ignore", lambda_="log-likelihood")[0]
            except ValueError:
                return None
            return "nan" if not math.isfinite(stat) else frac(float(stat))
        x = cna[cna.chromosome == cna.chr_x_label]["log2"].values
        y = cna[cna.chromosome == cna.chr_y_label]["log2"].values
        fx, mx = (-1, 0) if i["hapX"] else (0, 1)
        st = {"xF": raw(x + fx), "xM": raw(x + mx)}
        if len(y):
            st.update(yF=raw(y + 3), yM=raw(y + 0))
        est = None
        if i.get("with_w"):
            # the location estimates the weighted branch of compare_to_auto works with (the real weighted_median)
            from cnvlib import descriptives
            wm = lambda v, w: frac(float(descriptives.weighted_median(v, w)))
            aw = cna.autosomes()["weight"].values
            xw = cna[cna.chromosome == cna.chr_x_label]["weight"].values
            yw = cna[cna.chromosome == cna.chr_y_label]["weight"].values
            est = {"A": wm(auto_l, aw), "XF": wm(x + fx, xw), "XM": wm(x + mx, xw)}
            if len(y):
                est.update(YF=wm(y + 3, yw), YM=wm(y + 0, yw))
        lr = stats["chrx_male_lr"]
        rep = commands.do_sex([cna], i["hapX"], None)
        xx = cna.guess_xx(i["hapX"], verbose=False)
        return {"is_male": bool(is_xy), "chrx_male_lr": None if not math.isfinite(lr) else frac(float(lr)),
                "report": str(rep["sex"].iat[0]), "guess_xx": bool(xx), "stats": st, "est": est,
                "columns": list(rep.columns), "nrep": len(rep)}
    if op == "sex":
        from scipy.stats import median_test
        cols = ["chromosome", "start", "end", "gene", "log2"]
        rows = [[r[0], r[1], r[2], "G", r[3]] for r in i["rows_f"]]
        cna = _cna(rows, cols)
        is_xy, stats = cna.compare_sex_chromosomes(i["hapX"], i["par"])
        auto_l = cna.autosomes()["log2"].values

        def cmp(vals):
            try:
                stat, _p, _m, cont = median_test(auto_l, vals, ties="ignore", lambda_="log-likelihood")
            except ValueError:
                stat = None
            else:
                if stat == 0 and 0 in cont:
                    stat = None
            if stat is not None and not math.isfinite(stat):
                return ["nan", "0"]
            return [None if stat is None else frac(float(stat)), "0"]
        x = cna[cna.chromosome == cna.chr_x_label]["log2"].values
        y = cna[cna.chromosome == cna.chr_y_label]["log2"].values
        fx, mx = (-1, 0) if i["hapX"] else (0, 1)
        params = {"xF": cmp(x + fx), "xM": cmp(x + mx)}
        if len(y):
            params.update(yF=cmp(y + 3), yM=cmp(y + 0))
        lr = stats["chrx_male_lr"]
        return {"is_male": bool(is_xy), "chrx_male_lr": None if not math.isfinite(lr) else frac(float(lr)),
                "params": params}
    raise ValueError(op)


def to_line(case, impl):
    i = case["in"]
    op = case["op"]
    err = isinstance(impl, dict) and "__error__" in impl
    if op in _ext5.EXT_OPS:
        return _ext5.to_line(case, impl, err)
    if op == "sex_oracle":
        return {"op": "sex_oracle", "in": {}}
    if op == "sex_margin":
        rows = [[r[0], r[1], r[2], frac(r[3]), None] for r in i["rows_f"]]
        base = {"rows": rows, "hapX": i["hapX"], "female": i["female"], "a": i["a"], "d": i["d"], "stats": {}}
        if err or any(v == "nan" for v in impl["stats"].values()):
            return {"op": "sex_margin", "in": base}
        base["stats"] = impl["stats"]
        if impl.get("est"):
            base["est"] = impl["est"]
        return {"op": "sex_margin", "in": base, "impl": {"is_male": impl["is_male"], "report": impl["report"]}}
    if op == "sex":
        rows = [[r[0], r[1], r[2], frac(r[3]), None] for r in i["rows_f"]]
        base = {"rows": rows, "hapX": i["hapX"], "par": i["par"], "weighted": False}
        if err or any("nan" in v for v in impl["params"].values()):
            base.update(xF=[None, "0"], xM=[None, "0"])
            return {"op": "sex", "in": base}
        base.update(impl["params"])
        return {"op": "sex", "in": base}
    line = {"op": op, "in": {k: v for k, v in i.items() if not k.endswith("_f")}}
    if not err:
        line["impl"] = impl
    return line


def judge(case, impl, resp):
    op = case["op"]
    if op in _ext5.EXT_OPS:
        return _ext5.judge(case, impl, resp, isinstance(impl, dict) and "__error__" in impl)
    if isinstance(impl, dict) and "__error__" in impl:
        return ["raises_" + impl["__error__"]], [], None
    if "error" in resp:
        return [], ["model error: " + resp["error"]], None
    if op == "sex_oracle":
        spec = [] if impl["xx"] == case["in"]["female"] else ["sex_inferred_under_noise"]
        if impl["report"] != ("Female" if case["in"]["female"] else "Male"):
            spec.append("sex_report_returns_that_sex")
        if not impl["shift_same"]:
            spec.append("shift_xx_uses_inferred_sex")
        # medians of >= 40 bins with sd <= 0.3: the two medians are each within ~0.15 of their levels
        if impl["xx"] == case["in"]["female"] and abs(impl["x_minus_auto"]) > 0.35:
            spec.append("shift_xx_brings_x_to_autosomal_level")
        return spec, [], None
    spec = list(resp.get("spec") or [])
    dis = []
    if op == "sex_margin":
        if any(v == "nan" for v in impl["stats"].values()):
            return [], [], "Mood statistic not finite"
        out = resp["out"]
        # the report and guess_xx are the decision, whatever it is (one row per sample, the documented columns)
        if impl["report"] != ("Male" if impl["is_male"] else "Female") or impl["guess_xx"] == impl["is_male"] \
                or impl["columns"] != ["sample", "sex", "X_logratio", "Y_logratio"] or impl["nrep"] != 1:
            dis.append(f"sex report / guess_xx differ from compare_sex_chromosomes: {impl['report']} {impl['guess_xx']} {impl['is_male']}")
        if impl.get("est") and out["rows_within"] and not out["hyp"] and Fraction(case["in"]["d"]) < Fraction(2499, 10000):
            dis.append("a weighted median lies outside the range of its data (bins within the margin, estimates not)")
        if out["deg_mismatch"]:
            dis.append(f"median_test raised on other tables than the model's degenerate ones: {out['deg_mismatch']} {out['tables']}")
        if Fraction(resp["slack"]) < Fraction(1, 10 ** 9):
            # knife-edge of the comparison `score > 1`; inside the margin on the theorem's path the score is
            # provably away from 1, so nothing is skipped there
            return spec, dis, None if (out["hyp"] and out["all_degenerate"]) else "score within 1e-9 of 1"
        if out["is_male"] != impl["is_male"]:
            dis.append(f"is_male model {out['is_male']} impl {impl['is_male']}")
        if impl["chrx_male_lr"] is not None:
            a, b = float(Fraction(impl["chrx_male_lr"])), float(Fraction(out["chrx_male_lr"]))
            if abs(a - b) > 1e-9 * max(1, abs(b)):
                dis.append(f"chrx_male_lr model {b} impl {a}")
        return spec, dis, None
    if op == "sex":
        if any("nan" in v for v in impl["params"].values()):
            return [], [], "Mood statistic not finite"
        out = resp["out"]
        if Fraction(resp["slack"]) < Fraction(1, 10 ** 9):
            return [], [], "score within 1e-9 of 1"
        if out["is_male"] != impl["is_male"]:
            dis.append(f"is_male model {out['is_male']} impl {impl['is_male']}")
        if impl["chrx_male_lr"] is not None:
            a, b = float(Fraction(impl["chrx_male_lr"])), float(Fraction(out["chrx_male_lr"]))
            if abs(a - b) > 1e-9 * max(1, abs(b)):
                dis.append(f"chrx_male_lr model {b} impl {a}")
        return spec, dis, None
    out = resp["out"]
    got = impl["log2"] if op == "center" else impl
    if op == "center" and resp.get("sel") != impl["sel"]:
        dis.append(f"selected bins: model {resp.get('sel')} impl {impl['sel']}")
    if out is not None:
        if len(out) != len(got):
            dis.append("length")
        else:
            for k, (m, g) in enumerate(zip(out, got)):
                a, b = float(Fraction(g)), float(Fraction(m))
                if abs(a - b) > 1e-9 * max(1, abs(b)):
                    dis.append(f"row {k}: model {b} impl {a}")
                    break
    return spec, dis, None


def nontrivial(case, impl, resp):
    if case["op"] in _ext5.EXT_OPS:
        return _ext5.nontrivial(case, impl, resp)
    rows = case["in"].get("rows_f") or []
    chroms = {r[0] for r in rows}
    sexy = any(c.replace("chr", "") in ("X", "Y") for c in chroms)
    return len(chroms) >= 2 and (sexy or any(r[3] <= -15 for r in rows))
