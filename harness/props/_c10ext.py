"""C10, round-4 ops (dispatched from harness/props/C10.py; Lean side: Driver/EffectsExt.lean, Driver/EffectsPath.lean)

* `rng_trace_lib`  the calls a function makes into the global generators INCLUDING draws made inside libraries (seen as a
                   move of the generator state between two recorded calls: `draw hidden`), matched against the extended
                   skeleton table RNG_TABLE_LIB, and the function's result under two generator states.
* `ensure_path_dirs` 1..5 guarded writes (core.ensure_path + tabio.write) to a path whose directory may not exist yet, in a
                   scratch tree of directories; the final tree (directories AND files) against the hand-written model and
                   against the program the translator read from the source of `ensure_path`.
* `alias_probe`    one real call of a function of the generated alias table on fresh argument objects: which of the
                   named arguments changed (bit-level fingerprint), against the summary of its row.
"""
from __future__ import annotations

import contextlib
import hashlib
import io

OPS = ("rng_trace_lib", "alias_probe", "ensure_path_dirs")


# ---------------------------------------------------------------------------------------------
# rng_trace_lib


def _recorder(C):
    class RecorderH(C._Recorder):
        """adds: a generator state that moved without a recorded call = a draw made inside a library"""

        def __enter__(self):
            super().__enter__()
            self.last = C._rng_states()
            rec = self
            for mod, n, _orig in self.saved:
                cur = getattr(mod, n)
                if isinstance(cur, type):
                    continue

                def make(cur):
                    def f(*a, **k):
                        rec.hidden()
                        try:
                            return cur(*a, **k)
                        finally:
                            rec.last = C._rng_states()
                    return f
                setattr(mod, n, make(cur))
            return self

        def hidden(self):
            now = C._rng_states()
            if now != self.last:
                self.trace.append(["draw", "hidden"])
                self.last = now

        def __exit__(self, *a):
            self.hidden()
            return super().__exit__(*a)
    return RecorderH()


def _matrix(seed, shape):
    import numpy as np
    return np.random.RandomState(seed).normal(size=shape)


def lib_entries(C):
    import numpy as np
    from cnvlib import cluster, reference

    def quiet(f):
        def g(*a):
            with contextlib.redirect_stdout(io.StringIO()):
                return f(*a)
        return g

    def kmeans(e, v):
        return sorted(map(tuple, cluster.kmeans(_matrix(v.get("ms", 7), tuple(v.get("shape", (12, 60)))))))

    def pca(e, v):
        return np.abs(cluster.pca_sk(_matrix(v.get("ms", 7), tuple(v.get("shape", (12, 60)))), 3)).round(6).tolist()

    def clusters(e, v):
        n, b = v.get("shape", (13, 300))
        m = _matrix(v.get("ms", 3), (n, b))
        m[1:n // 2] += 1.5 * np.sign(_matrix(5, (1, b)))
        return reference.create_clusters(m, 2, ["s%d" % i for i in range(n - 1)])

    old = C._trace_entries()
    out = {"cnvlib.cluster.kmeans": quiet(kmeans), "cnvlib.cluster.pca_sk": quiet(pca),
           "cnvlib.reference.create_clusters": quiet(clusters)}
    for k in ("cnvlib.fix.center_by_window", "cnvlib.segmetrics.confidence_interval_bootstrap",
              "skgenome.gary.GenomicArray.shuffle", "cnvlib.fix.do_fix", "cnvlib.call.do_call"):
        out[k] = old[k]
    return out


LIB_VARIANTS = {
    "cnvlib.cluster.kmeans": [{}, {"shape": [12, 600]}, {"shape": [40, 2000]}, {"shape": [30, 900], "ms": 11}, {"shape": [3, 40]}],
    "cnvlib.cluster.pca_sk": [{}, {"shape": [40, 2000]}, {"shape": [12, 600]}],
    "cnvlib.reference.create_clusters": [{}, {"shape": [41, 1500]}],
    "cnvlib.fix.center_by_window": [{}],
    "cnvlib.segmetrics.confidence_interval_bootstrap": [{"smoothed": True}],
    "skgenome.gary.GenomicArray.shuffle": [{}],
    "cnvlib.fix.do_fix": [{}],
    "cnvlib.call.do_call": [{}],
}
# functions the extended table must not list (they reach no generator, not even inside a library, or only a private one)
LIB_UNLISTED = {"cnvlib.cluster.pca_sk", "cnvlib.call.do_call"}


def run_rng_trace_lib(C, case):
    i = case["in"]
    f = lib_entries(C)[i["fn"]]
    results = []
    trace = None
    for k, s in enumerate((i.get("seed", 1), i.get("seed", 1) + 7919)):
        env = C.fresh_env(i["ds"])
        C._seed_rngs(s)
        rec = _recorder(C)
        with rec:
            r = f(env, i.get("variant", {}))
        results.append(C.digest(r))
        if trace is None:
            trace = rec.trace
    return {"trace": trace[:C.TRACE_CAP], "trace_len": len(trace), "results": results}


# ---------------------------------------------------------------------------------------------
# alias_probe: (function of the alias table) -> callable(env) -> (thunk, {parameter name: argument object})


def _empty_like(arr):
    return arr.as_dataframe(arr.data.iloc[:0])


def probes():
    from cnvlib import call, segmentation, segmetrics, fix, reports, bintest, export, smoothing
    import numpy as np

    def P(fn, args, thunk):
        return (fn, args, thunk)

    def seg_empty(method):
        def b(e):
            x = _empty_like(e["cnr"])
            # optional columns in an order sort_columns() would change
            cols = list(x.data.columns)
            req = [c for c in cols if c in ("chromosome", "start", "end", "gene", "log2")]
            x = x.as_dataframe(x.data[req + sorted((c for c in cols if c not in req), reverse=True)])
            return {"cnarr": x}, lambda: segmentation.do_segmentation(x, method)
        return b

    def b_call(e):
        f = ["ci", "cn"]
        return {"cnarr": e["sm"], "filters": f}, lambda: call.do_call(e["sm"], method="threshold", filters=f)

    def b_call_v(e):
        return {"cnarr": e["sm"], "variants": e["vcf"]}, lambda: call.do_call(e["sm"], e["vcf"], method="clonal", purity=0.7,
                                                                             is_sample_female=True)

    def b_seg(method):
        def b(e):
            return {"cnarr": e["cnr"]}, lambda: segmentation.do_segmentation(e["cnr"], method)
        return b

    def b_segm(e):
        return {"cnarr": e["cnr"], "segments": e["seg"]}, lambda: segmetrics.do_segmetrics(
            e["cnr"], e["seg"], ("mean",), ("sem",), ("ci", "pi"), bootstraps=10)

    def b_fix(e):
        return {"target_raw": e["tgt"], "antitarget_raw": e["anti"], "reference": e["ref"]}, \
            lambda: fix.do_fix(e["tgt"], e["anti"], e["ref"])

    def b_gm(e):
        return {"cnarr": e["cnr"], "segments": e["cl"]}, lambda: reports.do_genemetrics(e["cnr"], e["cl"], 0.2, 3, is_sample_female=True)

    def b_breaks(e):
        return {"probes": e["cnr"], "segments": e["seg"]}, lambda: reports.do_breaks(e["cnr"], e["seg"])

    def b_bintest(e):
        return {"cnarr": e["cnr"], "segments": e["seg"]}, lambda: bintest.do_bintest(e["cnr"], e["seg"], 0.2)

    def b_bed(e):
        return {"segments": e["cl"]}, lambda: export.export_bed(e["cl"], 2, False, None, True, "lbl", "ploidy")

    def b_vcf(e):
        return {"segments": e["cl"], "cnarr": e["cnr"]}, lambda: export.export_vcf(e["cl"], 2, False, None, True, cnarr=e["cnr"])

    def meth(name, argf=lambda e: ((), {}), key="cnr"):
        def b(e):
            a, k = argf(e)
            named = {"self": e[key]}
            return named, lambda: getattr(e[key], name)(*a, **k)
        return b

    def b_by_arm(e):
        return {"self": e["cnr"]}, lambda: list(e["cnr"].by_arm())

    def b_by_gene(e):
        ig = ["-", "CGH"]
        return {"self": e["cnr"], "ignore": ig}, lambda: list(e["cnr"].by_gene(ig))

    def b_conv(e):
        w = np.ones(5)
        return {"window": w}, lambda: smoothing.convolve_weighted(w, e["LOGV"], e["WTS"])

    def b_add(e):
        return {"self": e["cnr"], "other": e["cnr2"]}, lambda: e["cnr"].add(e["cnr2"])

    return [
        P("cnvlib.segmentation.do_segmentation", "empty-hmm", seg_empty("hmm")),
        P("cnvlib.segmentation.do_segmentation", "haar", b_seg("haar")),
        P("cnvlib.segmentation.do_segmentation", "hmm", b_seg("hmm")),
        P("cnvlib.segmentation.do_segmentation", "none", b_seg("none")),
        P("cnvlib.call.do_call", "filters", b_call),
        P("cnvlib.call.do_call", "variants", b_call_v),
        P("cnvlib.segmetrics.do_segmetrics", "", b_segm),
        P("cnvlib.fix.do_fix", "", b_fix),
        P("cnvlib.reports.do_genemetrics", "", b_gm),
        P("cnvlib.reports.do_breaks", "", b_breaks),
        P("cnvlib.bintest.do_bintest", "", b_bintest),
        P("cnvlib.export.export_bed", "", b_bed),
        P("cnvlib.export.export_vcf", "", b_vcf),
        # array methods: the in-place ones (summary writes `self`) and pure ones
        P("cnvlib.cnary.CopyNumArray.center_all", "", meth("center_all", lambda e: (("mode",), {}))),
        P("skgenome.gary.GenomicArray.sort", "", meth("sort", key="tgt_u")),
        P("skgenome.gary.GenomicArray.sort_columns", "", meth("sort_columns")),
        P("skgenome.gary.GenomicArray.shuffle", "", meth("shuffle")),
        P("skgenome.gary.GenomicArray.add", "", b_add),
        P("skgenome.gary.GenomicArray.by_arm", "", b_by_arm),
        P("cnvlib.cnary.CopyNumArray.by_gene", "", b_by_gene),
        P("skgenome.gary.GenomicArray.merge", "", meth("merge", key="regions")),
        P("skgenome.gary.GenomicArray.flatten", "", meth("flatten", key="regions")),
        P("skgenome.gary.GenomicArray.autosomes", "", meth("autosomes")),
        P("skgenome.gary.GenomicArray.copy", "", meth("copy")),
        P("cnvlib.cnary.CopyNumArray.shift_xx", "", meth("shift_xx", lambda e: ((False, True), {}))),
        P("cnvlib.cnary.CopyNumArray.drop_low_coverage", "", meth("drop_low_coverage")),
        P("cnvlib.cnary.CopyNumArray.squash_genes", "", meth("squash_genes")),
        P("cnvlib.cnary.CopyNumArray.smooth_log2", "", meth("smooth_log2")),
        # helpers whose summary says they write an argument (callers hand them fresh objects)
        P("cnvlib.smoothing.convolve_weighted", "", b_conv),
    ]


def probe_index():
    return {"%s/%s" % (fn, tag): b for fn, tag, b in probes()}


def run_alias_probe(C, case):
    i = case["in"]
    env = C.fresh_env(i["ds"])
    C._seed_rngs(i.get("seed", 1))
    named, thunk = probe_index()[i["probe"]](env)
    before = {k: C.arg_digest(v) for k, v in named.items()}
    err = None
    try:
        thunk()
    except Exception as ex:  # the probe is about the arguments; a refusal still must not have changed them
        err = type(ex).__name__
    after = {k: C.arg_digest(v) for k, v in named.items()}
    return {"changed": sorted(k for k in named if before[k] != after[k]), "observed": sorted(named), "raised": err}


# ---------------------------------------------------------------------------------------------
# ensure_path_dirs


def _path_arg(d, fname):
    """the path as `ensure_path` sees it (stdlib only): "/" in normpath, dirname(abspath) as components below `d`"""
    import os
    dn = os.path.dirname(os.path.abspath(fname))
    rel = os.path.relpath(dn, d)
    return {"name": os.path.relpath(os.path.abspath(fname), d), "slash": "/" in os.path.normpath(fname),
            "dir": [] if rel == "." else rel.split(os.sep)}


def run_ensure_path_dirs(C, case):
    import os
    import shutil
    import tempfile
    from skgenome import tabio
    from cnvlib import core as cnvcore
    i = case["in"]
    root = tempfile.mkdtemp(dir="/var/tmp", prefix="c10epd")
    cwd = os.getcwd()
    try:
        d = os.path.join(root, "d")
        os.mkdir(d)
        for dd in i["dirs"]:
            os.makedirs(os.path.join(d, *dd), exist_ok=True)
        for name, tok in i["pre"]:
            with open(os.path.join(d, name), "w") as f:
                f.write(tok)
        texts = {tok: tok for _n, tok in i["pre"]}
        os.chdir(d)
        fname = os.path.join(d, i["path"]) if i.get("absolute") else i["path"]
        parg = _path_arg(d, fname)
        for k in range(i["writes"]):
            arr = C._tiny(k)
            refp = os.path.join(root, "ref%d" % k)
            tabio.write(arr, refp)
            texts[open(refp).read()] = "w%d" % k
            cnvcore.ensure_path(fname)
            tabio.write(arr, fname)
        files, dirs = [], []
        for dp, dn, fns in os.walk(d):
            rel = os.path.relpath(dp, d)
            dirs.append([] if rel == "." else rel.split(os.sep))
            for fn in fns:
                p = os.path.join(dp, fn)
                t = open(p).read()
                files.append([os.path.relpath(p, d), texts.get(t, "?" + hashlib.sha1(t.encode()).hexdigest()[:8])])
        return {"files": sorted(files), "dirs": sorted(dirs, key="/".join), "path": parg}
    finally:
        os.chdir(cwd)
        shutil.rmtree(root, ignore_errors=True)


def _dirs_closed(dirs):
    out = {()}
    for d in dirs:
        for k in range(1, len(d) + 1):
            out.add(tuple(d[:k]))
    return [list(x) for x in sorted(out)]


def ensure_dirs_case(rng, tag="ensure_path_dirs"):
    path = rng.choice(["out.cnn", "./out.cnn", "sub/out.cnn", "new/deep/out.cnn", "a/b/c/out.cnn", "sub/deeper/ref.cnn",
                       "a.b/c.d.cnn", "sub/./out.cnn"])
    base = path.replace("./", "")
    dn = base.split("/")[:-1]
    k = rng.random()
    if k < 0.35:
        dirs = []
    elif k < 0.6:
        dirs = [dn] if dn else [["other"]]
    elif k < 0.8:
        dirs = [dn[:1]] if dn else []
    else:
        dirs = [dn, ["other", "x"]] if dn else [["sub"]]
    dirs = _dirs_closed([d for d in dirs if d])
    pre = []
    have_dir = list(dn) in dirs
    if have_dir:
        cand = [base, base + ".1", base + ".2", base + ".10", base + ".1.1", "/".join(dn + ["other.cnn"])]
        pre = [n for n in cand if rng.random() < 0.4]
    if ["other"] in dirs and rng.random() < 0.5:
        pre.append("other/out.cnn")
    pre = sorted(set(pre))
    return {"op": "ensure_path_dirs", "tag": tag + ("-mkdir" if not have_dir else "-exists") + ("-abs" if path.startswith("a/") else ""),
            "in": {"dirs": dirs, "pre": [[n, "pre:%d:%s" % (j, n)] for j, n in enumerate(pre)], "path": path,
                   "absolute": path.startswith("a/") or rng.random() < 0.2, "writes": rng.randint(1, 5)}}


# ---------------------------------------------------------------------------------------------
# interface pieces


def run_impl(C, case):
    if case["op"] == "rng_trace_lib":
        return run_rng_trace_lib(C, case)
    if case["op"] == "alias_probe":
        return run_alias_probe(C, case)
    if case["op"] == "ensure_path_dirs":
        return run_ensure_path_dirs(C, case)
    raise ValueError(case["op"])


def to_line(C, case, impl):
    op, i = case["op"], case["in"]
    failed = C._failed(impl)
    if op == "rng_trace_lib":
        return {"op": op, "in": {"fn": i["fn"]}, "impl": None if failed else {"trace": impl["trace"], "results": impl["results"]}}
    if op == "alias_probe":
        return {"op": op, "in": {"fn": i["fn"]}, "impl": None if failed else {"changed": impl["changed"]}}
    if op == "ensure_path_dirs":
        import os
        # the path argument as the code sees it does not depend on the run (stdlib path arithmetic on the case)
        parg = impl["path"] if not failed else _path_arg("/x/d", os.path.join("/x/d", i["path"]))
        return {"op": op, "in": {"dirs": _dirs_closed(i["dirs"]), "pre": i["pre"], "path": parg,
                                 "writes": ["w%d" % k for k in range(i["writes"])]},
                "impl": None if failed else {"files": impl["files"], "dirs": impl["dirs"]}}
    raise ValueError(op)


def judge(C, case, impl, resp):
    op, out = case["op"], resp["out"]
    spec_fail = list(resp.get("spec") or [])
    disagree = []
    if op == "rng_trace_lib":
        if not out.get("accepted"):
            disagree.append("trace %s is not a path of the extended skeleton of %s (known=%s)" % (impl["trace"][:8], case["in"]["fn"], out["known"]))
        if case["in"].get("listed") is not None and out["known"] != case["in"]["listed"]:
            disagree.append("extended RNG table %s %s" % ("misses" if case["in"]["listed"] else "unexpectedly lists", case["in"]["fn"]))
    elif op == "ensure_path_dirs":
        got = {"files": impl["files"], "dirs": impl["dirs"]}
        if out != got:
            disagree.append("tree %s, model %s" % (got, out))
        if resp.get("out_source_program") != got:
            disagree.append("tree %s, the program read from the source of ensure_path gives %s" % (got, resp.get("out_source_program")))
    elif op == "alias_probe":
        if not out["known"]:
            disagree.append("the alias table has no row for %s" % case["in"]["fn"])
        else:
            extra = [p for p in impl["changed"] if p not in out["may_write"]]
            if extra:
                disagree.append("%s changed its argument(s) %s; the summary of its skeleton allows %s" % (
                    case["in"]["fn"], extra, out["may_write"]))
            if not out.get("respects_summary", True):
                disagree.append("the skeleton of %s does not respect its summary" % case["in"]["fn"])
    return spec_fail, disagree, None


def nontrivial(C, case, impl, resp):
    if case["op"] == "rng_trace_lib":
        return any(o[0] == "draw" for o in impl["trace"])
    if case["op"] == "ensure_path_dirs":
        return case["in"]["writes"] >= 2 or list(impl["path"]["dir"]) not in _dirs_closed(case["in"]["dirs"])
    return bool(impl.get("observed"))


def gen_cases(C, rng, tier, dss):
    out = []
    for fn, vs in LIB_VARIANTS.items():
        for v in vs:
            out.append({"op": "rng_trace_lib", "tag": "lib-" + fn.rsplit(".", 1)[1],
                        "in": {"fn": fn, "ds": dss[0], "variant": v, "seed": rng.randrange(2 ** 31), "listed": fn not in LIB_UNLISTED}})
    for _ in range({"quick": 60, "thorough": 400}.get(tier, 80)):
        out.append(ensure_dirs_case(rng))
    for k, (fn, tag, _b) in enumerate(probes()):
        for ds in (dss if tier != "quick" else dss[:2]):
            out.append({"op": "alias_probe", "tag": "alias-" + fn.rsplit(".", 1)[1] + ("-" + tag if tag else ""),
                        "in": {"fn": fn, "probe": "%s/%s" % (fn, tag), "ds": ds, "seed": rng.randrange(2 ** 31)}})
    return out


def corpus(C):
    return [
        # nested directories that do not exist; the path with its first backup present in an existing directory
        {"op": "ensure_path_dirs", "tag": "corpus-dirs", "in": {"dirs": [], "pre": [], "path": "new/deep/out.cnn", "absolute": False, "writes": 3}},
        {"op": "ensure_path_dirs", "tag": "corpus-dirs", "in": {"dirs": [["sub"]], "pre": [["sub/out.cnn", "pre:0"], ["sub/out.cnn.1", "pre:1"]],
                                                                 "path": "sub/out.cnn", "absolute": True, "writes": 2}},
        # `reference --cluster` on a cohort large enough for scikit-learn's randomized SVD: PCA drew from the global
        # generator BEFORE cluster.kmeans re-seeded it (proposed_fixes/C10-cluster-pca-unseeded.diff)
        {"op": "rng_trace_lib", "tag": "corpus-pca-unseeded",
         "in": {"fn": "cnvlib.cluster.kmeans", "ds": 77, "variant": {"shape": [40, 2000]}, "seed": 1, "listed": True}},
        # do_segmentation(<no bins>, "hmm") returned the caller's own table and sorted its columns in place
        # (proposed_fixes/C10-segment-empty-returns-argument.diff)
        {"op": "alias_probe", "tag": "corpus-segment-empty",
         "in": {"fn": "cnvlib.segmentation.do_segmentation", "probe": "cnvlib.segmentation.do_segmentation/empty-hmm", "ds": 82, "seed": 1}},
    ]
