"""C06 -- interval arithmetic (merge/flatten/subtract/intersect-trim/subdivide/resize) is base-exact."""
from __future__ import annotations

from fractions import Fraction

from .. import tables as T
from ..core import frac

LEVEL = "proof"
RULE = ("exhaustive: every (pair of) sorted multiset(s) of <=2 intervals over 0..4 on one chromosome "
        "(quick) / <=2 x <=2 over 0..5 plus a 30% sample of <=2 x 3 over 0..5 (thorough), with and without rows on a second chromosome; "
        "random: tables <=40 rows, coordinates to 1e6, biased to duplicates/abutting/nested, chromosome namings chrN / N / "
        "chr1_gl..random, chrM / upper-case CHR1, merge bp in 0,1,2 and one of -1e6..1e7 per table; "
        "10% (exhaustive) / 40% (random) of the cases on tables that are filtered subsets (index labels != positions). "
        "REPRESENTATIONS: 13% of the exhaustive and 80% of the random cases are run a second time (tag -rep) with a random "
        "mix of: extra columns weight/probes/strand/accession/depth/log2 (default and custom combiners), no gene column, "
        "column order (any permutation; for flatten chromosome/start/end stay the first three), int32/float coordinates, "
        "object-dtype names, CopyNumArray, shuffled row order (every table except the one queried by intersection), "
        "merge(stranded=True), merge/flatten(combine=...), flatten(split_columns=...), subdivide(verbose=True, numpy "
        "numbers), chrom_sizes as superset / floats, positional / keyword / defaulted arguments, the same objects used "
        "twice, inputs compared with a copy taken before the call; the non-coordinate columns are judged by the rep_* clauses "
        "(Python re-statement of the combiners / 'piece carries every field of its row'), coordinates and gene labels by the Lean model and spec. "
        "MERGE_X (round 5b): 25% of the exhaustive and 90% of the random merge inputs plus 40 draws on an 8-row 3-chromosome table are run again "
        "as op merge_x: random subset/order of the columns gene/strand/accession/weight/probes/depth (integers), stranded=True in half of "
        "them, combine= drawn per column from first_of/last_of/join_strings/merge_strands/make_const/max/min/sum, rows shuffled in 30%; "
        "the WHOLE output table (every column) must equal the Lean model C06X.mergeX and satisfy the Lean spec C06X.mergeXSpecB (x_* clauses, bp in 0..1). "
        "non-trivial = at least two rows interact (overlap/abut/nest) or the output differs from the input; "
        "distinct = distinct (op, input) by hash")
EXHAUSTIVE = {"quick": True, "thorough": True}
ASSUMPTIONS = [
    "start < end; the table queried by intersection (self) is sorted (chromosome key, start, end) as every GenomicArray "
    "read by tabio is -- every other input is also run with its rows shuffled",
    "column names are Python identifiers (merge renames others to _N)",
    "merge(stranded=True): the '+' rows go through the Lean model, the whole result through the Python oracle",
    "op merge_x: numeric extra columns hold integers (weight in 1/8 units); with stranded=True and a combine= entry for `strand` that is "
    "make_const the x_* spec clauses are not read (the output strand is no longer the group's), model equality still is",
    "subdivide: float `int(i*span/n)` vs exact floor differences are knife-edge (skipped for model equality, still checked by the spec oracle)",
]
TRUSTED_EXTRA = ["pandas groupby/sort_values/searchsorted contracts as modelled in Basic.lean"]


def corpus():
    return [
        {"op": "subtract", "tag": "corpus-F", "in": {"a": [["chr1", 0, 100, "a"]],
                                                       "b": [["chr1", 10, 50, "x"], ["chr1", 20, 30, "y"]]}},
        {"op": "flatten", "tag": "corpus-G", "in": {"t": [["chr1", 0, 10, "a"], ["chr1", 5, 15, "b"]]}},
        {"op": "merge", "tag": "corpus", "in": {"t": [["chr1", 0, 5, "a"], ["chr1", 5, 8, "b"]], "bp": 0}},
    ]


def _single_ops(t, rng=None, big=False):
    out = []
    for bp in (0, 1, 2):
        out.append({"op": "merge", "in": {"t": t, "bp": bp}})
    out.append({"op": "flatten", "in": {"t": t}})
    out.append({"op": "total", "in": {"t": t}})
    if big and rng:
        span = max([r[2] - r[1] for r in t] + [1])
        total = max([r[2] for r in t] + [1]) - min([r[1] for r in t] + [0])
        cand = [a for a in (1, 2, 3, 7, 50, 200, 1000, 200 / 0.75, 5000, 150000, span / rng.randint(1, 30),
                            float(max(1, span // rng.randint(1, 30)))) if total / a <= 300]
        avgs = [rng.choice(cand or [float(total)])]
        mins = [rng.choice([0, 1, 10, 100, 1000])]
        bps = [rng.choice([-5000, -100, -3, -1, 0, 1, 10, 500, 10 ** 7])]
    else:
        avgs, mins, bps = [1, 2, 1.5], [0, 2], [-2, -1, 0, 1, 3]
        if t and max(r[2] - r[1] for r in t) <= 3:
            # an average bin size below one base: more bins than bases, so some cuts coincide and bins are EMPTY (dyadic, so the
            # float quotient is exact) - the round-5 mutant 'skip empty bins in _split_targets' is only visible here
            avgs = avgs + [0.375]
    for a in avgs:
        for m in mins:
            out.append({"op": "subdivide", "in": {"t": t, "avg": frac(a), "min": m, "avg_f": a}})
    chroms = sorted({r[0] for r in t})
    for bp in bps:
        out.append({"op": "resize", "in": {"t": t, "bp": bp, "sizes": None}})
        if chroms:
            size = (rng.choice([3, 5, 100, 10 ** 6, 10 ** 9]) if rng else 3)
            out.append({"op": "resize", "in": {"t": t, "bp": bp, "sizes": [[c, size] for c in chroms]}})
    return out


def _pair_ops(a, b):
    return [{"op": "subtract", "in": {"a": a, "b": b}},
            {"op": "intersect", "in": {"a": a, "b": b, "mode": "trim"}}]


def _with_chr2(t, rng):
    extra = [["chr2", s, e, f"h{i}"] for i, (s, e) in enumerate(sorted(rng.sample(T.intervals(0, 4), rng.randint(1, 2))))]
    return t + extra


def _table_rep(rng, rows, op, role, stranded=False):
    """a random representation of one table; returns (rep, rows) -- the rows are re-ordered / relabelled when the
    representation says so (the Lean model sees exactly these rows)"""
    rep = {}
    extra = [c for c in EXTRA_COLS if rng.random() < 0.4]
    rng.shuffle(extra)
    if stranded and "strand" not in extra:
        extra.append("strand")
    gene = rng.random() >= 0.2
    if gene and rng.random() < 0.12:
        rep["cls"] = "cna"
        if "log2" not in extra:
            extra.append("log2")
    if not gene:
        rep["gene"] = False
        rows = [[r[0], r[1], r[2], "-"] for r in rows]
    if extra:
        rep["extra"] = extra
    coords = ["chromosome", "start", "end"]
    rest = (["gene"] if gene else []) + extra
    k = rng.random()
    if k < 0.5 and not rep.get("cls"):
        # flatten needs chromosome/start/end to be the first three columns (in any order): with `start` or `end`
        # further right it raises TypeError, with `gene` among the first three the labels are not combined
        # -> proposed_fixes/C06-flatten-column-order.md; every other operation takes any column order
        rng.shuffle(coords)
        rng.shuffle(rest)
        cols = coords + rest
        if rng.random() < 0.6:   # (flatten too: finding BC, fixed in /repo 566e95a)
            cols = rng.choice([rest[:1] + coords + rest[1:], rest + coords, (coords + rest)[::-1],
                               rng.sample(coords + rest, len(coords + rest))])
        rep["cols"] = cols
    rep["coord"] = rng.choice(["int", "int", "int", "float", "int32"])
    if rng.random() < 0.3:
        rep["chrom"] = "object"
    # row order: every operation sorts or works row by row, except the table QUERIED by intersection (self)
    if rows and not stranded and not (op == "intersect" and role == "a") and rng.random() < 0.3:
        rows = list(rows)
        rng.shuffle(rows)
        rep["shuffled"] = True
    return rep, rows


def _with_rep(rng, case):
    """a copy of the case in another representation, with options of the anchored functions set"""
    import copy
    c = copy.deepcopy(case)
    op, i = c["op"], c["in"]
    opts = {"call": rng.choice(["pos", "kw", "default"])}
    if rng.random() < 0.3:
        opts["twice"] = True
    if op == "merge":
        if rng.random() < 0.25:
            opts["stranded"] = True
        if rng.random() < 0.3:
            opts["combine"] = rng.choice(MERGE_COMBINE)
    elif op == "flatten":
        if rng.random() < 0.4:
            opts["combine"] = rng.choice(sorted(CUSTOM_COMBINE))
        if rng.random() < 0.4:
            opts["split"] = rng.choice([["weight"], ["gene"], ["depth", "probes"]])
    elif op == "subdivide":
        if rng.random() < 0.4:
            opts["verbose"] = True
        if rng.random() < 0.2:
            opts["npnum"] = True
    elif op == "resize":
        opts["sizes"] = rng.choice(["dict", "superset", "float"])
    rep = {"opts": opts}
    for key in ("t", "a", "b"):
        if key in i:
            rep[key], i[key] = _table_rep(rng, i[key], op, key, bool(opts.get("stranded")))
    i["rep"] = rep
    c["tag"] = c.get("tag", "") + "-rep"
    return c


def gen_cases(rng, tier):
    cases = []
    if tier == "search":
        for _ in range(600):
            a = T.random_table(rng, 12, prefix="a")
            b = T.random_table(rng, 12, prefix="b")
            for c in _single_ops(a, rng, True) + _pair_ops(a, b):
                c["tag"] = "search"
                cases.append(c)
        return cases
    # thorough: every pair of <=2 x <=2 rows over 0..5 plus a 30% sample of the pairs with a 3-row second table
    # (the full <=2 x <=3 scope over 0..6 is 1.1 million cases / 17 minutes: kept out of the registered command)
    hi, ka, kb = (4, 2, 2) if tier == "quick" else (5, 2, 3)
    A = T.small_tables(hi, ka, prefix="a")
    B = T.small_tables(hi, kb, prefix="b")
    if tier != "quick":
        B = [b for b in B if len(b) < 3 or rng.random() < 0.3]
    singles = T.small_tables(hi, 3 if tier == "quick" else 3, prefix="a")
    for t in singles:
        for c in _single_ops(t):
            c["tag"] = "exh1"
            cases.append(c)
    for a in A:
        for b in B:
            for c in _pair_ops(a, b):
                c["tag"] = "exh2"
                cases.append(c)
    # second chromosome present in one or both tables
    for a in rng.sample(A, 40 if tier == "quick" else 66):
        for b in rng.sample(B, 12 if tier == "quick" else 30):
            a2 = _with_chr2(a, rng) if rng.random() < 0.7 else a
            b2 = _with_chr2(b, rng) if rng.random() < 0.7 else b
            for c in _pair_ops(a2, b2) + ([_single_ops(a2)[0], _single_ops(a2)[3]]):
                c["tag"] = "exh2-chr2"
                cases.append(c)
    # each table confined to ONE chromosome, the two chromosomes different (fast-path guard)
    for a in rng.sample(A, 60 if tier == "quick" else len(A)):
        for b in rng.sample(B, 8 if tier == "quick" else 20):
            b2 = [["chr2"] + r[1:] for r in b]
            for c in _pair_ops(a, b2) + _pair_ops(b2, a):
                c["tag"] = "exh2-otherchrom"
                cases.append(c)
    n_rand = 150 if tier == "quick" else 1500
    for _ in range(n_rand):
        chroms = rng.choice([("chr1",), ("chr1", "chr2"), ("chr1", "chr2", "chrX"), ("1", "10", "2", "X", "MT"),
                             ("chr2", "chr10", "chrX", "chrY", "chrM", "chr1_gl000191_random"), ("CHR1", "Chr2", "chrx")])
        a = T.random_table(rng, 40, chroms, prefix="a")
        b = T.random_table(rng, 40, rng.choice([chroms, chroms[:1], ("chr7",)]), prefix="b")
        for c in _single_ops(a, rng, True) + _pair_ops(a, b) + [
                {"op": "merge", "in": {"t": a, "bp": rng.choice([-10 ** 6, -1000, -10, -1, 3, 10, 1000, 10 ** 7])}}]:
            c["tag"] = "random"
            cases.append(c)
    for c in cases:
        if rng.random() < (0.4 if c.get("tag", "").startswith("random") else 0.1):
            c["in"]["sub"] = rng.randint(1, 10 ** 6)
            c["tag"] = c.get("tag", "") + "-subidx"
    # the same inputs in other representations / with the options of the anchored functions (added, not replacing)
    p_exh, p_rand = (0.13, 0.8) if tier == "quick" else (0.05, 0.8)
    reps = [_with_rep(rng, c) for c in cases
            if rng.random() < (p_rand if c.get("tag", "").startswith("random") else p_exh)]
    # hand-picked: every operation on the richest representation (all extra columns, gene first, float coordinates)
    rich = [["chr1", 0, 10, "a"], ["chr1", 5, 15, "b"], ["chr1", 15, 18, "b"], ["chr1", 20, 30, "c"], ["chr2", 1, 4, "d"]]
    other = [["chr1", 7, 22, "x"], ["chr1", 8, 9, "y"]]
    for c in _single_ops(rich) + _pair_ops(rich, other):
        for cols in (None, ["gene", "chromosome", "start", "end"] + list(EXTRA_COLS)):
            if c["op"] == "flatten" and cols:
                cols = ["end", "chromosome", "start", "gene"] + list(EXTRA_COLS)[::-1]
            d = {"op": c["op"], "tag": "rich-rep", "in": dict(c["in"])}
            key = "t" if "t" in d["in"] else "a"
            d["in"]["rep"] = {"opts": {"call": "kw", "twice": True},
                              key: {"extra": list(EXTRA_COLS), "coord": "float", **({"cols": cols} if cols else {})}}
            reps.append(d)
    return cases + reps + _merge_x_cases(rng, tier, cases)


def _merge_x_cases(rng, tier, cases):
    """round 5b: merge(bp, stranded, combine) on tables with extra columns, every column judged by the Lean model / spec"""
    from .. import c06_mergex as X
    out = []
    for c in cases:
        if c["op"] != "merge" or c["in"].get("rep"):
            continue
        if rng.random() < (0.9 if c.get("tag", "").startswith("random") else 0.25):
            out.append(X.make_case(rng, c["in"]["t"], c["in"]["bp"], "mergex-" + c.get("tag", "")))
    rich = [["chr1", 0, 10, "a"], ["chr1", 5, 15, "b"], ["chr1", 12, 18, "b"], ["chr1", 20, 30, "c"], ["chr2", 1, 4, "d"],
            ["chr2", 2, 6, "e"], ["chr10", 3, 9, "f"], ["chr10", 3, 9, "g"]]
    for _ in range(40 if tier == "quick" else 200):
        out.append(X.make_case(rng, rich, rng.choice([0, 0, 1, 2]), "mergex-rich"))
    return out


def run_impl(case):
    if case["op"] == "merge_x":
        from .. import c06_mergex as X
        return X.run(case)
    T.SUB = case["in"].get("sub")  # tables built as filtered subsets of larger ones (index labels != positions)
    try:
        if case["in"].get("rep"):
            return _run_rep(case)
        return _run(case)
    finally:
        T.SUB = None


def _run(case):
    op, i = case["op"], case["in"]
    if op == "merge":
        return T.rows_of(T.ga(i["t"]).merge(bp=i["bp"]))
    if op == "flatten":
        return T.rows_of(T.ga(i["t"]).flatten())
    if op == "total":
        return int(T.ga(i["t"]).total_range_size())
    if op == "subtract":
        return T.rows_of(T.ga(i["a"]).subtract(T.ga(i["b"])))
    if op == "intersect":
        return T.rows_of(T.ga(i["a"]).intersection(T.ga(i["b"]), mode=i["mode"]))
    if op == "subdivide":
        return T.rows_of(T.ga(i["t"]).subdivide(i["avg_f"], i["min"]))
    if op == "resize":
        sizes = dict((c, n) for c, n in i["sizes"]) if i["sizes"] else None
        return T.rows_of(T.ga(i["t"]).resize_ranges(i["bp"], sizes))
    raise ValueError(op)


# ---------------------------------------------------------------------------------------------
# the same tables in other REPRESENTATIONS (case["in"]["rep"]): extra columns with their combiners, no gene column,
# column order, dtypes, subclass, options of the anchored functions, call styles, reuse of the objects

EXTRA_COLS = ("weight", "probes", "strand", "accession", "depth", "log2")
CORE = ("chromosome", "start", "end", "gene")


def _extra_value(col, i):
    """value of extra column `col` for the row at position `i` of the case's row list.  weight: multiples of
    1/8 (sums are exact in doubles); depth: unique per row (identifies the source row)"""
    if col == "weight":
        return ((i * 37) % 11 + 1) / 8.0
    if col == "probes":
        return i % 5 + 1
    if col == "strand":
        return "+-"[(i * 7 + i // 3) % 2]
    if col == "accession":
        return f"NM_{i % 3}"
    if col == "depth":
        return i + 0.5
    if col == "log2":
        return -(i % 7) / 4.0
    raise KeyError(col)


def _records(rows, rep):
    recs = []
    for i, r in enumerate(rows):
        d = {"chromosome": r[0], "start": int(r[1]), "end": int(r[2])}
        if rep.get("gene", True):
            d["gene"] = r[3]
        for c in rep.get("extra", ()):
            d[c] = _extra_value(c, i)
        recs.append(d)
    return recs


def _ga_x(rows, rep, sub=None):
    """rows -> (GenomicArray in the representation `rep`, its records in row order)"""
    import random
    import numpy as np
    import pandas as pd
    from skgenome import GenomicArray
    cls = GenomicArray
    if rep.get("cls") == "cna":
        from cnvlib.cnary import CopyNumArray as cls
    recs = _records(rows, rep)
    cols = rep.get("cols") or (["chromosome", "start", "end"] + (["gene"] if rep.get("gene", True) else [])
                               + list(rep.get("extra", ())))
    body, mask = recs, None
    if sub is not None and recs:
        rng = random.Random(sub)
        body, mask = [], []
        for d in recs:
            for _ in range(rng.choice([0, 1, 1, 2, 3])):
                j = dict(rng.choice(recs))
                if "gene" in j:
                    j["gene"] = "junk"
                body.append(j)
                mask.append(False)
            body.append(d)
            mask.append(True)
        if all(mask):
            body.insert(0, dict(recs[0]))
            mask.insert(0, False)
    df = pd.DataFrame({c: [d[c] for d in body] for c in cols}, columns=cols)
    if not body:
        df = df.astype({c: (int if c in ("start", "end", "probes") else float if c in ("weight", "depth", "log2")
                            else str) for c in cols})
    else:
        coord = rep.get("coord", "int")
        if coord == "int32":
            df = df.astype({"start": np.int32, "end": np.int32})
        elif coord == "float":
            df = df.astype({"start": float, "end": float})
        elif coord == "object":
            df = df.astype({"start": object, "end": object})
        if rep.get("chrom") == "object":
            df = df.astype({c: object for c in ("chromosome", "gene") if c in df.columns})
    arr = cls(df)
    if mask is not None:
        arr = arr[np.array(mask)]
    return arr, recs


def _records_of(garr):
    d = garr.data
    out = []
    for tup in d.itertuples(index=False, name=None):
        out.append({str(c): (v.item() if hasattr(v, "item") else v) for c, v in zip(d.columns, tup)})
    return out


def _uniq_join(vals):
    seen = []
    for v in vals:
        if v not in seen:
            seen.append(v)
    return ",".join(seen)


def _merge_strands(vals):
    return "." if len(set(vals)) > 1 else vals[0]


CUSTOM_COMBINE = {
    # name -> (dict handed to the real code, the same functions for the oracle)
    "explicit_default": lambda: ({"gene": _cmb("join_strings")}, {}),
    "weight_max": lambda: ({"weight": max}, {"weight": max}),
    "depth_last": lambda: ({"depth": _cmb("last_of")}, {"depth": lambda v: v[-1]}),
    "probes_first_acc_last": lambda: ({"probes": _cmb("first_of"), "accession": _cmb("last_of")},
                                      {"probes": lambda v: v[0], "accession": lambda v: v[-1]}),
    "depth_min_probes_first": lambda: ({"depth": min, "probes": _cmb("first_of")},
                                       {"depth": min, "probes": lambda v: v[0]}),
}
# merge() hands its combiners a pandas Series, flatten() a list: skgenome.combiners.last_of (`elems[-1]`) raises
# KeyError on the Series with pandas >= 3 (observation, proposed_fixes/C06-merge-last_of-series.md) -> not used for merge
MERGE_COMBINE = ("explicit_default", "weight_max", "depth_min_probes_first")


def _cmb(name):
    from skgenome import combiners
    return getattr(combiners, name)


def _oracle_combiners(cols, stranded, custom):
    cmb = {"gene": _uniq_join, "accession": _uniq_join, "weight": sum, "probes": sum,
           "strand": (lambda v: v[0]) if stranded else _merge_strands}
    cmb.update(custom)
    return {k: f for k, f in cmb.items() if k in cols}


def _chrom_resort(recs):
    from skgenome.chromsort import sorter_chrom
    return sorted(recs, key=lambda d: sorter_chrom(d["chromosome"]))


def _groups_running_max(rows, bp):
    groups, mx = [], None
    for d in rows:
        if mx is None or d["start"] - mx > -bp:
            groups.append([d])
            mx = d["end"]
        else:
            groups[-1].append(d)
        mx = max(mx, d["end"])
    return groups


def _oracle_merge(recs, bp, stranded=False, custom=None):
    """plain re-statement of merge() on records: used for the NON-coordinate columns (the coordinates and the gene
    labels are judged by the Lean model and spec)"""
    if not recs:
        return []
    run, gaps = recs[0]["end"], []
    for d in recs[1:]:
        gaps.append(d["start"] - run)
        run = max(run, d["end"])
    if all(g > -bp for g in gaps):
        return [dict(d) for d in recs]
    key = (lambda d: (d["chromosome"], d["strand"])) if stranded else (lambda d: (d["chromosome"],))
    srt = sorted(recs, key=lambda d: key(d) + (d["start"], d["end"]))
    cmb = _oracle_combiners(recs[0].keys(), stranded, custom or {})
    out, keys = [], []
    for d in srt:
        if key(d) not in keys:
            keys.append(key(d))
    for k in keys:
        for g in _groups_running_max([d for d in srt if key(d) == k], bp):
            row = dict(g[0])
            if len(g) > 1:
                row["end"] = max(d["end"] for d in g)
                for c, f in cmb.items():
                    row[c] = f([d[c] for d in g])
            out.append(row)
    return _chrom_resort(out)


def _oracle_flatten(recs, custom=None):
    if not recs:
        return []
    run, fast = recs[0]["end"], True
    for d in recs[1:]:
        fast = fast and d["start"] >= run
        run = max(run, d["end"])
    if fast:
        return [dict(d) for d in recs]
    srt = sorted(recs, key=lambda d: (d["chromosome"], d["start"], d["end"]))
    cmb = _oracle_combiners(recs[0].keys(), False, custom or {})
    out, chroms = [], []
    for d in srt:
        if d["chromosome"] not in chroms:
            chroms.append(d["chromosome"])
    for c in chroms:
        for g in _groups_running_max([d for d in srt if d["chromosome"] == c], 0):
            if len(g) == 1:
                out.append(dict(g[0]))
                continue
            breaks = sorted({x for d in g for x in (d["start"], d["end"])})
            for a, b in zip(breaks, breaks[1:]):
                play = [d for d in g if d["start"] <= a and d["end"] >= b]
                row = dict(g[0], start=a, end=b)
                for col, f in cmb.items():
                    row[col] = f([d[col] for d in play])
                out.append(row)
    return _chrom_resort(out)


def _noncore(d):
    return {k: v for k, v in d.items() if k not in ("chromosome", "start", "end")}


def _rep_checks(op, i, opts, recs_a, recs_b, out_recs, in_cols):
    """clauses about the columns the 4-column Lean model does not see"""
    fails = []
    if out_recs and list(out_recs[0].keys()) != list(in_cols):
        fails.append("rep_columns_kept_in_order")
        return fails
    custom = CUSTOM_COMBINE[opts["combine"]]()[1] if opts.get("combine") else {}
    if op == "merge":
        exp = _oracle_merge(recs_a, i["bp"], bool(opts.get("stranded")), custom)
        if opts.get("stranded"):
            if out_recs != exp:
                fails.append("rep_merge_stranded_rows")
        elif [_noncore(d) for d in out_recs] != [_noncore(d) for d in exp]:
            fails.append("rep_merge_combined_fields")
    elif op == "flatten":
        exp = _oracle_flatten(recs_a, custom)
        if [_noncore(d) for d in out_recs] != [_noncore(d) for d in exp]:
            fails.append("rep_flatten_combined_fields")
    elif op in ("subtract", "intersect", "subdivide"):
        src = _oracle_merge(recs_a, 0) if op == "subdivide" else recs_a
        for p in out_recs:
            if not any(r["chromosome"] == p["chromosome"] and r["start"] <= p["start"] and p["end"] <= r["end"]
                       and _noncore(r) == _noncore(p) for r in src):
                fails.append("rep_piece_carries_all_fields_of_its_row")
                break
    elif op == "resize":
        sizes = dict((c, n) for c, n in i["sizes"]) if i["sizes"] else {}
        exp = []
        for r in recs_a:
            hi = sizes.get(r["chromosome"])
            clip = (lambda x: max(0, x) if hi is None else min(hi, max(0, x)))
            d = dict(r, start=clip(r["start"] - i["bp"]), end=clip(r["end"] + i["bp"]))
            if i["bp"] >= 0 or d["end"] - d["start"] > 0:
                exp.append(d)
        if out_recs != exp:
            fails.append("rep_resize_rows_all_fields")
    return fails


def _run_rep(case):
    import copy
    op, i = case["op"], case["in"]
    rep = i["rep"]
    opts = rep.get("opts", {})
    sub = i.get("sub")
    key_a = "t" if "t" in i else "a"
    A, recs_a = _ga_x(i[key_a], rep.get(key_a, {}), sub)
    B = recs_b = None
    if "b" in i:
        B, recs_b = _ga_x(i["b"], rep.get("b", {}), sub)
    before = [A.data.copy(deep=True), B.data.copy(deep=True) if B is not None else None]
    kw = opts.get("call") == "kw"

    def call():
        if op == "merge":
            args = {}
            if opts.get("stranded"):
                args["stranded"] = True
            if opts.get("combine"):
                args["combine"] = CUSTOM_COMBINE[opts["combine"]]()[0]
            if i["bp"] == 0 and opts.get("call") == "default":
                return A.merge(**args)
            return A.merge(bp=i["bp"], **args) if kw or args else A.merge(i["bp"])
        if op == "flatten":
            args = {}
            if opts.get("combine"):
                args["combine"] = CUSTOM_COMBINE[opts["combine"]]()[0]
            if opts.get("split"):
                args["split_columns"] = opts["split"]
            return A.flatten(**args)
        if op == "total":
            return A.total_range_size()
        if op == "subtract":
            return A.subtract(B)
        if op == "intersect":
            return A.intersection(B, mode=i["mode"]) if kw else A.intersection(B, i["mode"])
        if op == "subdivide":
            avg = i["avg_f"]
            if opts.get("npnum"):
                import numpy as np
                avg = np.float64(avg) if isinstance(avg, float) else np.int64(avg)
            if i["min"] == 0 and opts.get("call") == "default":
                return A.subdivide(avg)
            if kw:
                return A.subdivide(avg_size=avg, min_size=i["min"], verbose=bool(opts.get("verbose")))
            return A.subdivide(avg, i["min"], bool(opts.get("verbose")))
        if op == "resize":
            sizes = dict((c, n) for c, n in i["sizes"]) if i["sizes"] else None
            if sizes and opts.get("sizes") == "superset":
                sizes.update({c: n for c, n in {"chrQ": 7, "chr17_ctg5_hap1": 106433, "": 1}.items() if c not in sizes})
            if sizes and opts.get("sizes") == "float":
                sizes = {c: float(n) for c, n in sizes.items()}
            if sizes is None and opts.get("call") == "default":
                return A.resize_ranges(i["bp"])
            return A.resize_ranges(bp=i["bp"], chrom_sizes=sizes) if kw else A.resize_ranges(i["bp"], sizes)
        raise ValueError(op)

    out = call()
    fails = []
    if op == "total":
        res = int(out)
        out_recs = None
    else:
        out_recs = _records_of(out)
        res = T.rows_of(out)
        fails += _rep_checks(op, i, opts, recs_a, recs_b, out_recs, list(A.data.columns))
        if opts.get("stranded"):
            res = [r for r, d in zip(res, out_recs) if d["strand"] == "+"]
    # the inputs are what they were, and the same objects give the same answer again
    if not before[0].equals(A.data) or (B is not None and not before[1].equals(B.data)):
        fails.append("rep_input_table_unchanged")
    if opts.get("twice"):
        again = call()
        same = (int(again) == res) if op == "total" else _records_of(again) == out_recs
        if not same:
            fails.append("rep_same_objects_same_answer")
    return {"out": res, "rep_fail": fails}


def _unwrap(impl):
    if isinstance(impl, dict) and "rep_fail" in impl:
        return impl["out"], list(impl["rep_fail"])
    return impl, []


def _model_in(case):
    """what the 4-column Lean model is given: for stranded merges the '+' rows only (the '-' rows are judged by
    the rep_merge_stranded_rows clause)"""
    i = {k: v for k, v in case["in"].items() if k not in ("avg_f", "rep")}
    rep = case["in"].get("rep") or {}
    if rep.get("opts", {}).get("stranded"):
        i["t"] = [r for k, r in enumerate(i["t"]) if _extra_value("strand", k) == "+"]
    return i


def to_line(case, impl):
    line = {"op": case["op"], "in": _model_in(case)}
    if not (isinstance(impl, dict) and "__error__" in impl):
        # (total: the real number is judged by the Lean clause `total_is_covered_bases`, an endpoint sweep that does
        # not use merge)
        line["impl"] = _unwrap(impl)[0]
    return line


def _float_cuts_differ(case):
    """does float arithmetic of _split_targets differ from exact arithmetic on this input?"""
    import numpy as np
    avg_f = case["in"]["avg_f"]
    avg_q = Fraction(avg_f)
    spans = set()
    # any merged region has a span that is a difference of two input coordinates
    coords = sorted({r[1] for r in case["in"]["t"]} | {r[2] for r in case["in"]["t"]})
    for a in coords:
        for b in coords:
            if b > a:
                spans.add(b - a)
    for span in spans:
        nf = int(round(np.int64(span) / avg_f)) or 1
        q = Fraction(span) / avg_q
        fl = q.numerator // q.denominator
        d = q - fl
        nq = fl if d < Fraction(1, 2) else (fl + 1 if d > Fraction(1, 2) else (fl if fl % 2 == 0 else fl + 1))
        nq = nq or 1
        if nf != nq:
            return True
        bs = np.int64(span) / nf
        for k in range(1, nf):
            if int(k * bs) != (k * span) // nf:
                return True
    return False


def judge(case, impl, resp):
    if isinstance(impl, dict) and "__error__" in impl:
        return ["raises_" + impl["__error__"]], [], None
    if "error" in resp:
        return [], ["model error: " + resp["error"]], None
    impl, rep_fail = _unwrap(impl)
    spec = list(resp.get("spec") or []) + rep_fail
    disagree = []
    if case["op"] == "subdivide" and (spec or impl != resp["out"]) and len(case["in"]["t"]) <= 60 \
            and _float_cuts_differ(case):
        # the bin count round(span/avg) or a cut int(i*span/n) computed in doubles differs from exact arithmetic
        # (e.g. 10/0.4444444444444444 is 22.5 in doubles, 22.500000000000002 exactly): knife-edge, not a violation
        return rep_fail, [], "float bin count / cut differs from exact arithmetic"
    if impl != resp["out"]:
        disagree.append(f"{case['op']}: impl != model")
    return spec, disagree, None


def nontrivial(case, impl, resp):
    i = case["in"]
    rows = i.get("t") or (i.get("a", []) + i.get("b", []))
    if len(rows) < 2:
        return False
    for x in range(len(rows)):
        for y in range(x + 1, len(rows)):
            a, b = rows[x], rows[y]
            if a[0] == b[0] and a[1] <= b[2] and b[1] <= a[2]:
                return True
    return False


def shrink(case):
    i = case["in"]
    for key in ("t", "a", "b"):
        if key in i:
            for smaller in T.shrink_rows(i[key]):
                c = {"op": case["op"], "tag": "shrunk", "in": dict(i)}
                c["in"][key] = smaller
                yield c
