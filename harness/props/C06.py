"""C06 -- interval arithmetic (merge/flatten/subtract/intersect-trim/subdivide/resize) is base-exact."""
from __future__ import annotations

from fractions import Fraction

from .. import tables as T
from ..core import frac

LEVEL = "proof"
RULE = ("exhaustive: every (pair of) sorted multiset(s) of <=2 intervals over 0..4 on one chromosome "
        "(quick) / <=2 x <=2 over 0..5 plus a 30% sample of <=2 x 3 over 0..5 (thorough), with and without rows on a second chromosome; "
        "random: tables <=40 rows, coordinates to 1e6, biased to duplicates/abutting/nested. "
        "non-trivial = at least two rows interact (overlap/abut/nest) or the output differs from the input; "
        "distinct = distinct (op, input) by hash")
EXHAUSTIVE = {"quick": True, "thorough": True}
ASSUMPTIONS = [
    "input tables are sorted (chromosome key, start, end) with start < end, as every GenomicArray read by tabio is",
    "subdivide: float `int(i*span/n)` vs exact floor differences are knife-edge (skipped for model equality, still checked by the spec oracle)",
]
TRUSTED_EXTRA = ["pandas groupby/sort_values/searchsorted contracts as modelled in Basic.lean"]


def corpus():
    return [
        {"op": "subtract", "tag": "corpus-F", "in": {"a": [["chr1", 0, 100, "a"]],
                                                       "b": [["chr1", 10, 50, "x"], ["chr1", 20, 30, "y"]]}},
        {"op": "flatten", "tag": "corpus-G", "in": {"t": [["chr1", 0, 10, "a"], ["chr1", 5, 15, "b"]]}},
        {"op": "merge", "tag": "corpus", "in": {"t": [["chr1", 0, 5, "a"], ["chr1", 5, 8, "b"]], "bp": 0}},
    ]


def _single_ops(t, rng=None, big=False):
    out = []
    for bp in (0, 1, 2):
        out.append({"op": "merge", "in": {"t": t, "bp": bp}})
    out.append({"op": "flatten", "in": {"t": t}})
    out.append({"op": "total", "in": {"t": t}})
    if big and rng:
        span = max([r[2] - r[1] for r in t] + [1])
        total = max([r[2] for r in t] + [1]) - min([r[1] for r in t] + [0])
        cand = [a for a in (1, 2, 3, 7, 50, 200, 1000, 200 / 0.75, 5000, 150000, span / rng.randint(1, 30),
                            float(max(1, span // rng.randint(1, 30)))) if total / a <= 300]
        avgs = [rng.choice(cand or [float(total)])]
        mins = [rng.choice([0, 1, 10, 100, 1000])]
        bps = [rng.choice([-5000, -100, -3, -1, 0, 1, 10, 500, 10 ** 7])]
    else:
        avgs, mins, bps = [1, 2, 1.5], [0, 2], [-2, -1, 0, 1, 3]
    for a in avgs:
        for m in mins:
            out.append({"op": "subdivide", "in": {"t": t, "avg": frac(a), "min": m, "avg_f": a}})
    chroms = sorted({r[0] for r in t})
    for bp in bps:
        out.append({"op": "resize", "in": {"t": t, "bp": bp, "sizes": None}})
        if chroms:
            size = (rng.choice([3, 5, 100, 10 ** 6, 10 ** 9]) if rng else 3)
            out.append({"op": "resize", "in": {"t": t, "bp": bp, "sizes": [[c, size] for c in chroms]}})
    return out


def _pair_ops(a, b):
    return [{"op": "subtract", "in": {"a": a, "b": b}},
            {"op": "intersect", "in": {"a": a, "b": b, "mode": "trim"}}]


def _with_chr2(t, rng):
    extra = [["chr2", s, e, f"h{i}"] for i, (s, e) in enumerate(sorted(rng.sample(T.intervals(0, 4), rng.randint(1, 2))))]
    return t + extra


def gen_cases(rng, tier):
    cases = []
    if tier == "search":
        for _ in range(600):
            a = T.random_table(rng, 12, prefix="a")
            b = T.random_table(rng, 12, prefix="b")
            for c in _single_ops(a, rng, True) + _pair_ops(a, b):
                c["tag"] = "search"
                cases.append(c)
        return cases
    # thorough: every pair of <=2 x <=2 rows over 0..5 plus a 30% sample of the pairs with a 3-row second table
    # (the full <=2 x <=3 scope over 0..6 is 1.1 million cases / 17 minutes: kept out of the registered command)
    hi, ka, kb = (4, 2, 2) if tier == "quick" else (5, 2, 3)
    A = T.small_tables(hi, ka, prefix="a")
    B = T.small_tables(hi, kb, prefix="b")
    if tier != "quick":
        B = [b for b in B if len(b) < 3 or rng.random() < 0.3]
    singles = T.small_tables(hi, 3 if tier == "quick" else 3, prefix="a")
    for t in singles:
        for c in _single_ops(t):
            c["tag"] = "exh1"
            cases.append(c)
    for a in A:
        for b in B:
            for c in _pair_ops(a, b):
                c["tag"] = "exh2"
                cases.append(c)
    # second chromosome present in one or both tables
    for a in rng.sample(A, 40 if tier == "quick" else 66):
        for b in rng.sample(B, 12 if tier == "quick" else 30):
            a2 = _with_chr2(a, rng) if rng.random() < 0.7 else a
            b2 = _with_chr2(b, rng) if rng.random() < 0.7 else b
            for c in _pair_ops(a2, b2) + ([_single_ops(a2)[0], _single_ops(a2)[3]]):
                c["tag"] = "exh2-chr2"
                cases.append(c)
    # each table confined to ONE chromosome, the two chromosomes different (fast-path guard)
    for a in rng.sample(A, 60 if tier == "quick" else len(A)):
        for b in rng.sample(B, 8 if tier == "quick" else 20):
            b2 = [["chr2"] + r[1:] for r in b]
            for c in _pair_ops(a, b2) + _pair_ops(b2, a):
                c["tag"] = "exh2-otherchrom"
                cases.append(c)
    n_rand = 150 if tier == "quick" else 1500
    for _ in range(n_rand):
        chroms = rng.choice([("chr1",), ("chr1", "chr2"), ("chr1", "chr2", "chrX"), ("1", "10", "2", "X", "MT")])
        a = T.random_table(rng, 40, chroms, prefix="a")
        b = T.random_table(rng, 40, rng.choice([chroms, chroms[:1], ("chr7",)]), prefix="b")
        for c in _single_ops(a, rng, True) + _pair_ops(a, b):
            c["tag"] = "random"
            cases.append(c)
    for c in cases:
        if rng.random() < (0.4 if c.get("tag", "").startswith("random") else 0.1):
            c["in"]["sub"] = rng.randint(1, 10 ** 6)
            c["tag"] = c.get("tag", "") + "-subidx"
    return cases


def run_impl(case):
    T.SUB = case["in"].get("sub")  # tables built as filtered subsets of larger ones (index labels != positions)
    try:
        return _run(case)
    finally:
        T.SUB = None


def _run(case):
    op, i = case["op"], case["in"]
    if op == "merge":
        return T.rows_of(T.ga(i["t"]).merge(bp=i["bp"]))
    if op == "flatten":
        return T.rows_of(T.ga(i["t"]).flatten())
    if op == "total":
        return int(T.ga(i["t"]).total_range_size())
    if op == "subtract":
        return T.rows_of(T.ga(i["a"]).subtract(T.ga(i["b"])))
    if op == "intersect":
        return T.rows_of(T.ga(i["a"]).intersection(T.ga(i["b"]), mode=i["mode"]))
    if op == "subdivide":
        return T.rows_of(T.ga(i["t"]).subdivide(i["avg_f"], i["min"]))
    if op == "resize":
        sizes = dict((c, n) for c, n in i["sizes"]) if i["sizes"] else None
        return T.rows_of(T.ga(i["t"]).resize_ranges(i["bp"], sizes))
    raise ValueError(op)


def to_line(case, impl):
    line = {"op": case["op"], "in": {k: v for k, v in case["in"].items() if k != "avg_f"}}
    if not (isinstance(impl, dict) and "__error__" in impl) and case["op"] != "total":
        line["impl"] = impl
    return line


def _float_cuts_differ(case):
    """does float arithmetic of _split_targets differ from exact arithmetic on this input?"""
    import numpy as np
    avg_f = case["in"]["avg_f"]
    avg_q = Fraction(avg_f)
    spans = set()
    # any merged region has a span that is a difference of two input coordinates
    coords = sorted({r[1] for r in case["in"]["t"]} | {r[2] for r in case["in"]["t"]})
    for a in coords:
        for b in coords:
            if b > a:
                spans.add(b - a)
    for span in spans:
        nf = int(round(np.int64(span) / avg_f)) or 1
        q = Fraction(span) / avg_q
        fl = q.numerator // q.denominator
        d = q - fl
        nq = fl if d < Fraction(1, 2) else (fl + 1 if d > Fraction(1, 2) else (fl if fl % 2 == 0 else fl + 1))
        nq = nq or 1
        if nf != nq:
            return True
        bs = np.int64(span) / nf
        for k in range(1, nf):
            if int(k * bs) != (k * span) // nf:
                return True
    return False


def judge(case, impl, resp):
    if isinstance(impl, dict) and "__error__" in impl:
        return ["raises_" + impl["__error__"]], [], None
    if "error" in resp:
        return [], ["model error: " + resp["error"]], None
    spec = list(resp.get("spec") or [])
    disagree = []
    if case["op"] == "subdivide" and (spec or impl != resp["out"]) and len(case["in"]["t"]) <= 60 \
            and _float_cuts_differ(case):
        # the bin count round(span/avg) or a cut int(i*span/n) computed in doubles differs from exact arithmetic
        # (e.g. 10/0.4444444444444444 is 22.5 in doubles, 22.500000000000002 exactly): knife-edge, not a violation
        return [], [], "float bin count / cut differs from exact arithmetic"
    if impl != resp["out"]:
        disagree.append(f"{case['op']}: impl != model")
    return spec, disagree, None


def nontrivial(case, impl, resp):
    i = case["in"]
    rows = i.get("t") or (i.get("a", []) + i.get("b", []))
    if len(rows) < 2:
        return False
    for x in range(len(rows)):
        for y in range(x + 1, len(rows)):
            a, b = rows[x], rows[y]
            if a[0] == b[0] and a[1] <= b[2] and b[1] <= a[2]:
                return True
    return False


def shrink(case):
    i = case["in"]
    for key in ("t", "a", "b"):
        if key in i:
            for smaller in T.shrink_rows(i[key]):
                c = {"op": case["op"], "tag": "shrunk", "in": dict(i)}
                c["in"][key] = smaller
                yield c
