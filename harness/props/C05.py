"""C05 -- the pooled reference is the robust per-bin consensus in the chosen reference sex."""
from __future__ import annotations

import math
import os
import random
import shutil
import tempfile
from fractions import Fraction

from ..core import frac
from . import _c05cluster
from . import _c05sexglue

LEVEL = "proof"
RULE = ("cohorts of 1..8 coverage-file pairs written to a temp dir (sex mix, per-sample depth scale, noise or none, chr / "
        "plain naming, with / without antitarget files incl. empty ones, male / female reference, sexes given or "
        "inferred by the real guess_xx) through do_reference with the bias corrections off (exact oracle = the Lean "
        "model incl. Tukey's biweight location / midvariance).  Configuration cells drawn per cohort: sex chromosomes "
        "among targets and antitargets / only among the antitargets (the sexes can then only come from the antitarget "
        "files) / nowhere; one sample whose antitargets look like the other sex than its targets (70% of the eligible "
        "inferred-sex cohorts: the antitargets decide); diploid_parx_genome grch37 / grch38 / GRCh38 with half the X and "
        "Y bins inside PAR1 (30% of the non-ideal cohorts); files without a depth column (8%, integer log2 so that "
        "depth = 2^log2 is exact); files carrying a gc column (12%); do_cluster / -c with min_cluster_size 1 / 2 / 4 "
        "(25% of the cohorts of >= 3 samples: pooled columns against the model as always, cluster columns present and "
        "paired, and for depth-only cohorts equal to the pooled profile with spread 0); the antitarget list in an order "
        "of its own; file lists as tuples (30%); no antitargets as [] or None; arguments at their defaults left out "
        "or passed positionally; rows of each file shuffled (15%; the reader sorts).  every 8th cohort is malformed, "
        "in turn: a target coordinate differs / only a gene name differs / a row is missing / an antitarget "
        "coordinate differs / one antitarget file is missing (unequal counts).  do_reference_flat (targets +- "
        "antitargets); calculate_gc_lo on random sequences; flat references over a generated genome (op flat_fasta: "
        "FASTA lines of 50 / 60 / 100 bases, regions of differing G+C / lowercase / N content; the gc and rmask "
        "COLUMNS of every bin against the bin's own sequence, one bin -- the first that looks wrong -- through the "
        "Lean gcRmask model; log2 rows unchanged by the genome; API or `reference -t -a -f`).  corrections ON (op "
        "reference_on, semantic clauses only: exact bins, spread ~ 0, same profile as at equal depth): cohorts of 3..6 "
        "normals differing only in depth (tiled or irregular designs, non-flat profile, <= 10% X bins), the cells in "
        "turn: with antitarget files / with a genome FASTA (GC and RepeatMasker corrections really on; gc of every bin "
        "and rmask of the antitarget bins against the sequences) / with a gc column in the files / every third cohort "
        "mixed-sex with every other sample of the other sex and the sexes inferred (>= 45 X bins among >= 570).  "
        "about 15% of the cases (every 5th cohort, every other malformed cohort, every 3rd corrections-on cohort, "
        "every other flat reference, every 3rd flat_fasta; tag cli-*) "
        "go through the command line instead, `cnvkit.py reference` run in-process (parse_args + _cmd_reference + the "
        "writer): target and antitarget .cnn files in one list (targets first / antitargets first / interleaved) or "
        "as their directory, -o, -y / --male-reference / --haploid-x-reference or absent, -x / -g / --sample-sex / "
        "--gender with every spelling of male / female or absent (sexes inferred), --diploid-parx-genome, -c / "
        "--cluster --min-cluster-size, --no-edge always and --no-gc "
        "--no-rmask given or (without a genome and without a gc column, where they cannot matter) left to the "
        "parser's defaults, half of "
        "them with -f <generated FASTA with varied G+C / lowercase content> so that --no-gc / --no-rmask are what "
        "keeps the corrections off; the corrections-on cohorts with no --no-* flag; the flat reference as "
        "`reference -t targets.bed [-a antitargets.bed] [-y] [-f fa] -o out`; the table handed to the writer is judged "
        "and the written file must read back equal to it within 1e-5 relative. non-trivial = >= 2 samples or a "
        "sex chromosome present; distinct by hash.  round 4, tag corr-* (20 / 80 cohorts): general cohorts (noise, sex mix, "
        "depth scales, sexes given / inferred, with / without / empty antitargets, PAR genomes, conflicts) through "
        "do_reference with the bias corrections ON against the model that composes C04's center_by_window into the "
        "reference (exact oracle): a genome FASTA (gc for both blocks, rmask for the antitargets; sometimes a gc column "
        "besides, which must be ignored) / a gc column in the files / neither; do_gc, do_edge, do_rmask drawn so that at "
        "least one correction is live, 30% with the flags that are on left to do_reference's defaults; every 5th with "
        "one sample whose target bins are mostly at null coverage (its corrections are skipped); non-trivial = the "
        "corrections changed some reference value")
EXHAUSTIVE = {"quick": False, "thorough": False}
ASSUMPTIONS = ["corrections off for the exact tie (with corrections on the rolling-median steps are C04's subject)",
               "sample sexes are a parameter of the model: given, or inferred by the real guess_xx (C15)",
               "values are taken as re-read from the written .cnn files (%.6g), so file I/O rounding is outside",
               "corrections ON, exact tie (tag corr-*): third-party numerics enter as parameters computed by the same "
               "library calls as in C04 -- numpy's seeded permutation (seed 0xA5EED), the rolling-median half window "
               "_width2wing(0.1, n) -- and the key columns: gc / rmask fractions counted by the harness from the generated "
               "genome, the gc column as re-read from the first file, the edge-bias keys as doubles from the real "
               "get_edge_bias (checked against the model's exact formula to 1e-9); the sexes come from the model's "
               "resolveSexes applied to the real guess_xx answer per file",
               "do_cluster: the per-cluster columns log2_i / spread_i are not modelled (k-means membership); checked are "
               "the pooled columns (unchanged, exact oracle), presence / pairing of the cluster columns and, for cohorts "
               "differing only in depth and sex, that every cluster reproduces the pooled profile with spread 0"]
RULE += ("  Round 5 (op ref_cluster): cohorts of 3..8 samples (two k-means clusters from 6 samples on) through "
         "do_reference(do_cluster=True, min_cluster_size 1 / 2 / 3), corrections off, every cell of the cohort generator; "
         "the k-means membership is observed from the real run (spy on cnvlib.cluster.kmeans) and every cell of every "
         "log2_i / spread_i column is compared with the model's biweight summaries over exactly the member samples; "
         "non-trivial = at least one cluster column was written.  Three (thorough: eight) further cohorts with inferred "
         "sexes, a female sample and header-only antitarget files (tag sexglue-*); on every `reference` cohort the sexes "
         "dictionary do_reference hands to combine_probes (spy) is compared with the model's resolveSexes")
ASSUMPTIONS.append("round 5: the per-cluster columns ARE modelled (Model/ReferenceExt5Cluster.lean, op ref_cluster) with the "
                   "k-means membership (PCA, whitening, scipy kmeans2 under the fixed numpy seed) as a parameter observed "
                   "from the real run; corrections off")
TRUSTED_EXTRA = ["tabio read/write of .cnn files (C08)", "numpy apply_along_axis / vstack / hstack plumbing",
                 "corrections on (tag corr-*): numpy.random.permutation (MT19937) under the fixed seed, pandas "
                 "rolling(center=True).median, smoothing._width2wing -- as in C04; pyfaidx slicing of the generated genome"]


def _bins(rng, style, anti, nx=45, sexchr=True, par=False):
    """bins of 1..3 autosomes, X (nx bins) and (70%) Y; `sexchr=False`: a panel without sex chromosomes;
    `par`: the first half of the X / Y bins lies in PAR1 of both supported builds (from 100 kb), the rest beyond
    both PAR1 ends (from 3 Mb)"""
    out = []
    chroms = [style + c for c in ["1", "2", "3"][: rng.randint(1, 3)]] + [style + "X"] + ([style + "Y"] if rng.random() < .7 else [])
    for c in chroms:
        pos = 0
        sex = c[-1] in "XY"
        n = rng.randint(4, 9) if not sex else (nx if c[-1] == "X" else rng.randint(3, 6))
        if sex and par:
            pos = 100000
        for i in range(n):
            if sex and par and i == (n + 1) // 2:
                pos = 3000000
            sz = rng.randint(100, 300) if not anti else rng.randint(5000, 9000)
            pos += rng.randint(0, 500)
            if not sex or sexchr:
                out.append([c, pos, pos + sz, "Antitarget" if anti else "G%d" % (i // 3)])
            pos += sz
    return out


MALFORMED = ("bins_differ", "gene_differs", "fewer_rows", "anti_bins_differ", "unequal_counts")


def _cohort(rng, ideal=False, want=None):
    """`want`: the way in which one file's bins differ (a malformed cohort), or None"""
    style = rng.choice(["chr", ""])
    k = rng.randint(3, 6) if ideal else rng.randint(2 if want else 1, 8)
    hapx = rng.random() < .5
    with_anti = rng.random() < .6 or want in MALFORMED[3:]
    given = rng.choice([None, "true", "false"])
    if ideal and rng.random() < 0.6:
        given = None  # mixed-sex cohort with inferred sexes: the case where the sex shift of one sample could leak into another
    one_sex = rng.random() < .5
    # the remaining configuration cells come from a private stream (drawn up front, so that the cohorts themselves
    # stay the ones generated before these cells existed)
    r3 = random.Random(rng.getrandbits(32))
    empty_anti = with_anti and rng.random() < 0.15 and want not in MALFORMED[3:]
    # where the sex chromosomes are: in both bin sets / only among the antitargets (a gene panel without X / Y
    # targets: the sexes can only come from the antitarget files) / nowhere
    x_layout = "both"
    u = r3.random()
    if u < .12 and with_anti and not empty_anti:
        x_layout = "anti_only"
    elif .12 <= u < .2:
        x_layout = "none"
    # diploid_parx_genome: exact oracle only (the ideal clause has no notion of a PAR profile)
    par = r3.choice(["grch38", "grch37", "GRCh38"]) if (not ideal and r3.random() < .3) else None
    # coverage files without a depth column (depth = 2^log2 then): integer log2 values keep 2^log2 exact
    nodepth = not ideal and r3.random() < .08
    # coverage files carrying a gc column (import-picard); with the GC correction off it must not matter
    gc_col = r3.random() < .12
    # one sample whose antitargets look like the other sex than its targets: the antitargets decide
    conflict = (not ideal and given is None and with_anti and not empty_anti and x_layout == "both" and k >= 2
                and r3.random() < .7)
    # sex inference needs >= 40 X bins (C15); with given sexes small tables do
    nx = rng.randint(45, 50) if given is None else rng.randint(3, 8)
    tb = _bins(rng, style, False, nx, sexchr=(x_layout == "both"), par=bool(par))
    ab = [[c, s + 100000, e + 100000, g] for c, s, e, g in _bins(rng, style, True, nx, sexchr=(x_layout != "none"), par=bool(par))] if with_anti else []
    # values on a 1/8 grid: exactly representable, printed exactly by %.6g, and small as rationals
    # (the exact biweight iterations square denominators; full 53-bit inputs make the model very slow)
    g8 = (lambda x: float(round(x))) if nodepth else (lambda x: round(x * 8) / 8)
    # ideal cohorts: a flat common profile, so that the expected levels are exactly 0 / -1 (a male sample's Y
    # follows the profile while a female sample's Y is set to -1: only a flat profile makes them agree)
    prof_t = [0.0 if ideal else g8(rng.gauss(0, .4)) for _ in tb]
    prof_a = [0.0 if ideal else g8(rng.gauss(0, .4)) for _ in ab]
    samples = []
    for s in range(k):
        fem = rng.random() < .5
        if ideal and given is None:
            fem = (s != 0)  # one male among females; file names (random prefix) decide the processing order
        if ideal and given is not None:
            fem = (given == "true")   # do_reference takes ONE sex for all samples when it is given
        scale = g8(rng.gauss(0, 1))
        sd = 0.0 if ideal else rng.choice([0.0, 0.125, 0.25])
        if nodepth:
            sd *= 4

        def mk(bins, prof, fem):
            rows = []
            for (c, a, b, g), p in zip(bins, prof):
                lg = 6 + scale + p + (g8(rng.gauss(0, sd)) if sd else 0.0)
                cc = c.replace("chr", "")
                if cc == "X" and not fem:
                    lg -= 1
                if cc == "Y":
                    lg = lg - 1 if not fem else lg - 7
                if not ideal and rng.random() < 0.02:
                    rows.append([c, a, b, g, -20.0, 0.0])
                else:
                    rows.append([c, a, b, g, lg, float(rng.randint(2, 400)) / 2])
            return rows
        samples.append({"name": "smp%02d_%d" % (rng.randint(0, 99), s), "female": fem,
                        "t": mk(tb, prof_t, fem), "a": mk(ab, prof_a, fem != (conflict and s == k - 1))})
    order = list(range(k))
    rng.shuffle(order)
    malformed = None
    drop_anti = None
    if want:
        # the ways in which a file's bins differ: a coordinate; only a gene name; a missing row; the same in an
        # antitarget file; and a cohort with fewer antitarget than target files
        malformed = want
        bad = samples[r3.randrange(k)]
        if malformed == "bins_differ":
            r = r3.choice(bad["t"])
            r[1 + r3.randrange(2)] += 1
        elif malformed == "gene_differs":
            r = r3.choice(bad["t"])
            r[3] = r[3] + "b"
        elif malformed == "fewer_rows":
            del bad["t"][r3.randrange(len(bad["t"]))]
        elif malformed == "anti_bins_differ":
            r = r3.choice(bad["a"])
            r[r3.choice([1, 2])] += 1
        else:
            drop_anti = bad["name"]
    # do_cluster (reference -c): the pooled columns must not change; >= 3 samples (the PCA wants 3 components)
    cluster = None
    if k >= 3 and not malformed and r3.random() < .25:
        cluster = r3.choice([1, 2, 4])
    # how the API is called: antitarget files in an order of their own; tuples; no antitargets as [] instead of None;
    # arguments at their defaults left out
    order_a = list(range(k))
    r3.shuffle(order_a)
    api = {"tuple": r3.random() < .3, "empty_list": r3.random() < .5, "implicit": r3.random() < .5,
           "shuffle_rows": r3.getrandbits(30) if (not malformed and r3.random() < .15) else None}
    return {"op": "reference", "tag": ("ideal" if ideal else "cohort") + ("-" + malformed if malformed else ""),
            "in": {"samples": samples, "order": order, "hapX": hapx, "par": par, "with_anti": with_anti,
                   "empty_anti": empty_anti, "given": given, "ideal": ideal, "k": k,
                   "profile_t": [frac(x) for x in prof_t], "profile_a": [frac(x) for x in prof_a],
                   "x_layout": x_layout, "nodepth": nodepth, "gc_col": gc_col, "conflict": bool(conflict),
                   "drop_anti": drop_anti, "cluster": cluster, "order_a": order_a, "api": api}}


def _cohort_on(rng, nth=0):
    """normals that differ only in sequencing depth (and, in every third cohort, in sex -- every other sample, left to be inferred),
    bias corrections ON (semantic clauses only: the rolling-median corrections are C04's subject).  Half the cohorts
    use a tiled design (equal bin sizes and gaps, hence tied edge-bias keys); the common profile is not flat; sex
    chromosomes are at most 10% of the bins.  Half of them come with antitarget files, half with a genome FASTA
    (without one only the edge correction has anything to work on), a few with a gc column in the files instead."""
    style = rng.choice(["chr", ""])
    k = rng.randint(3, 6)
    fem = rng.random() < .5
    hapx = rng.random() < .5
    tiled = rng.random() < .5
    r3 = random.Random(rng.getrandbits(32))
    mixed = nth % 3 == 2             # one sample of the other sex, sexes inferred: needs >= 45 X bins, hence >= 540 bins
    tb = []
    nchrom = rng.randint(1, 3)
    for c in ["1", "2", "3"][: 3 if mixed else nchrom]:
        pos = rng.randint(0, 3000)
        for j in range(rng.randint(25, 60) if not mixed else rng.randint(190, 220)):
            sz = 200 if tiled else rng.randint(100, 400)
            tb.append([style + c, pos, pos + sz, "G%d" % (j // 4)])
            pos += sz + (2000 if tiled else rng.choice([0, 50, 700, 3000]))
    nx = max(1, len(tb) // 12) if not mixed else max(45, len(tb) // 12)
    pos = 500
    for j in range(nx):
        # (irregular designs: the X bins' sizes and gaps vary like the autosomal ones, so that their edge-bias keys
        # interleave with those of the autosomes)
        sz = 200 if tiled else r3.randint(100, 400)
        tb.append([style + "X", pos, pos + sz, "GX%d" % (j // 3)])
        pos += sz + (2000 if tiled else r3.choice([0, 50, 700, 3000]))
    g8 = lambda x: round(x * 8) / 8
    prof = [g8(rng.gauss(0, .5)) for _ in tb]
    scales = [g8(rng.gauss(0, 1.2)) for _ in range(k)]
    names = ["smp%02d_%d" % (rng.randint(0, 99), s) for s in range(k)]
    ab, prof_a = [], []
    if nth % 2 == 0:
        for c in sorted({r[0] for r in tb}, key=lambda c: (c[-1] == "X", c)):
            if c[-1] == "X":
                continue                   # (X stays <= 10% of the bins)
            pos = 400000
            for j in range(r3.randint(12, 25)):
                sz = r3.randint(5000, 9000)
                ab.append([c, pos, pos + sz, "Antitarget"])
                pos += sz + r3.choice([0, 1000])
        prof_a = [g8(r3.gauss(0, .3)) for _ in ab]
    u = [.2, .2, .9, .55, .2, .9][nth % 6] if nth < 6 else r3.random()   # genome / gc column in the files / neither
    return {"op": "reference_on", "tag": "corrections-on-" + ("tiled" if tiled else "irregular") + ("-mixed" if mixed else ""),
            "in": {"bins": tb, "profile_f": prof, "scales_f": scales, "names": names, "female": fem, "hapX": hapx, "k": k,
                   "mixed": mixed, "abins": ab, "profile_af": prof_a,
                   "fasta_seed": r3.getrandbits(30) if u < .5 else None,
                   "gc_col": .5 <= u < .65}}


def _cohort_corr(rng, j):
    """round 4: a general cohort (noise, sex mix, depth scales, given / inferred sexes, with / without antitargets)
    through do_reference with bias corrections ON, tied EXACTLY: the model composes C04's center_by_window into the
    reference (Model/ReferenceExt.lean).  Cells in turn: genome FASTA (gc for both blocks, rmask for the
    antitargets) twice / a gc column in the files / neither (only the edge correction has a key); the three do_*
    flags drawn (at least one correction effective); every 5th cohort has one sample with most target bins at
    null coverage (its corrections are skipped)."""
    r = random.Random(rng.getrandbits(32))
    while True:
        c = _cohort(r, ideal=False)
        i = c["in"]
        if not i["nodepth"] and i["k"] >= 2:
            break
    i["cluster"] = None
    i["api"] = {"tuple": False, "empty_list": False, "implicit": False, "shuffle_rows": None}
    cell = j % 4
    fasta = cell in (0, 1)
    i["gc_col"] = cell == 2 or (cell == 0 and r.random() < .3)    # (a FASTA takes precedence over a gc column)
    while True:
        flags = {"do_gc": r.random() < .75, "do_edge": r.random() < .75, "do_rmask": r.random() < .75}
        live = flags["do_edge"] or (flags["do_gc"] and (fasta or i["gc_col"])) or \
            (flags["do_rmask"] and fasta and i["with_anti"] and not i["empty_anti"])
        if live:
            break
    lowcov = j % 5 == 4
    if lowcov:
        rows = i["samples"][0]["t"]
        for q in r.sample(range(len(rows)), (len(rows) * 3) // 5):
            rows[q][4], rows[q][5] = -20.0, 0.0
    i["corr"] = dict(flags, fasta_seed=r.getrandbits(30) if fasta else None, lowcov=lowcov,
                     defaults=r.random() < .3)
    c["tag"] = "corr-" + ("fasta" if fasta else "gccol" if i["gc_col"] else "edgeonly") + ("-lowcov" if lowcov else "")
    if j % 3 == 1:
        # through `cnvkit.py reference`: the --no-* flags are what switches a correction off
        flags = [f for f, k in (("--no-gc", "do_gc"), ("--no-edge", "do_edge"), ("--no-rmask", "do_rmask")) if not flags_of(i)[k]]
        r.shuffle(flags)
        i["cli"] = True
        i["cli_opts"] = {"form": r.choice(["t_a", "a_t", "mixed", "dir"]), "opts_first": r.random() < .5,
                         "y": r.choice(["-y", "--male-reference", "--haploid-x-reference"]),
                         "x": r.choice(["-x", "--sample-sex", "-g", "--gender"]),
                         "sex_f": r.choice(["Female", "f", "x", "female"]), "sex_m": r.choice(["Male", "m", "y", "male"]),
                         "o": r.choice(["-o", "--output"]), "long_flat": False, "flags": flags, "fasta": False,
                         "fasta_seed": 0, "c": "-c"}
        c["tag"] = "cli-" + c["tag"]
    return c


def flags_of(i):
    return i["corr"]


def gen_cases(rng, tier):
    n = {"quick": 64, "thorough": 240, "search": 100}[tier]
    # every 8th cohort is malformed, the five kinds in turn
    cases = [_cohort(rng, ideal=(i % 4 == 0), want=MALFORMED[(i // 8) % 5] if i % 8 == 5 else None) for i in range(n)]
    cases += [_cohort_on(rng, j) for j in range(max(6, n // 6))]
    for _ in range(n // 3):
        seq = "".join(rng.choice("ACGTacgtNnRY") for _ in range(rng.randint(0, 60)))
        cases.append({"op": "gc_rmask", "tag": "gc", "in": {"seq": seq}})
    for _ in range(max(4, n // 10)):
        style = rng.choice(["chr", ""])
        cases.append({"op": "flat_reference", "tag": "flat",
                      "in": {"tb": _bins(rng, style, False), "ab": _bins(rng, style, True) if rng.random() < .5 else [],
                             "hapX": rng.random() < .5, "par": None}})
    # the gc / rmask COLUMNS: a flat reference (targets, +- antitargets) over a generated genome; every bin's values
    # against the bin's own sequence (get_fasta_stats / fasta_extract_regions: slicing, row alignment)
    for j in range(max(6, n // 8)):
        style = rng.choice(["chr", ""])
        tb = _bins(rng, style, False, rng.randint(3, 8))
        ab = [[c, s + 20000, e + 20000, g] for c, s, e, g in _bins(rng, style, True, rng.randint(2, 4))] if rng.random() < .5 else []
        cases.append({"op": "flat_fasta", "tag": "flat-fasta",
                      "in": {"tb": tb, "ab": ab, "hapX": rng.random() < .5, "fasta_seed": rng.getrandbits(30),
                             "width": rng.choice([50, 60, 100]), "pick": rng.random(), "cli": j % 3 == 1,
                             "y": rng.choice(["-y", "--male-reference", "--haploid-x-reference"]),
                             "f": rng.choice(["-f", "--fasta"])}})
    _mark_cli(cases, random.Random(rng.getrandbits(32)))
    # round 4 (own stream, drawn last: everything above stays as it was): corrections ON, exact tie
    r4 = random.Random(rng.getrandbits(32))
    cases += [_cohort_corr(r4, j) for j in range({"quick": 20, "thorough": 80, "search": 30}[tier])]
    # round 5 (own stream, drawn last): the cluster columns of `reference --cluster`, membership observed
    r5 = random.Random(rng.getrandbits(32))
    cases += _c05cluster.gen(r5, _cohort, {"quick": 10, "thorough": 24, "search": 12}[tier])
    # round 5: inferred sexes with header-only antitarget files (the per-sample override of do_reference)
    cases += _c05sexglue.gen(r5, _cohort, {"quick": 3, "thorough": 8, "search": 4}[tier])
    return cases


def _mark_cli(cases, r2):
    """send a share of the cases through `cnvkit.py reference` (own random stream, drawn after every other case
    field, so the cohorts themselves are the ones generated before the command-line tie existed):
    every 5th cohort, every other malformed cohort, every 3rd corrections-on cohort and every other flat reference."""
    seen = {}
    for c in cases:
        op = c["op"]
        key = "malformed" if any(m in c["tag"] for m in MALFORMED) else op
        n = seen[key] = seen.get(key, -1) + 1
        every, at = {"reference": (5, 2), "malformed": (2, 1), "reference_on": (3, 1), "flat_reference": (2, 1)}.get(key, (0, 0))
        if not every or n % every != at:
            continue
        i = c["in"]
        fasta = op == "reference" and r2.random() < .5
        # without a FASTA (and without a gc column in the .cnn files) the GC / RepeatMasker corrections have nothing
        # to work on, so leaving --no-gc / --no-rmask out must not change the result: the parser's defaults
        # (do_gc = do_rmask = True) reach do_reference in those cases
        flags = ["--no-edge"] + [f for f in ("--no-gc", "--no-rmask") if fasta or r2.random() < .5]
        if i.get("gc_col") and "--no-gc" not in flags:
            flags.append("--no-gc")     # files with a gc column: the GC correction has something to work on
        r2.shuffle(flags)
        i["cli"] = True
        if op == "flat_reference":
            i["hapX"] = (n // every) % 2 == 0   # few flat cases: alternate, so that -y and its absence both occur
        # the spellings of the sex cycle over the cases that give one (the capitalised ones need the .lower())
        sex = i.get("given") if op == "reference" else ("true" if i.get("female") else "false") if op == "reference_on" else None
        nth_sex = seen["sex" + str(sex)] = seen.get("sex" + str(sex), -1) + 1
        i["cli_opts"] = {
            "form": r2.choice(["t_a", "a_t", "mixed", "dir"]),
            "opts_first": r2.random() < .5,
            "y": r2.choice(["-y", "--male-reference", "--haploid-x-reference"]),
            "x": r2.choice(["-x", "--sample-sex", "-g", "--gender"]),
            "sex_f": ["Female", "f", "x", "female"][nth_sex % 4],
            "sex_m": ["Male", "m", "y", "male"][nth_sex % 4],
            "o": r2.choice(["-o", "--output"]),
            "long_flat": r2.random() < .5,
            "flags": flags if op == "reference" else [],   # corrections-on cohorts: no flag at all (defaults)
            "fasta": fasta, "fasta_seed": r2.getrandbits(30), "c": r2.choice(["-c", "--cluster"])}
        c["tag"] = "cli-" + c["tag"]


def corpus():
    # finding E: one-sample cohort -> the profile is pulled half-way to the flat pseudo-sample
    style = "chr"
    tb = [[style + c, 100 + 1000 * i, 400 + 1000 * i, "G%d" % i] for c in ("1", "2") for i in range(4)] + \
         [[style + "X", 100 + 1000 * i, 400 + 1000 * i, "GX"] for i in range(3)]
    prof = [0.5, -0.5, 0.25, -0.25, 0.5, -0.5, 0.25, -0.25, 0.0, 0.0, 0.0]
    rows = [[c, a, b, g, 6.0 + p, 50.0] for (c, a, b, g), p in zip(tb, prof)]
    return [{"op": "reference", "tag": "corpus-E",
             "in": {"samples": [{"name": "only_0", "female": True, "t": rows, "a": []}], "order": [0], "hapX": False,
                    "par": None, "with_anti": False, "empty_anti": False, "given": "true", "ideal": True, "k": 1,
                    "profile_t": [frac(x) for x in prof], "profile_a": []}}]


def classify_single_sample(case, impl, resp):
    """finding E: with one sample the biweight location of [pseudo-sample, sample] is their midpoint"""
    return case["in"].get("k") == 1


def _write(rows, path, nodepth=False, gc_col=False, shuffle=None):
    """a coverage file: chromosome, start, end, gene, log2, depth -- optionally without the depth column, with a gc
    column, its rows in a shuffled order (the reader sorts)"""
    from skgenome import tabio
    from cnvlib.cnary import CopyNumArray as CNA
    cols = ["chromosome", "start", "end", "gene", "log2", "depth"]
    rows = [tuple(r) for r in rows]
    if gc_col:
        cols = cols + ["gc"]
        rows = [r + (((r[1] * 7 + r[2] * 3) % 41 + 20) / 80,) for r in rows]
    if nodepth:
        cols = cols[:5] + cols[6:]
        rows = [r[:5] + r[6:] for r in rows]
    if shuffle is not None:
        random.Random(shuffle).shuffle(rows)
    arr = CNA.from_rows(rows, columns=cols)
    tabio.write(arr, path)


def _reread(path):
    from cnvlib.cmdutil import read_cna
    d = read_cna(path).data
    # without a depth column the depth is 2^log2 of the file's log2 (generated as integers then: exact)
    return [[str(r.chromosome), int(r.start), int(r.end), str(r.gene), frac(float(r.log2)),
             frac(float(r.depth) if "depth" in d.columns else 2.0 ** float(r.log2))]
            for r in d.itertuples()]


def _cli_run(argv, out):
    """`cnvkit.py <argv>` in-process (what the script does: parse_args, then args.func).  Returns the table the
    command hands to the writer (the file carries 6 significant digits: C08's subject) after checking that it was
    written exactly once, to the requested output, and that the file reads back equal to it within 1e-5 relative."""
    import logging
    from cnvlib import commands
    from cnvlib.cmdutil import read_cna
    from skgenome import tabio
    captured = []

    class _Tab:
        def __getattr__(self, name):
            return getattr(tabio, name)

        def write(self, garr, outfname=None, *a, **k):
            captured.append((garr, outfname))
            return tabio.write(garr, outfname, *a, **k)
    saved = commands.tabio
    commands.tabio = _Tab()
    logging.disable(logging.CRITICAL)
    try:
        args = commands.parse_args(argv)
        args.func(args)
    finally:
        logging.disable(logging.NOTSET)
        commands.tabio = saved
    if len(captured) != 1 or captured[0][1] != out or not os.path.exists(out):
        raise AssertionError("cnvkit.py reference did not write exactly one table to the requested output")
    ref = captured[0][0]
    back = read_cna(out)

    def same(x, y):
        x, y = float(x), float(y)
        return (x != x and y != y) or x == y or abs(x - y) <= 1e-5 * max(abs(x), abs(y))
    cols = [c for c in ("log2", "depth", "spread") if c in ref]
    if len(back) != len(ref) or any(c not in back for c in cols) or any(
            (str(a.chromosome), int(a.start), int(a.end), str(a.gene)) != (str(b.chromosome), int(b.start), int(b.end), str(b.gene))
            or not all(same(getattr(a, c), getattr(b, c)) for c in cols)
            for a, b in zip(back.data.itertuples(), ref.data.itertuples())):
        raise AssertionError("the written reference does not read back as the table the command computed")
    return ref


def _write_fasta(path, need, seed, width=100):
    """a genome covering `need` = {chromosome: length}: 100-base pieces drawn from a palette of pieces with different
    G+C / lowercase / N content, the palette entries in use changing every 4 kb (so that both 200-base target bins
    and 7-kb antitarget bins differ in gc and rmask), written in lines of `width` bases.  Returns {chromosome:
    sequence}."""
    r = random.Random(seed)
    palette = []
    for _ in range(10):
        pg, pl = r.choice([.15, .3, .5, .7, .85]), r.choice([0, 0, .3, .7, 1])
        ln = "".join(r.choice("GC" if r.random() < pg else "AT") for _ in range(100))
        ln = "".join(ch.lower() if r.random() < pl else ch for ch in ln)
        palette.append(ln if r.random() < .9 else ln[:60] + "N" * 40)
    seqs = {}
    with open(path, "w") as fh:
        for chrom, length in need.items():
            fh.write(">%s\n" % chrom)
            lines = []
            for _ in range(length // 4000 + 1):
                two = r.sample(palette, 2)
                lines.extend(r.choice(two) for _ in range(40))
            seq = "".join(lines)
            seqs[chrom] = seq
            if width == 100:
                fh.write("\n".join(lines) + "\n")
            else:
                fh.write("\n".join(seq[j:j + width] for j in range(0, len(seq), width)) + "\n")
    return seqs


def _gc_lo(seq):
    """the property's definition, counted independently of calculate_gc_lo: G+C over the unambiguous bases, and the
    lowercase unambiguous bases over the same total; (0, 0) without any"""
    tot = sum(ch in "ACGTacgt" for ch in seq)
    if not tot:
        return 0.0, 0.0
    return sum(ch in "GCgc" for ch in seq) / tot, sum(ch in "acgt" for ch in seq) / tot


def _fasta_columns(ref, seqs, want_gc, want_rm_of):
    """compare a reference's gc / rmask columns with the bins' own sequences.  Returns (number of bins whose value
    is wrong or missing, index of the first such bin or None)."""
    bad, first = 0, None
    d = ref.data
    for k, r in enumerate(d.itertuples()):
        g, m = _gc_lo(seqs[str(r.chromosome)][int(r.start):int(r.end)])
        ok = True
        if want_gc:
            ok = ok and "gc" in d.columns and abs(float(r.gc) - g) <= 1e-9
        if want_rm_of(str(r.gene)):
            ok = ok and "rmask" in d.columns and abs(float(r.rmask) - m) <= 1e-9
        if not ok:
            bad += 1
            first = k if first is None else first
    return bad, first


def _reference_cli(o, tfiles, afiles, indir, out, hapx, given, fasta=None, par=None, cluster=None):
    """`cnvkit.py reference <target and antitarget .cnn files in one list | their directory> -o out [...]`"""
    if o["form"] == "dir":
        pos = [indir]
    elif o["form"] == "a_t":
        pos = afiles + tfiles
    elif o["form"] == "mixed":
        pos = [f for k in range(len(tfiles)) for f in ((tfiles[k:k + 1] + afiles[k:k + 1]) if k % 2 else (afiles[k:k + 1] + tfiles[k:k + 1]))]
    else:
        pos = tfiles + afiles
    opts = [o["o"], out] + list(o["flags"])
    if hapx:
        opts += [o["y"]]
    if given is not None:
        opts += [o["x"], o["sex_f"] if given else o["sex_m"]]
    if fasta:
        opts += ["-f", fasta]
    if par:
        opts += ["--diploid-parx-genome", par]
    if cluster:
        opts += [o.get("c", "-c"), "--min-cluster-size", str(cluster)]
    return _cli_run(["reference"] + (opts + pos if o["opts_first"] else pos + opts), out)


def _need(rows, pad=200):
    need = {}
    for r in rows:
        need[r[0]] = max(need.get(r[0], 0), r[2] + pad)
    return need


def run_impl(case):
    import numpy as np
    from cnvlib import reference
    from skgenome import tabio, GenomicArray as GA
    i = case["in"]
    op = case["op"]
    if op == "gc_rmask":
        g, m = reference.calculate_gc_lo(i["seq"])
        return [frac(float(g)), frac(float(m))]
    cli = i.get("cli_opts") if i.get("cli") else None
    if cli or i.get("cli"):
        d = tempfile.mkdtemp(dir="/var/tmp", prefix="c05cli")
    else:
        os.makedirs("/var/tmp/verif-c05", exist_ok=True)
        d = tempfile.mkdtemp(dir="/var/tmp/verif-c05")
    try:
        if op == "reference_on":
            abins = i.get("abins") or []
            fa, seqs = None, None
            if i.get("fasta_seed") is not None:
                os.makedirs(os.path.join(d, "genome"))
                fa = os.path.join(d, "genome", "genome.fa")
                seqs = _write_fasta(fa, _need(i["bins"] + abins), i["fasta_seed"])
            # every other sample is of the other sex in a mixed cohort (sexes then left to be inferred); a single
            # deviating sample would be invisible: with most values equal the MAD is 0 and the estimators ignore it
            fem_of = [i["female"] != (bool(i.get("mixed")) and s % 2 == 0) for s in range(i["k"])]
            given = None if i.get("mixed") else i["female"]
            inferred_ok = True

            def build(scales, sub):
                nonlocal inferred_ok
                os.makedirs(os.path.join(d, sub))
                files, afiles = [], []
                for name, sc, fem in zip(i["names"], scales, fem_of):
                    def rows_of(bins, prof):
                        rows = []
                        for (c, a, b, g), pr in zip(bins, prof):
                            lg = 6 + sc + pr - (1 if (c.replace("chr", "") == "X" and not fem) else 0)
                            rows.append([c, a, b, g, lg, 2.0 ** lg])
                        return rows
                    pth = os.path.join(d, sub, name + ".targetcoverage.cnn")
                    _write(rows_of(i["bins"], i["profile_f"]), pth, gc_col=bool(i.get("gc_col")))
                    files.append(pth)
                    if abins:
                        pth = os.path.join(d, sub, name + ".antitargetcoverage.cnn")
                        _write(rows_of(abins, i["profile_af"]), pth, gc_col=bool(i.get("gc_col")))
                        afiles.append(pth)
                if given is None:
                    got = reference.infer_sexes(files, False, None)
                    inferred_ok = inferred_ok and all(bool(got.get(n)) == f for n, f in zip(i["names"], fem_of))
                if cli:
                    # no --no-* flag: the parser's defaults (all corrections on) are what reaches do_reference
                    ref = _reference_cli(cli, files, afiles, os.path.join(d, sub), os.path.join(d, "out_" + sub, "ref.cnn"),
                                         i["hapX"], given, fa)
                else:
                    ref = reference.do_reference(files, afiles or None, fa, i["hapX"], None, given)
                return ref
            ref1 = build(i["scales_f"], "scaled")
            r1 = ref1.data
            r0 = build([0.0] * i["k"], "same").data
            out = {"n": int(len(r1)), "n_bins": len(i["bins"]) + len(abins),
                   "max_spread": float(np.nanmax(np.abs(r1["spread"].values))),
                   "max_diff": float(np.nanmax(np.abs(r1["log2"].values - r0["log2"].values))) if len(r1) == len(r0) else float("inf"),
                   "inferred_ok": bool(inferred_ok)}
            if seqs is not None:
                # gc of every bin, rmask of the antitarget bins (do_rmask is for the antitargets only)
                out["fasta_bad"] = _fasta_columns(ref1, seqs, True, lambda g: g == "Antitarget")[0]
            return out
        if op in ("flat_reference", "flat_fasta"):
            tp = os.path.join(d, "t.bed")
            tabio.write(GA.from_rows([tuple(r) for r in i["tb"]], columns=["chromosome", "start", "end", "gene"]), tp, "bed4")
            ap = None
            if i["ab"]:
                ap = os.path.join(d, "a.bed")
                tabio.write(GA.from_rows([tuple(r) for r in i["ab"]], columns=["chromosome", "start", "end", "gene"]), ap, "bed4")
            if op == "flat_fasta":
                os.makedirs(os.path.join(d, "genome"))
                fa = os.path.join(d, "genome", "genome.fa")
                seqs = _write_fasta(fa, _need(i["tb"] + i["ab"], 0), i["fasta_seed"], i["width"])
                if i.get("cli"):
                    out = os.path.join(d, "out", "flat.cnn")
                    argv = ["reference", "-t", tp] + (["-a", ap] if ap else []) + ([i["y"]] if i["hapX"] else [])
                    ref = _cli_run(argv + [i["f"], fa, "-o", out], out)
                else:
                    ref = reference.do_reference_flat(tp, ap, fa, i["hapX"])
                plain = reference.do_reference_flat(tp, ap, None, i["hapX"])
                bad, first = _fasta_columns(ref, seqs, True, lambda g: True)
                # one bin goes to the model: the first one that looks wrong, else a drawn one
                j = first if first is not None else min(len(ref) - 1, int(i["pick"] * len(ref)))
                r = ref.data.iloc[j]
                same = (len(ref) == len(plain) == len(i["tb"]) + len(i["ab"]) and
                        all(a == b for c in ("chromosome", "start", "end", "gene", "log2")
                            for a, b in zip(ref.data[c].values, plain.data[c].values)))
                val = lambda c: frac(float(r[c])) if c in ref.data.columns and float(r[c]) == float(r[c]) else "nan"
                return {"gc": val("gc"), "rm": val("rmask"),
                        "seq": seqs[str(r["chromosome"])][int(r["start"]):int(r["end"])], "bad": bad, "same": bool(same)}
            if cli:
                # (the command has no way to pass par to the flat reference; the generated par is None)
                out = os.path.join(d, "out", "flat.cnn")
                argv = ["reference", "--targets" if cli["long_flat"] else "-t", tp]
                argv += ["--antitargets" if cli["long_flat"] else "-a", ap] if ap else []
                argv += [cli["y"]] if i["hapX"] else []
                ref = _cli_run(argv + [cli["o"], out], out)
            else:
                ref = reference.do_reference_flat(tp, ap, None, i["hapX"], i["par"])
            return [[str(r.chromosome), int(r.start), int(r.end), frac(float(r.log2))] for r in ref.data.itertuples()]
        api = i.get("api") or {}
        wopt = {"nodepth": bool(i.get("nodepth")), "gc_col": bool(i.get("gc_col"))}
        tf, af, reread_t, reread_a = [], [], {}, {}
        for n, s in enumerate(i["samples"]):
            sh = None if api.get("shuffle_rows") is None else api["shuffle_rows"] + n
            p1 = os.path.join(d, s["name"] + ".targetcoverage.cnn")
            _write(s["t"], p1, shuffle=sh, **wopt)
            tf.append(p1)
            reread_t[s["name"]] = _reread(p1)
            if i["with_anti"] and s["name"] != i.get("drop_anti"):
                p2 = os.path.join(d, s["name"] + ".antitargetcoverage.cnn")
                _write([] if i["empty_anti"] else s["a"], p2, shuffle=sh, **wopt)
                af.append(p2)
                reread_a[s["name"]] = [] if i["empty_anti"] else _reread(p2)
            else:
                af.append(None)
        tfo = [tf[j] for j in i["order"]]
        afo = [af[j] for j in (i["order"] if cli else i.get("order_a") or i["order"]) if af[j]] if i["with_anti"] else None
        given = None if i["given"] is None else (i["given"] == "true")
        # what guess_xx answers for each file (C15's subject; a parameter of the model) -- which sex do_reference
        # then takes each sample to have is decided by the model (resolveSexes)
        from cnvlib.cmdutil import read_cna as _rc
        from cnvlib import core as _core

        def answers(files):
            out = []
            for f in files or []:
                arr = _rc(f)
                ans = arr.guess_xx(False, i["par"]) if len(arr) else None
                out.append([_core.fbase(f), None if ans is None else bool(ans)])
            return out
        sex_inputs = {"given": given, "target_ids": [_core.fbase(f) for f in tfo],
                      "t_inf": answers(tfo) if given is None else [], "a_inf": answers(afo) if given is None else []}
        corr = i.get("corr")
        corr_out = None
        fa_corr = None
        if corr:
            from cnvlib import fix as _fix, smoothing as _sm, params as _params
            seqs = None
            if corr["fasta_seed"] is not None:
                os.makedirs(os.path.join(d, "genome"))
                fa_corr = os.path.join(d, "genome", "genome.fa")
                seqs = _write_fasta(fa_corr, _need(i["samples"][0]["t"] + (i["samples"][0]["a"] if i["with_anti"] else [])),
                                    corr["fasta_seed"])

            def keys_of(files):
                """key columns of the first file (in sample-name order) of a block, and numpy's parameters"""
                if not files:
                    return None
                arr = _rc(sorted(files, key=_core.fbase)[0])
                n = len(arr)
                if n == 0:
                    return {"fasta_gc": None, "fasta_rm": None, "file_gc": None, "edge": [], "perm": [], "wing": 1}
                np.random.seed(0xA5EED)
                perm = [int(x) for x in np.random.permutation(np.arange(n))]
                wing = int(_sm._width2wing(0.1, np.zeros(n))) if n >= 2 else 1
                coords = [(str(r.chromosome), int(r.start), int(r.end)) for r in arr.data.itertuples()]
                gl = [_gc_lo(seqs[c][a:b]) for c, a, b in coords] if seqs is not None else None
                return {"fasta_gc": [frac(float(g)) for g, _ in gl] if gl else None,
                        "fasta_rm": [frac(float(m)) for _, m in gl] if gl else None,
                        "file_gc": [frac(float(x)) for x in arr["gc"].values] if "gc" in arr else None,
                        "edge": [frac(float(x)) for x in _fix.get_edge_bias(arr, _params.INSERT_SIZE).values],
                        "perm": perm, "wing": wing}
            corr_out = {"do_gc": corr["do_gc"], "do_edge": corr["do_edge"], "do_rmask": corr["do_rmask"],
                        "t": keys_of(tfo), "a": keys_of(afo)}
        import contextlib
        import io
        quiet = contextlib.redirect_stdout(io.StringIO()) if i.get("cluster") else contextlib.nullcontext()   # (k-means prints)
        spy = None
        if op == "ref_cluster":
            spy = _c05cluster.KmeansSpy()
            quiet = spy.wrap(quiet)
        sexspy = _c05sexglue.SexesSpy()
        quiet = sexspy.wrap(quiet)
        if cli:
            fa = fa_corr
            if cli["fasta"] and not corr:
                # with a genome the GC / RepeatMasker corrections have something to work on: --no-gc / --no-rmask
                # (always given in these cases) are then what keeps the result equal to the corrections-off model
                need = {}
                for s in i["samples"][:1]:
                    need = _need(s["t"] + s["a"])
                os.makedirs(os.path.join(d, "genome"))
                fa = os.path.join(d, "genome", "genome.fa")
                _write_fasta(fa, need, cli["fasta_seed"])
            with quiet:
                ref = _reference_cli(cli, tfo, afo or [], d, os.path.join(d, "out", "reference.cnn"), i["hapX"], given, fa,
                                     i["par"], i.get("cluster"))
        else:
            if api.get("tuple"):
                tfo, afo = tuple(tfo), (tuple(afo) if afo is not None else None)
            if afo is None and api.get("empty_list"):
                afo = []
            kw = {"do_gc": False, "do_edge": False, "do_rmask": False}
            if corr:
                kw = {k: corr[k] for k in ("do_gc", "do_edge", "do_rmask")}
                if corr.get("defaults"):
                    kw = {k: v for k, v in kw.items() if not v}    # flags that are on are do_reference's defaults
            if i.get("cluster"):
                kw.update(do_cluster=True, min_cluster_size=i["cluster"])
            if api.get("implicit"):
                # arguments at their defaults are left out
                if i["par"] is not None:
                    kw["diploid_parx_genome"] = i["par"]
                if given is not None:
                    kw["female_samples"] = given
                if i["hapX"]:
                    kw["is_haploid_x_reference"] = True
                with quiet:
                    ref = reference.do_reference(tfo, afo, **kw) if afo is not None else reference.do_reference(tfo, **kw)
            else:
                with quiet:
                    ref = reference.do_reference(tfo, afo, fa_corr, i["hapX"], i["par"], given, **kw)
        rows = [[str(r.chromosome), int(r.start), int(r.end), str(r.gene), frac(float(r.log2)), frac(float(r.depth)),
                 frac(float(r.spread))] for r in ref.data.itertuples()]
        out = {"rows": rows, "sexes": [], "sex_inputs": sex_inputs, "t": reread_t, "a": reread_a}
        if corr_out:
            out["corr"] = corr_out
        if i.get("cluster"):
            # the per-cluster columns: present, one value per bin; for samples that differ only in depth and sex every
            # cluster reproduces the common profile with spread 0 as well
            cl = [c for c in ref.data.columns if c.startswith("log2_") or c.startswith("spread_")]
            dev = 0.0
            for c in cl:
                base = ref.data["log2"].values if c.startswith("log2_") else 0.0
                dev = max(dev, float(np.max(np.abs(ref.data[c].values - base))) if not ref.data[c].isna().any() else float("inf"))
            out["cluster"] = {"cols": cl, "dev": dev}
        if spy is not None:
            out["cluster_full"] = _c05cluster.collect(ref, spy)
        if sexspy.result() is not None:
            out["sexes_real"] = sexspy.result()
        return out
    finally:
        shutil.rmtree(d, ignore_errors=True)


def _par(i):
    """the genome build as parx_filter takes it (lower-cased)"""
    return i["par"].lower() if i.get("par") else None


def to_line(case, impl):
    i = case["in"]
    op = case["op"]
    err = isinstance(impl, dict) and "__error__" in impl
    if op == "ref_cluster":
        return _c05cluster.to_line(case, impl, _par(i))
    if op == "gc_rmask":
        return {"op": op, "in": {"seq": i["seq"]}}
    if op == "reference_on":
        return {"op": "gc_rmask", "in": {"seq": ""}}  # no model for the corrections-on run: semantic clauses only
    if op == "flat_fasta":
        # the model computes gc / rmask of the sequence of ONE bin (run_impl sends the first bin that looks wrong)
        return {"op": "gc_rmask", "in": {"seq": "" if err else impl["seq"]}}
    if op == "flat_reference":
        bins = [[r[0], r[1], r[2], r[3], "0", "1"] for r in i["tb"] + i["ab"]]
        return {"op": op, "in": {"bins": bins, "hapX": i["hapX"], "par": i["par"]}}
    if err:
        # the model is driven with the generated values (the files could not be summarised)
        enc = lambda rows: [[r[0], r[1], r[2], r[3], frac(r[4]), frac(r[5])] for r in rows]
        tg = [{"name": s["name"], "rows": enc(s["t"])} for s in i["samples"]]
        line = {"op": op, "in": {"hapX": i["hapX"], "par": _par(i), "targets": tg, "sexes": [], "ideal": False}}
        if i["with_anti"]:
            line["in"]["antitargets"] = [{"name": s["name"], "rows": [] if i["empty_anti"] else enc(s["a"])}
                                         for s in i["samples"] if s["name"] != i.get("drop_anti")]
        return line
    tg = [{"name": n, "rows": rows} for n, rows in impl["t"].items()]
    line = {"op": op, "in": {"hapX": i["hapX"], "par": _par(i), "targets": tg, "sexes": impl["sexes"],
                             "ideal": bool(i["ideal"]), "profile_t": i.get("profile_t", []),
                             "profile_a": [] if i["empty_anti"] else i.get("profile_a", [])}, "impl": impl["rows"]}
    if i["with_anti"]:
        line["in"]["antitargets"] = [{"name": n, "rows": rows} for n, rows in impl["a"].items()]
    if impl.get("sex_inputs"):
        line["in"]["sex_inputs"] = impl["sex_inputs"]
    if impl.get("corr"):
        line["in"]["corr"] = impl["corr"]
    return line


def _close(a, b, tol=1e-7):
    a, b = float(Fraction(a)), float(Fraction(b))
    return abs(a - b) <= tol * max(1.0, abs(b))


def judge(case, impl, resp):
    op = case["op"]
    if op == "ref_cluster":
        return _c05cluster.judge(case, impl, resp)
    if "error" in resp:
        return [], ["model error: " + resp["error"]], None
    out = resp["out"]
    if op == "reference":
        model_err = isinstance(out, dict) and "error_kind" in out
        if isinstance(impl, dict) and "__error__" in impl:
            if model_err and impl["__error__"] in ("RuntimeError", "ValueError"):
                return [], [], None  # files whose bins differ are rejected
            return ["raises_" + impl["__error__"]], [], None
        if model_err:
            return ["reject_differing_bins"], [], None
        spec = list(resp.get("spec") or [])
        spec += _c05sexglue.clause(impl, resp)
        rows = impl["rows"]
        dis = []
        cl = impl.get("cluster")
        if cl is not None:
            i = case["in"]
            # up to 5 samples make one k-means cluster (k = round(log3 n) = 1): its columns must be there unless
            # the cluster is below the minimum size
            if i["k"] <= 5 and i["cluster"] <= i["k"] and not cl["cols"]:
                spec.append("cluster_columns_present")
            if len(cl["cols"]) % 2:
                spec.append("cluster_columns_paired")
            if i["ideal"] and i["k"] >= 2 and not cl["dev"] <= 1e-6:
                spec.append("depth_only_normals_reproduced_in_every_cluster")
        knife = None
        if case["in"].get("corr") and Fraction(resp.get("edge_dev", "0")) > Fraction(1, 10 ** 9):
            dis.append("edge-bias keys of get_edge_bias deviate from the exact formula by " + str(float(Fraction(resp["edge_dev"]))))
        # With corrections off the property's first sentence DETERMINES the table (bins, log2 = biweight location and
        # spread = biweight midvariance of the centred, sex-shifted samples + pseudo-sample, with the sexes as given or
        # as the real code inferred them), and the model is that sentence (theorem
        # reference_values_are_biweight_of_columns).  A real output that differs is therefore a concrete failing input
        # of the property, not only a broken correspondence: it is reported under the clause it contradicts.
        if len(out) != len(rows):
            dis.append(f"row count model {len(out)} impl {len(rows)}")
            spec.append("reference_has_exactly_the_bins")
        else:
            for k, (m, r) in enumerate(zip(out, rows)):
                if m[:4] != r[:4]:
                    dis.append(f"row {k}: model {m[:4]} impl {r[:4]}")
                    spec.append("reference_has_exactly_the_bins")
                    break
                if not _close(r[4], m[4]) or not _close(r[5], m[5], 1e-6):
                    dis.append(f"row {k}: log2/depth model {float(Fraction(m[4]))},{float(Fraction(m[5]))} impl {float(Fraction(r[4]))},{float(Fraction(r[5]))}")
                    if not _close(r[4], m[4]):
                        spec.append("log2_is_biweight_location_of_centred_shifted_samples")
                    break
                kind = m[6][0]
                sp = float(Fraction(r[6]))
                if kind == "direct":
                    ok = _close(r[6], m[6][1], 1e-6)
                    if not ok and Fraction(m[6][1]) != 0:
                        # the midvariance falls back to the MAD when the scaled deviations sum to EXACTLY zero
                        # (symmetric data); the float sum of symmetric terms need not be exactly zero: knife-edge
                        knife = "biweight midvariance MAD fallback on exactly symmetric data"
                        ok = True
                elif kind == "root":
                    ok = abs(sp * sp - float(Fraction(m[6][1]))) <= 1e-6 * max(1.0, sp * sp)
                else:
                    ok = math.isnan(sp) or math.isinf(sp)
                if not ok:
                    dis.append(f"row {k}: spread model {m[6]} impl {sp}")
                    spec.append("spread_is_biweight_midvariance_of_centred_shifted_samples")
                    break
        return spec, dis, (knife if not dis and not spec else None)
    if isinstance(impl, dict) and "__error__" in impl:
        return ["raises_" + impl["__error__"]], [], None
    dis = []
    if op == "reference_on":
        spec = []
        if not impl.get("inferred_ok", True):
            return [], [], None     # the real guess_xx did not see the intended sexes (C15): nothing follows
        if impl.get("fasta_bad"):
            spec.append("gc_rmask_columns_follow_bin_sequences_corrections_on")
        if impl["n"] != impl["n_bins"]:
            spec.append("exact_bins_corrections_on")
        if not impl["max_spread"] <= 1e-6:
            spec.append("depth_only_normals_spread_zero_corrections_on")
        if not impl["max_diff"] <= 1e-6:
            spec.append("depth_only_normals_same_profile_corrections_on")
        return spec, [], None
    if op == "gc_rmask":
        if not (_close(impl[0], out[0]) and _close(impl[1], out[1])):
            dis.append(f"gc/rmask model {out} impl {impl}")
        return [], dis, None
    if op == "flat_fasta":
        spec = []
        if impl["bad"]:
            spec.append("gc_rmask_columns_follow_bin_sequences")
        if not impl["same"]:
            spec.append("flat_reference_unchanged_by_fasta")
        if impl["gc"] == "nan" or impl["rm"] == "nan" or not (_close(impl["gc"], out[0]) and _close(impl["rm"], out[1])):
            dis.append(f"gc/rmask of one bin: model {out} impl {impl['gc']}, {impl['rm']}")
        return spec, dis, None
    if op == "flat_reference":
        got = [[r[0], r[1], r[2], str(Fraction(r[3]))] for r in impl]
        want = [[r[0], r[1], r[2], str(Fraction(r[3]))] for r in out]
        if got != want:
            dis.append("flat reference differs")
        return [], dis, None
    return [], [], None


def nontrivial(case, impl, resp):
    i = case["in"]
    if case["op"] == "ref_cluster":
        return _c05cluster.nontrivial(case, impl, resp)
    if case["op"] == "reference_on" and isinstance(impl, dict) and not impl.get("inferred_ok", True):
        return False
    if case["op"] == "reference" and i.get("corr"):
        return bool(resp.get("corr_effect"))      # the corrections changed some value of the reference
    return case["op"] not in ("reference",) or i["k"] >= 2
