"""C05 -- the pooled reference is the robust per-bin consensus in the chosen reference sex."""
from __future__ import annotations

import math
import os
import random
import shutil
import tempfile
from fractions import Fraction

from ..core import frac

LEVEL = "proof"
RULE = ("cohorts of 1..8 coverage-file pairs written to a temp dir (sex mix, per-sample depth scale, noise or none, chr / "
        "plain naming, with / without antitarget files incl. empty ones, male / female reference, sexes given or "
        "inferred by the real guess_xx) through do_reference with the bias corrections off (exact oracle = the Lean "
        "model incl. Tukey's biweight location / midvariance); malformed cohorts (a file whose bins differ); "
        "do_reference_flat; calculate_gc_lo on random sequences; same-sex cohorts of 3..6 normals differing only in depth "
        "through do_reference with the corrections ON (tiled or irregular designs, non-flat profile, <= 10% X bins; "
        "semantic clauses only: spread ~ 0 and the same profile as at equal depth). about 15% of the cases (every 5th "
        "cohort, every other malformed cohort, every 3rd corrections-on cohort, every other flat reference; tag cli-*) "
        "go through the command line instead, `cnvkit.py reference` run in-process (parse_args + _cmd_reference + the "
        "writer): target and antitarget .cnn files in one list (targets first / antitargets first / interleaved) or "
        "as their directory, -o, -y / --male-reference / --haploid-x-reference or absent, -x / -g / --sample-sex / "
        "--gender with every spelling of male / female or absent (sexes inferred), --no-edge always and --no-gc "
        "--no-rmask given or (without a genome, where they cannot matter) left to the parser's defaults, half of "
        "them with -f <generated FASTA with varied G+C / lowercase content> so that --no-gc / --no-rmask are what "
        "keeps the corrections off; the corrections-on cohorts with no --no-* flag; the flat reference as "
        "`reference -t targets.bed [-a antitargets.bed] [-y] -o out`; the table handed to the writer is judged "
        "and the written file must read back equal to it within 1e-5 relative. non-trivial = >= 2 samples or a "
        "sex chromosome present; distinct by hash")
EXHAUSTIVE = {"quick": False, "thorough": False}
ASSUMPTIONS = ["corrections off for the exact tie (with corrections on the rolling-median steps are C04's subject)",
               "sample sexes are a parameter of the model: given, or inferred by the real guess_xx (C15)",
               "values are taken as re-read from the written .cnn files (%.6g), so file I/O rounding is outside"]
TRUSTED_EXTRA = ["tabio read/write of .cnn files (C08)", "numpy apply_along_axis / vstack / hstack plumbing"]


def _bins(rng, style, anti, nx=45):
    out = []
    chroms = [style + c for c in ["1", "2", "3"][: rng.randint(1, 3)]] + [style + "X"] + ([style + "Y"] if rng.random() < .7 else [])
    for c in chroms:
        pos = 0
        n = rng.randint(4, 9) if c[-1] not in "XY" else (nx if c[-1] == "X" else rng.randint(3, 6))
        for i in range(n):
            sz = rng.randint(100, 300) if not anti else rng.randint(5000, 9000)
            pos += rng.randint(0, 500)
            out.append([c, pos, pos + sz, "Antitarget" if anti else "G%d" % (i // 3)])
            pos += sz
    return out


def _cohort(rng, ideal=False):
    style = rng.choice(["chr", ""])
    k = rng.randint(3, 6) if ideal else rng.randint(1, 8)
    hapx = rng.random() < .5
    with_anti = rng.random() < .6
    given = rng.choice([None, "true", "false"])
    if ideal and rng.random() < 0.6:
        given = None  # mixed-sex cohort with inferred sexes: the case where the sex shift of one sample could leak into another
    one_sex = rng.random() < .5
    # sex inference needs >= 40 X bins (C15); with given sexes small tables do
    nx = rng.randint(45, 50) if given is None else rng.randint(3, 8)
    tb = _bins(rng, style, False, nx)
    ab = [[c, s + 100000, e + 100000, g] for c, s, e, g in _bins(rng, style, True, nx)] if with_anti else []
    # values on a 1/8 grid: exactly representable, printed exactly by %.6g, and small as rationals
    # (the exact biweight iterations square denominators; full 53-bit inputs make the model very slow)
    g8 = lambda x: round(x * 8) / 8
    # ideal cohorts: a flat common profile, so that the expected levels are exactly 0 / -1 (a male sample's Y
    # follows the profile while a female sample's Y is set to -1: only a flat profile makes them agree)
    prof_t = [0.0 if ideal else g8(rng.gauss(0, .4)) for _ in tb]
    prof_a = [0.0 if ideal else g8(rng.gauss(0, .4)) for _ in ab]
    samples = []
    for s in range(k):
        fem = rng.random() < .5
        if ideal and given is None:
            fem = (s != 0)  # one male among females; file names (random prefix) decide the processing order
        if ideal and given is not None:
            fem = (given == "true")   # do_reference takes ONE sex for all samples when it is given
        scale = g8(rng.gauss(0, 1))
        sd = 0.0 if ideal else rng.choice([0.0, 0.125, 0.25])

        def mk(bins, prof):
            rows = []
            for (c, a, b, g), p in zip(bins, prof):
                lg = 6 + scale + p + (g8(rng.gauss(0, sd)) if sd else 0.0)
                cc = c.replace("chr", "")
                if cc == "X" and not fem:
                    lg -= 1
                if cc == "Y":
                    lg = lg - 1 if not fem else lg - 7
                if not ideal and rng.random() < 0.02:
                    rows.append([c, a, b, g, -20.0, 0.0])
                else:
                    rows.append([c, a, b, g, lg, float(rng.randint(2, 400)) / 2])
            return rows
        samples.append({"name": "smp%02d_%d" % (rng.randint(0, 99), s), "female": fem,
                        "t": mk(tb, prof_t), "a": mk(ab, prof_a)})
    order = list(range(k))
    rng.shuffle(order)
    empty_anti = with_anti and rng.random() < 0.15
    malformed = None
    if not ideal and k >= 2 and rng.random() < 0.08:
        malformed = "bins_differ"
        r = samples[-1]["t"][0]
        samples[-1]["t"][0] = [r[0], r[1] + 1] + r[2:]
    return {"op": "reference", "tag": ("ideal" if ideal else "cohort") + ("-" + malformed if malformed else ""),
            "in": {"samples": samples, "order": order, "hapX": hapx, "par": None, "with_anti": with_anti,
                   "empty_anti": empty_anti, "given": given, "ideal": ideal, "k": k,
                   "profile_t": [frac(x) for x in prof_t], "profile_a": [frac(x) for x in prof_a]}}


def _cohort_on(rng):
    """same-sex normals that differ only in sequencing depth, bias corrections ON (semantic clauses only: the
    rolling-median corrections are C04's subject).  Half the cohorts use a tiled design (equal bin sizes and gaps,
    hence tied edge-bias keys); the common profile is not flat; sex chromosomes are at most 10% of the bins."""
    style = rng.choice(["chr", ""])
    k = rng.randint(3, 6)
    fem = rng.random() < .5
    hapx = rng.random() < .5
    tiled = rng.random() < .5
    tb = []
    for c in ["1", "2", "3"][: rng.randint(1, 3)]:
        pos = rng.randint(0, 3000)
        for j in range(rng.randint(25, 60)):
            sz = 200 if tiled else rng.randint(100, 400)
            tb.append([style + c, pos, pos + sz, "G%d" % (j // 4)])
            pos += sz + (2000 if tiled else rng.choice([0, 50, 700, 3000]))
    nx = max(1, len(tb) // 12)
    pos = 500
    for j in range(nx):
        tb.append([style + "X", pos, pos + 200, "GX%d" % (j // 3)])
        pos += 2200
    g8 = lambda x: round(x * 8) / 8
    prof = [g8(rng.gauss(0, .5)) for _ in tb]
    scales = [g8(rng.gauss(0, 1.2)) for _ in range(k)]
    names = ["smp%02d_%d" % (rng.randint(0, 99), s) for s in range(k)]
    return {"op": "reference_on", "tag": "corrections-on-" + ("tiled" if tiled else "irregular"),
            "in": {"bins": tb, "profile_f": prof, "scales_f": scales, "names": names, "female": fem, "hapX": hapx, "k": k}}


def gen_cases(rng, tier):
    n = {"quick": 70, "thorough": 400, "search": 100}[tier]
    cases = [_cohort(rng, ideal=(i % 4 == 0)) for i in range(n)]
    cases += [_cohort_on(rng) for _ in range(max(6, n // 6))]
    for _ in range(n // 2):
        seq = "".join(rng.choice("ACGTacgtNnRY") for _ in range(rng.randint(0, 60)))
        cases.append({"op": "gc_rmask", "tag": "gc", "in": {"seq": seq}})
    for _ in range(max(4, n // 10)):
        style = rng.choice(["chr", ""])
        cases.append({"op": "flat_reference", "tag": "flat",
                      "in": {"tb": _bins(rng, style, False), "ab": _bins(rng, style, True) if rng.random() < .5 else [],
                             "hapX": rng.random() < .5, "par": None}})
    _mark_cli(cases, random.Random(rng.getrandbits(32)))
    return cases


def _mark_cli(cases, r2):
    """send a share of the cases through `cnvkit.py reference` (own random stream, drawn after every other case
    field, so the cohorts themselves are the ones generated before the command-line tie existed):
    every 5th cohort, every other malformed cohort, every 3rd corrections-on cohort and every other flat reference."""
    seen = {}
    for c in cases:
        op = c["op"]
        key = "malformed" if "bins_differ" in c["tag"] else op
        n = seen[key] = seen.get(key, -1) + 1
        every, at = {"reference": (5, 2), "malformed": (2, 1), "reference_on": (3, 1), "flat_reference": (2, 1)}.get(key, (0, 0))
        if not every or n % every != at:
            continue
        i = c["in"]
        fasta = op == "reference" and r2.random() < .5
        # without a FASTA (and without a gc column in the .cnn files) the GC / RepeatMasker corrections have nothing
        # to work on, so leaving --no-gc / --no-rmask out must not change the result: the parser's defaults
        # (do_gc = do_rmask = True) reach do_reference in those cases
        flags = ["--no-edge"] + [f for f in ("--no-gc", "--no-rmask") if fasta or r2.random() < .5]
        r2.shuffle(flags)
        i["cli"] = True
        if op == "flat_reference":
            i["hapX"] = (n // every) % 2 == 0   # few flat cases: alternate, so that -y and its absence both occur
        # the spellings of the sex cycle over the cases that give one (the capitalised ones need the .lower())
        sex = i.get("given") if op == "reference" else ("true" if i.get("female") else "false") if op == "reference_on" else None
        nth_sex = seen["sex" + str(sex)] = seen.get("sex" + str(sex), -1) + 1
        i["cli_opts"] = {
            "form": r2.choice(["t_a", "a_t", "mixed", "dir"]),
            "opts_first": r2.random() < .5,
            "y": r2.choice(["-y", "--male-reference", "--haploid-x-reference"]),
            "x": r2.choice(["-x", "--sample-sex", "-g", "--gender"]),
            "sex_f": ["Female", "f", "x", "female"][nth_sex % 4],
            "sex_m": ["Male", "m", "y", "male"][nth_sex % 4],
            "o": r2.choice(["-o", "--output"]),
            "long_flat": r2.random() < .5,
            "flags": flags if op == "reference" else [],   # corrections-on cohorts: no flag at all (defaults)
            "fasta": fasta, "fasta_seed": r2.getrandbits(30)}
        c["tag"] = "cli-" + c["tag"]


def corpus():
    # finding E: one-sample cohort -> the profile is pulled half-way to the flat pseudo-sample
    style = "chr"
    tb = [[style + c, 100 + 1000 * i, 400 + 1000 * i, "G%d" % i] for c in ("1", "2") for i in range(4)] + \
         [[style + "X", 100 + 1000 * i, 400 + 1000 * i, "GX"] for i in range(3)]
    prof = [0.5, -0.5, 0.25, -0.25, 0.5, -0.5, 0.25, -0.25, 0.0, 0.0, 0.0]
    rows = [[c, a, b, g, 6.0 + p, 50.0] for (c, a, b, g), p in zip(tb, prof)]
    return [{"op": "reference", "tag": "corpus-E",
             "in": {"samples": [{"name": "only_0", "female": True, "t": rows, "a": []}], "order": [0], "hapX": False,
                    "par": None, "with_anti": False, "empty_anti": False, "given": "true", "ideal": True, "k": 1,
                    "profile_t": [frac(x) for x in prof], "profile_a": []}}]


def classify_single_sample(case, impl, resp):
    """finding E: with one sample the biweight location of [pseudo-sample, sample] is their midpoint"""
    return case["in"].get("k") == 1


def _write(rows, path):
    from skgenome import tabio
    from cnvlib.cnary import CopyNumArray as CNA
    arr = CNA.from_rows([tuple(r) for r in rows], columns=["chromosome", "start", "end", "gene", "log2", "depth"])
    tabio.write(arr, path)


def _reread(path):
    from cnvlib.cmdutil import read_cna
    d = read_cna(path).data
    return [[str(r.chromosome), int(r.start), int(r.end), str(r.gene), frac(float(r.log2)), frac(float(r.depth))]
            for r in d.itertuples()]


def _cli_run(argv, out):
    """`cnvkit.py <argv>` in-process (what the script does: parse_args, then args.func).  Returns the table the
    command hands to the writer (the file carries 6 significant digits: C08's subject) after checking that it was
    written exactly once, to the requested output, and that the file reads back equal to it within 1e-5 relative."""
    import logging
    from cnvlib import commands
    from cnvlib.cmdutil import read_cna
    from skgenome import tabio
    captured = []

    class _Tab:
        def __getattr__(self, name):
            return getattr(tabio, name)

        def write(self, garr, outfname=None, *a, **k):
            captured.append((garr, outfname))
            return tabio.write(garr, outfname, *a, **k)
    saved = commands.tabio
    commands.tabio = _Tab()
    logging.disable(logging.CRITICAL)
    try:
        args = commands.parse_args(argv)
        args.func(args)
    finally:
        logging.disable(logging.NOTSET)
        commands.tabio = saved
    if len(captured) != 1 or captured[0][1] != out or not os.path.exists(out):
        raise AssertionError("cnvkit.py reference did not write exactly one table to the requested output")
    ref = captured[0][0]
    back = read_cna(out)

    def same(x, y):
        x, y = float(x), float(y)
        return (x != x and y != y) or x == y or abs(x - y) <= 1e-5 * max(abs(x), abs(y))
    cols = [c for c in ("log2", "depth", "spread") if c in ref]
    if len(back) != len(ref) or any(c not in back for c in cols) or any(
            (str(a.chromosome), int(a.start), int(a.end), str(a.gene)) != (str(b.chromosome), int(b.start), int(b.end), str(b.gene))
            or not all(same(getattr(a, c), getattr(b, c)) for c in cols)
            for a, b in zip(back.data.itertuples(), ref.data.itertuples())):
        raise AssertionError("the written reference does not read back as the table the command computed")
    return ref


def _write_fasta(path, need, seed):
    """a genome covering `need` = {chromosome: length}: 100-base lines drawn from a palette of lines with different
    G+C / lowercase / N content, the palette entries in use changing every 4 kb (so that both 200-base target bins
    and 7-kb antitarget bins differ in gc and rmask)"""
    r = random.Random(seed)
    palette = []
    for _ in range(10):
        pg, pl = r.choice([.15, .3, .5, .7, .85]), r.choice([0, 0, .3, .7, 1])
        ln = "".join(r.choice("GC" if r.random() < pg else "AT") for _ in range(100))
        ln = "".join(ch.lower() if r.random() < pl else ch for ch in ln)
        palette.append(ln if r.random() < .9 else ln[:60] + "N" * 40)
    with open(path, "w") as fh:
        for chrom, length in need.items():
            fh.write(">%s\n" % chrom)
            lines = []
            for _ in range(length // 4000 + 1):
                two = r.sample(palette, 2)
                lines.extend(r.choice(two) for _ in range(40))
            fh.write("\n".join(lines) + "\n")


def _reference_cli(o, tfiles, afiles, indir, out, hapx, given, fasta=None):
    """`cnvkit.py reference <target and antitarget .cnn files in one list | their directory> -o out [...]`"""
    if o["form"] == "dir":
        pos = [indir]
    elif o["form"] == "a_t":
        pos = afiles + tfiles
    elif o["form"] == "mixed":
        pos = [f for k in range(len(tfiles)) for f in ((tfiles[k:k + 1] + afiles[k:k + 1]) if k % 2 else (afiles[k:k + 1] + tfiles[k:k + 1]))]
    else:
        pos = tfiles + afiles
    opts = [o["o"], out] + list(o["flags"])
    if hapx:
        opts += [o["y"]]
    if given is not None:
        opts += [o["x"], o["sex_f"] if given else o["sex_m"]]
    if fasta:
        opts += ["-f", fasta]
    return _cli_run(["reference"] + (opts + pos if o["opts_first"] else pos + opts), out)


def run_impl(case):
    import numpy as np
    from cnvlib import reference
    from skgenome import tabio, GenomicArray as GA
    i = case["in"]
    op = case["op"]
    if op == "gc_rmask":
        g, m = reference.calculate_gc_lo(i["seq"])
        return [frac(float(g)), frac(float(m))]
    cli = i.get("cli_opts") if i.get("cli") else None
    if cli:
        d = tempfile.mkdtemp(dir="/var/tmp", prefix="c05cli")
    else:
        os.makedirs("/var/tmp/verif-c05", exist_ok=True)
        d = tempfile.mkdtemp(dir="/var/tmp/verif-c05")
    try:
        if op == "reference_on":
            def build(scales, sub):
                os.makedirs(os.path.join(d, sub))
                files = []
                for name, sc in zip(i["names"], scales):
                    rows = []
                    for (c, a, b, g), pr in zip(i["bins"], i["profile_f"]):
                        lg = 6 + sc + pr - (1 if (c.replace("chr", "") == "X" and not i["female"]) else 0)
                        rows.append([c, a, b, g, lg, 2.0 ** lg])
                    pth = os.path.join(d, sub, name + ".targetcoverage.cnn")
                    _write(rows, pth)
                    files.append(pth)
                if cli:
                    # no --no-* flag: the parser's defaults (all corrections on) are what reaches do_reference
                    ref = _reference_cli(cli, files, [], os.path.join(d, sub), os.path.join(d, "out_" + sub, "ref.cnn"),
                                         i["hapX"], i["female"])
                else:
                    ref = reference.do_reference(files, None, None, i["hapX"], None, i["female"])
                return ref.data
            r1 = build(i["scales_f"], "scaled")
            r0 = build([0.0] * i["k"], "same")
            return {"n": int(len(r1)), "n_bins": len(i["bins"]), "max_spread": float(np.nanmax(np.abs(r1["spread"].values))),
                    "max_diff": float(np.nanmax(np.abs(r1["log2"].values - r0["log2"].values))) if len(r1) == len(r0) else float("inf")}
        if op == "flat_reference":
            tp = os.path.join(d, "t.bed")
            tabio.write(GA.from_rows([tuple(r) for r in i["tb"]], columns=["chromosome", "start", "end", "gene"]), tp, "bed4")
            ap = None
            if i["ab"]:
                ap = os.path.join(d, "a.bed")
                tabio.write(GA.from_rows([tuple(r) for r in i["ab"]], columns=["chromosome", "start", "end", "gene"]), ap, "bed4")
            if cli:
                # (the command has no way to pass par to the flat reference; the generated par is None)
                out = os.path.join(d, "out", "flat.cnn")
                argv = ["reference", "--targets" if cli["long_flat"] else "-t", tp]
                argv += ["--antitargets" if cli["long_flat"] else "-a", ap] if ap else []
                argv += [cli["y"]] if i["hapX"] else []
                ref = _cli_run(argv + [cli["o"], out], out)
            else:
                ref = reference.do_reference_flat(tp, ap, None, i["hapX"], i["par"])
            return [[str(r.chromosome), int(r.start), int(r.end), frac(float(r.log2))] for r in ref.data.itertuples()]
        tf, af, reread_t, reread_a = [], [], {}, {}
        for s in i["samples"]:
            p1 = os.path.join(d, s["name"] + ".targetcoverage.cnn")
            _write(s["t"], p1)
            tf.append(p1)
            reread_t[s["name"]] = _reread(p1)
            if i["with_anti"]:
                p2 = os.path.join(d, s["name"] + ".antitargetcoverage.cnn")
                _write([] if i["empty_anti"] else s["a"], p2)
                af.append(p2)
                reread_a[s["name"]] = [] if i["empty_anti"] else _reread(p2)
        tfo = [tf[j] for j in i["order"]]
        afo = [af[j] for j in i["order"]] if i["with_anti"] else None
        given = None if i["given"] is None else (i["given"] == "true")
        # sexes as do_reference determines them (parameter of the model)
        if given is None:
            sexes = reference.infer_sexes(tfo, False, i["par"])
            if afo:
                for sid, a_is_xx in reference.infer_sexes(afo, False, i["par"]).items():
                    t_is_xx = sexes.get(sid)
                    if t_is_xx is None:
                        sexes[sid] = a_is_xx
                    elif t_is_xx != a_is_xx and a_is_xx is not None:
                        sexes[sid] = a_is_xx
        else:
            sexes = {s["name"]: given for s in i["samples"]}
        if cli:
            fa = None
            if cli["fasta"]:
                # with a genome the GC / RepeatMasker corrections have something to work on: --no-gc / --no-rmask
                # (always given in these cases) are then what keeps the result equal to the corrections-off model
                need = {}
                for s in i["samples"][:1]:
                    for r in s["t"] + s["a"]:
                        need[r[0]] = max(need.get(r[0], 0), r[2] + 200)
                os.makedirs(os.path.join(d, "genome"))
                fa = os.path.join(d, "genome", "genome.fa")
                _write_fasta(fa, need, cli["fasta_seed"])
            ref = _reference_cli(cli, tfo, afo or [], d, os.path.join(d, "out", "reference.cnn"), i["hapX"], given, fa)
        else:
            ref = reference.do_reference(tfo, afo, None, i["hapX"], i["par"], given, do_gc=False, do_edge=False, do_rmask=False)
        rows = [[str(r.chromosome), int(r.start), int(r.end), str(r.gene), frac(float(r.log2)), frac(float(r.depth)),
                 frac(float(r.spread))] for r in ref.data.itertuples()]
        return {"rows": rows, "sexes": [[k, bool(v)] for k, v in sexes.items()], "t": reread_t, "a": reread_a}
    finally:
        shutil.rmtree(d, ignore_errors=True)


def to_line(case, impl):
    i = case["in"]
    op = case["op"]
    err = isinstance(impl, dict) and "__error__" in impl
    if op == "gc_rmask":
        return {"op": op, "in": {"seq": i["seq"]}}
    if op == "reference_on":
        return {"op": "gc_rmask", "in": {"seq": ""}}  # no model for the corrections-on run: semantic clauses only
    if op == "flat_reference":
        bins = [[r[0], r[1], r[2], r[3], "0", "1"] for r in i["tb"] + i["ab"]]
        return {"op": op, "in": {"bins": bins, "hapX": i["hapX"], "par": i["par"]}}
    if err:
        # the model is driven with the generated values (the files could not be summarised)
        tg = [{"name": s["name"], "rows": [[r[0], r[1], r[2], r[3], frac(r[4]), frac(r[5])] for r in s["t"]]} for s in i["samples"]]
        return {"op": op, "in": {"hapX": i["hapX"], "par": i["par"], "targets": tg, "sexes": [], "ideal": False}}
    tg = [{"name": n, "rows": rows} for n, rows in impl["t"].items()]
    line = {"op": op, "in": {"hapX": i["hapX"], "par": i["par"], "targets": tg, "sexes": impl["sexes"],
                             "ideal": bool(i["ideal"]), "profile_t": i.get("profile_t", []),
                             "profile_a": [] if i["empty_anti"] else i.get("profile_a", [])}, "impl": impl["rows"]}
    if i["with_anti"]:
        line["in"]["antitargets"] = [{"name": n, "rows": rows} for n, rows in impl["a"].items()]
    return line


def _close(a, b, tol=1e-7):
    a, b = float(Fraction(a)), float(Fraction(b))
    return abs(a - b) <= tol * max(1.0, abs(b))


def judge(case, impl, resp):
    op = case["op"]
    if "error" in resp:
        return [], ["model error: " + resp["error"]], None
    out = resp["out"]
    if op == "reference":
        model_err = isinstance(out, dict) and "error_kind" in out
        if isinstance(impl, dict) and "__error__" in impl:
            if model_err and impl["__error__"] in ("RuntimeError", "ValueError"):
                return [], [], None  # files whose bins differ are rejected
            return ["raises_" + impl["__error__"]], [], None
        if model_err:
            return ["reject_differing_bins"], [], None
        spec = list(resp.get("spec") or [])
        rows = impl["rows"]
        dis = []
        knife = None
        if len(out) != len(rows):
            dis.append(f"row count model {len(out)} impl {len(rows)}")
        else:
            for k, (m, r) in enumerate(zip(out, rows)):
                if m[:4] != r[:4]:
                    dis.append(f"row {k}: model {m[:4]} impl {r[:4]}")
                    break
                if not _close(r[4], m[4]) or not _close(r[5], m[5], 1e-6):
                    dis.append(f"row {k}: log2/depth model {float(Fraction(m[4]))},{float(Fraction(m[5]))} impl {float(Fraction(r[4]))},{float(Fraction(r[5]))}")
                    break
                kind = m[6][0]
                sp = float(Fraction(r[6]))
                if kind == "direct":
                    ok = _close(r[6], m[6][1], 1e-6)
                    if not ok and Fraction(m[6][1]) != 0:
                        # the midvariance falls back to the MAD when the scaled deviations sum to EXACTLY zero
                        # (symmetric data); the float sum of symmetric terms need not be exactly zero: knife-edge
                        knife = "biweight midvariance MAD fallback on exactly symmetric data"
                        ok = True
                elif kind == "root":
                    ok = abs(sp * sp - float(Fraction(m[6][1]))) <= 1e-6 * max(1.0, sp * sp)
                else:
                    ok = math.isnan(sp) or math.isinf(sp)
                if not ok:
                    dis.append(f"row {k}: spread model {m[6]} impl {sp}")
                    break
        return spec, dis, (knife if not dis and not spec else None)
    if isinstance(impl, dict) and "__error__" in impl:
        return ["raises_" + impl["__error__"]], [], None
    dis = []
    if op == "reference_on":
        spec = []
        if impl["n"] != impl["n_bins"]:
            spec.append("exact_bins_corrections_on")
        if not impl["max_spread"] <= 1e-6:
            spec.append("depth_only_normals_spread_zero_corrections_on")
        if not impl["max_diff"] <= 1e-6:
            spec.append("depth_only_normals_same_profile_corrections_on")
        return spec, [], None
    if op == "gc_rmask":
        if not (_close(impl[0], out[0]) and _close(impl[1], out[1])):
            dis.append(f"gc/rmask model {out} impl {impl}")
        return [], dis, None
    if op == "flat_reference":
        got = [[r[0], r[1], r[2], str(Fraction(r[3]))] for r in impl]
        want = [[r[0], r[1], r[2], str(Fraction(r[3]))] for r in out]
        if got != want:
            dis.append("flat reference differs")
        return [], dis, None
    return [], [], None


def nontrivial(case, impl, resp):
    i = case["in"]
    return case["op"] not in ("reference",) or i["k"] >= 2
