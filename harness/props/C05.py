"""C05 -- the pooled reference is the robust per-bin consensus in the chosen reference sex."""
from __future__ import annotations

import math
import os
import shutil
import tempfile
from fractions import Fraction

from ..core import frac

LEVEL = "proof"
RULE = ("cohorts of 1..8 coverage-file pairs written to a temp dir (sex mix, per-sample depth scale, noise or none, chr / "
        "plain naming, with / without antitarget files incl. empty ones, male / female reference, sexes given or "
        "inferred by the real guess_xx) through do_reference with the bias corrections off (exact oracle = the Lean "
        "model incl. Tukey's biweight location / midvariance); malformed cohorts (a file whose bins differ); "
        "do_reference_flat; calculate_gc_lo on random sequences; same-sex cohorts of 3..6 normals differing only in depth "
        "through do_reference with the corrections ON (tiled or irregular designs, non-flat profile, <= 10% X bins; "
        "semantic clauses only: spread ~ 0 and the same profile as at equal depth). non-trivial = >= 2 samples or a sex chromosome "
        "present; distinct by hash")
EXHAUSTIVE = {"quick": False, "thorough": False}
ASSUMPTIONS = ["corrections off for the exact tie (with corrections on the rolling-median steps are C04's subject)",
               "sample sexes are a parameter of the model: given, or inferred by the real guess_xx (C15)",
               "values are taken as re-read from the written .cnn files (%.6g), so file I/O rounding is outside"]
TRUSTED_EXTRA = ["tabio read/write of .cnn files (C08)", "numpy apply_along_axis / vstack / hstack plumbing"]


def _bins(rng, style, anti, nx=45):
    out = []
    chroms = [style + c for c in ["1", "2", "3"][: rng.randint(1, 3)]] + [style + "X"] + ([style + "Y"] if rng.random() < .7 else [])
    for c in chroms:
        pos = 0
        n = rng.randint(4, 9) if c[-1] not in "XY" else (nx if c[-1] == "X" else rng.randint(3, 6))
        for i in range(n):
            sz = rng.randint(100, 300) if not anti else rng.randint(5000, 9000)
            pos += rng.randint(0, 500)
            out.append([c, pos, pos + sz, "Antitarget" if anti else "G%d" % (i // 3)])
            pos += sz
    return out


def _cohort(rng, ideal=False):
    style = rng.choice(["chr", ""])
    k = rng.randint(3, 6) if ideal else rng.randint(1, 8)
    hapx = rng.random() < .5
    with_anti = rng.random() < .6
    given = rng.choice([None, "true", "false"])
    if ideal and rng.random() < 0.6:
        given = None  # mixed-sex cohort with inferred sexes: the case where the sex shift of one sample could leak into another
    one_sex = rng.random() < .5
    # sex inference needs >= 40 X bins (C15); with given sexes small tables do
    nx = rng.randint(45, 50) if given is None else rng.randint(3, 8)
    tb = _bins(rng, style, False, nx)
    ab = [[c, s + 100000, e + 100000, g] for c, s, e, g in _bins(rng, style, True, nx)] if with_anti else []
    # values on a 1/8 grid: exactly representable, printed exactly by %.6g, and small as rationals
    # (the exact biweight iterations square denominators; full 53-bit inputs make the model very slow)
    g8 = lambda x: round(x * 8) / 8
    # ideal cohorts: a flat common profile, so that the expected levels are exactly 0 / -1 (a male sample's Y
    # follows the profile while a female sample's Y is set to -1: only a flat profile makes them agree)
    prof_t = [0.0 if ideal else g8(rng.gauss(0, .4)) for _ in tb]
    prof_a = [0.0 if ideal else g8(rng.gauss(0, .4)) for _ in ab]
    samples = []
    for s in range(k):
        fem = rng.random() < .5
        if ideal and given is None:
            fem = (s != 0)  # one male among females; file names (random prefix) decide the processing order
        if ideal and given is not None:
            fem = (given == "true")   # do_reference takes ONE sex for all samples when it is given
        scale = g8(rng.gauss(0, 1))
        sd = 0.0 if ideal else rng.choice([0.0, 0.125, 0.25])

        def mk(bins, prof):
            rows = []
            for (c, a, b, g), p in zip(bins, prof):
                lg = 6 + scale + p + (g8(rng.gauss(0, sd)) if sd else 0.0)
                cc = c.replace("chr", "")
                if cc == "X" and not fem:
                    lg -= 1
                if cc == "Y":
                    lg = lg - 1 if not fem else lg - 7
                if not ideal and rng.random() < 0.02:
                    rows.append([c, a, b, g, -20.0, 0.0])
                else:
                    rows.append([c, a, b, g, lg, float(rng.randint(2, 400)) / 2])
            return rows
        samples.append({"name": "smp%02d_%d" % (rng.randint(0, 99), s), "female": fem,
                        "t": mk(tb, prof_t), "a": mk(ab, prof_a)})
    order = list(range(k))
    rng.shuffle(order)
    empty_anti = with_anti and rng.random() < 0.15
    malformed = None
    if not ideal and k >= 2 and rng.random() < 0.08:
        malformed = "bins_differ"
        r = samples[-1]["t"][0]
        samples[-1]["t"][0] = [r[0], r[1] + 1] + r[2:]
    return {"op": "reference", "tag": ("ideal" if ideal else "cohort") + ("-" + malformed if malformed else ""),
            "in": {"samples": samples, "order": order, "hapX": hapx, "par": None, "with_anti": with_anti,
                   "empty_anti": empty_anti, "given": given, "ideal": ideal, "k": k,
                   "profile_t": [frac(x) for x in prof_t], "profile_a": [frac(x) for x in prof_a]}}


def _cohort_on(rng):
    """same-sex normals that differ only in sequencing depth, bias corrections ON (semantic clauses only: the
    rolling-median corrections are C04's subject).  Half the cohorts use a tiled design (equal bin sizes and gaps,
    hence tied edge-bias keys); the common profile is not flat; sex chromosomes are at most 10% of the bins."""
    style = rng.choice(["chr", ""])
    k = rng.randint(3, 6)
    fem = rng.random() < .5
    hapx = rng.random() < .5
    tiled = rng.random() < .5
    tb = []
    for c in ["1", "2", "3"][: rng.randint(1, 3)]:
        pos = rng.randint(0, 3000)
        for j in range(rng.randint(25, 60)):
            sz = 200 if tiled else rng.randint(100, 400)
            tb.append([style + c, pos, pos + sz, "G%d" % (j // 4)])
            pos += sz + (2000 if tiled else rng.choice([0, 50, 700, 3000]))
    nx = max(1, len(tb) // 12)
    pos = 500
    for j in range(nx):
        tb.append([style + "X", pos, pos + 200, "GX%d" % (j // 3)])
        pos += 2200
    g8 = lambda x: round(x * 8) / 8
    prof = [g8(rng.gauss(0, .5)) for _ in tb]
    scales = [g8(rng.gauss(0, 1.2)) for _ in range(k)]
    names = ["smp%02d_%d" % (rng.randint(0, 99), s) for s in range(k)]
    return {"op": "reference_on", "tag": "corrections-on-" + ("tiled" if tiled else "irregular"),
            "in": {"bins": tb, "profile_f": prof, "scales_f": scales, "names": names, "female": fem, "hapX": hapx, "k": k}}


def gen_cases(rng, tier):
    n = {"quick": 70, "thorough": 700, "search": 100}[tier]
    cases = [_cohort(rng, ideal=(i % 4 == 0)) for i in range(n)]
    cases += [_cohort_on(rng) for _ in range(max(6, n // 6))]
    for _ in range(n // 2):
        seq = "".join(rng.choice("ACGTacgtNnRY") for _ in range(rng.randint(0, 60)))
        cases.append({"op": "gc_rmask", "tag": "gc", "in": {"seq": seq}})
    for _ in range(max(4, n // 10)):
        style = rng.choice(["chr", ""])
        cases.append({"op": "flat_reference", "tag": "flat",
                      "in": {"tb": _bins(rng, style, False), "ab": _bins(rng, style, True) if rng.random() < .5 else [],
                             "hapX": rng.random() < .5, "par": None}})
    return cases


def corpus():
    # finding E: one-sample cohort -> the profile is pulled half-way to the flat pseudo-sample
    style = "chr"
    tb = [[style + c, 100 + 1000 * i, 400 + 1000 * i, "G%d" % i] for c in ("1", "2") for i in range(4)] + \
         [[style + "X", 100 + 1000 * i, 400 + 1000 * i, "GX"] for i in range(3)]
    prof = [0.5, -0.5, 0.25, -0.25, 0.5, -0.5, 0.25, -0.25, 0.0, 0.0, 0.0]
    rows = [[c, a, b, g, 6.0 + p, 50.0] for (c, a, b, g), p in zip(tb, prof)]
    return [{"op": "reference", "tag": "corpus-E",
             "in": {"samples": [{"name": "only_0", "female": True, "t": rows, "a": []}], "order": [0], "hapX": False,
                    "par": None, "with_anti": False, "empty_anti": False, "given": "true", "ideal": True, "k": 1,
                    "profile_t": [frac(x) for x in prof], "profile_a": []}}]


def classify_single_sample(case, impl, resp):
    """finding E: with one sample the biweight location of [pseudo-sample, sample] is their midpoint"""
    return case["in"].get("k") == 1


def _write(rows, path):
    from skgenome import tabio
    from cnvlib.cnary import CopyNumArray as CNA
    arr = CNA.from_rows([tuple(r) for r in rows], columns=["chromosome", "start", "end", "gene", "log2", "depth"])
    tabio.write(arr, path)


def _reread(path):
    from cnvlib.cmdutil import read_cna
    d = read_cna(path).data
    return [[str(r.chromosome), int(r.start), int(r.end), str(r.gene), frac(float(r.log2)), frac(float(r.depth))]
            for r in d.itertuples()]


def run_impl(case):
    import numpy as np
    from cnvlib import reference
    from skgenome import tabio, GenomicArray as GA
    i = case["in"]
    op = case["op"]
    if op == "gc_rmask":
        g, m = reference.calculate_gc_lo(i["seq"])
        return [frac(float(g)), frac(float(m))]
    os.makedirs("/var/tmp/verif-c05", exist_ok=True)
    d = tempfile.mkdtemp(dir="/var/tmp/verif-c05")
    try:
        if op == "reference_on":
            def build(scales, sub):
                os.makedirs(os.path.join(d, sub))
                files = []
                for name, sc in zip(i["names"], scales):
                    rows = []
                    for (c, a, b, g), pr in zip(i["bins"], i["profile_f"]):
                        lg = 6 + sc + pr - (1 if (c.replace("chr", "") == "X" and not i["female"]) else 0)
                        rows.append([c, a, b, g, lg, 2.0 ** lg])
                    pth = os.path.join(d, sub, name + ".targetcoverage.cnn")
                    _write(rows, pth)
                    files.append(pth)
                ref = reference.do_reference(files, None, None, i["hapX"], None, i["female"])
                return ref.data
            r1 = build(i["scales_f"], "scaled")
            r0 = build([0.0] * i["k"], "same")
            return {"n": int(len(r1)), "n_bins": len(i["bins"]), "max_spread": float(np.nanmax(np.abs(r1["spread"].values))),
                    "max_diff": float(np.nanmax(np.abs(r1["log2"].values - r0["log2"].values))) if len(r1) == len(r0) else float("inf")}
        if op == "flat_reference":
            tp = os.path.join(d, "t.bed")
            tabio.write(GA.from_rows([tuple(r) for r in i["tb"]], columns=["chromosome", "start", "end", "gene"]), tp, "bed4")
            ap = None
            if i["ab"]:
                ap = os.path.join(d, "a.bed")
                tabio.write(GA.from_rows([tuple(r) for r in i["ab"]], columns=["chromosome", "start", "end", "gene"]), ap, "bed4")
            ref = reference.do_reference_flat(tp, ap, None, i["hapX"], i["par"])
            return [[str(r.chromosome), int(r.start), int(r.end), frac(float(r.log2))] for r in ref.data.itertuples()]
        tf, af, reread_t, reread_a = [], [], {}, {}
        for s in i["samples"]:
            p1 = os.path.join(d, s["name"] + ".targetcoverage.cnn")
            _write(s["t"], p1)
            tf.append(p1)
            reread_t[s["name"]] = _reread(p1)
            if i["with_anti"]:
                p2 = os.path.join(d, s["name"] + ".antitargetcoverage.cnn")
                _write([] if i["empty_anti"] else s["a"], p2)
                af.append(p2)
                reread_a[s["name"]] = [] if i["empty_anti"] else _reread(p2)
        tfo = [tf[j] for j in i["order"]]
        afo = [af[j] for j in i["order"]] if i["with_anti"] else None
        given = None if i["given"] is None else (i["given"] == "true")
        # sexes as do_reference determines them (parameter of the model)
        if given is None:
            sexes = reference.infer_sexes(tfo, False, i["par"])
            if afo:
                for sid, a_is_xx in reference.infer_sexes(afo, False, i["par"]).items():
                    t_is_xx = sexes.get(sid)
                    if t_is_xx is None:
                        sexes[sid] = a_is_xx
                    elif t_is_xx != a_is_xx and a_is_xx is not None:
                        sexes[sid] = a_is_xx
        else:
            sexes = {s["name"]: given for s in i["samples"]}
        ref = reference.do_reference(tfo, afo, None, i["hapX"], i["par"], given, do_gc=False, do_edge=False, do_rmask=False)
        rows = [[str(r.chromosome), int(r.start), int(r.end), str(r.gene), frac(float(r.log2)), frac(float(r.depth)),
                 frac(float(r.spread))] for r in ref.data.itertuples()]
        return {"rows": rows, "sexes": [[k, bool(v)] for k, v in sexes.items()], "t": reread_t, "a": reread_a}
    finally:
        shutil.rmtree(d, ignore_errors=True)


def to_line(case, impl):
    i = case["in"]
    op = case["op"]
    err = isinstance(impl, dict) and "__error__" in impl
    if op == "gc_rmask":
        return {"op": op, "in": {"seq": i["seq"]}}
    if op == "reference_on":
        return {"op": "gc_rmask", "in": {"seq": ""}}  # no model for the corrections-on run: semantic clauses only
    if op == "flat_reference":
        bins = [[r[0], r[1], r[2], r[3], "0", "1"] for r in i["tb"] + i["ab"]]
        return {"op": op, "in": {"bins": bins, "hapX": i["hapX"], "par": i["par"]}}
    if err:
        # the model is driven with the generated values (the files could not be summarised)
        tg = [{"name": s["name"], "rows": [[r[0], r[1], r[2], r[3], frac(r[4]), frac(r[5])] for r in s["t"]]} for s in i["samples"]]
        return {"op": op, "in": {"hapX": i["hapX"], "par": i["par"], "targets": tg, "sexes": [], "ideal": False}}
    tg = [{"name": n, "rows": rows} for n, rows in impl["t"].items()]
    line = {"op": op, "in": {"hapX": i["hapX"], "par": i["par"], "targets": tg, "sexes": impl["sexes"],
                             "ideal": bool(i["ideal"]), "profile_t": i.get("profile_t", []),
                             "profile_a": [] if i["empty_anti"] else i.get("profile_a", [])}, "impl": impl["rows"]}
    if i["with_anti"]:
        line["in"]["antitargets"] = [{"name": n, "rows": rows} for n, rows in impl["a"].items()]
    return line


def _close(a, b, tol=1e-7):
    a, b = float(Fraction(a)), float(Fraction(b))
    return abs(a - b) <= tol * max(1.0, abs(b))


def judge(case, impl, resp):
    op = case["op"]
    if "error" in resp:
        return [], ["model error: " + resp["error"]], None
    out = resp["out"]
    if op == "reference":
        model_err = isinstance(out, dict) and "error_kind" in out
        if isinstance(impl, dict) and "__error__" in impl:
            if model_err and impl["__error__"] in ("RuntimeError", "ValueError"):
                return [], [], None  # files whose bins differ are rejected
            return ["raises_" + impl["__error__"]], [], None
        if model_err:
            return ["reject_differing_bins"], [], None
        spec = list(resp.get("spec") or [])
        rows = impl["rows"]
        dis = []
        knife = None
        if len(out) != len(rows):
            dis.append(f"row count model {len(out)} impl {len(rows)}")
        else:
            for k, (m, r) in enumerate(zip(out, rows)):
                if m[:4] != r[:4]:
                    dis.append(f"row {k}: model {m[:4]} impl {r[:4]}")
                    break
                if not _close(r[4], m[4]) or not _close(r[5], m[5], 1e-6):
                    dis.append(f"row {k}: log2/depth model {float(Fraction(m[4]))},{float(Fraction(m[5]))} impl {float(Fraction(r[4]))},{float(Fraction(r[5]))}")
                    break
                kind = m[6][0]
                sp = float(Fraction(r[6]))
                if kind == "direct":
                    ok = _close(r[6], m[6][1], 1e-6)
                    if not ok and Fraction(m[6][1]) != 0:
                        # the midvariance falls back to the MAD when the scaled deviations sum to EXACTLY zero
                        # (symmetric data); the float sum of symmetric terms need not be exactly zero: knife-edge
                        knife = "biweight midvariance MAD fallback on exactly symmetric data"
                        ok = True
                elif kind == "root":
                    ok = abs(sp * sp - float(Fraction(m[6][1]))) <= 1e-6 * max(1.0, sp * sp)
                else:
                    ok = math.isnan(sp) or math.isinf(sp)
                if not ok:
                    dis.append(f"row {k}: spread model {m[6]} impl {sp}")
                    break
        return spec, dis, (knife if not dis and not spec else None)
    if isinstance(impl, dict) and "__error__" in impl:
        return ["raises_" + impl["__error__"]], [], None
    dis = []
    if op == "reference_on":
        spec = []
        if impl["n"] != impl["n_bins"]:
            spec.append("exact_bins_corrections_on")
        if not impl["max_spread"] <= 1e-6:
            spec.append("depth_only_normals_spread_zero_corrections_on")
        if not impl["max_diff"] <= 1e-6:
            spec.append("depth_only_normals_same_profile_corrections_on")
        return spec, [], None
    if op == "gc_rmask":
        if not (_close(impl[0], out[0]) and _close(impl[1], out[1])):
            dis.append(f"gc/rmask model {out} impl {impl}")
        return [], dis, None
    if op == "flat_reference":
        got = [[r[0], r[1], r[2], str(Fraction(r[3]))] for r in impl]
        want = [[r[0], r[1], r[2], str(Fraction(r[3]))] for r in out]
        if got != want:
            dis.append("flat reference differs")
        return [], dis, None
    return [], [], None


def nontrivial(case, impl, resp):
    i = case["in"]
    return case["op"] not in ("reference",) or i["k"] >= 2
