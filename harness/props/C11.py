"""C11 -- a clear copy-number step is found and localised; flat profiles stay unsegmented
(cnvlib/segmentation/haar.py, hmm.py, __init__.py).

PARTIAL by nature.  Three layers:
  1. component tie, exact: HaarConv (unweighted / weighted), FindLocalPeaks, FDRThres (p-values from scipy),
     UnifyLevels, SegmentByPeaks and the whole haarSeg level loop against the Lean model;
  2. theorems about that model for the noise-free core (Props/C11.lean);
  3. the statistical clause as an ORACLE RUN of do_segmentation(cna, "haar" | "hmm-germline") on seeded noisy
     profiles -- search, not proof; the Lean spec checker only evaluates the property's clauses on the real output.
"""
from __future__ import annotations

import math
from fractions import Fraction

from ..core import frac
from .. import c11_fdr as _fdrx   # round 5: FDRThres as written (op fdr_cdf)
from .. import c11_hmm_methods as _hmmx   # round 5: state tables of every hmm method branch (op hmm_states)

LEVEL = "proof"
RULE = ("component ops: one call of HaarConv / FindLocalPeaks / FDRThres / UnifyLevels / SegmentByPeaks / haarSeg per "
        "case on dyadic arrays (float arithmetic exact, compared exactly through an IEEE-754 rounding model), random "
        "floats (1e-9), plateau-rich small-integer signals, noise-free steps and constants, lengths 0..260, step "
        "half-sizes 1..64 incl. larger than the signal, malformed peak lists; oracle ops: one seeded noisy profile per "
        "case (1..3 chromosomes, step of 0/-1, 0/+0.585, 0/+1 (haar only) in either order, 100..400 bins a side, flat "
        "controls 100..600 bins, sd 0.01..0.1 with both ends of the range forced in every tenth profile, weights 0.5..1, "
        "random bin sizes and spacing) through do_segmentation with 'haar' and 'hmm-germline'. Per sample: all "
        "chromosomes stepped (58 %), all flat (20 %) or both sorts mixed (22 %); flat chromosomes at 0 or (one in four) "
        "at -1 / +0.585 / +1; 15 % of the stepped chromosomes also carry a centromere-sized gap >= 100 bins from the step "
        "(the clauses are then evaluated per arm: the step's arm and a flat arm; by_arm must split at the generated gap), "
        "15 % of the flat ones a gap; chromosome names chrN / N / sex-only / autosome+sex / alt contigs / upper case, in "
        "random (unsorted) order. API cases: the table as built, as a filtered subset of a larger table (index labels "
        "not 0..n-1), without depth column, with extra columns in another column order, or after a run of the other "
        "method on the same object; one keyword in about half of the cases (processes 2|3, skip_low, skip_outliers 10|0, "
        "min_weight 0.3|0.5, threshold 1e-4 for haar, diploid_parx_genome). One profile in six (17 % of the oracle cases) "
        "goes through `cnvkit.py segment CNR -m METHOD` (file written with 6-digit log2, read back exactly): "
        "--drop-low-coverage on/off, --drop-outliers absent|10|0, -p absent|1|2|3|bare, -t absent|1e-4 (haar) or the "
        "default smoothing window spelled out (hmm-germline), --diploid-parx-genome, -o given or left to <sample>.cns, "
        "-d with hmm-germline only (finding C11-cli-dataframe-haar), short and long flags; the table handed to the "
        "writer is judged, the written .cns must read back equal to it and the same call through the API must give the "
        "same segments. Besides the Lean clauses the cumulative `probes` of the first segment must be within 5 of the "
        "step. Not generated: integer-typed / all-1 weight column (finding C11-cli-integer-weight-column). "
        "Extension ops (weighted path): HaarConv(step, W, h) on noise-free steps with positive weights (property range, "
        "dyadic, all ones, wide 0.05..4, spiky 0.01/50; h 1..32 incl. non-powers of two; the half-window just fitting "
        "(h = b, b + h = n) and, one case in six, not fitting) against the model AND the closed form of theorem "
        "haarConvW_ideal_step (clauses weighted_ideal_response, weighted_response_zero_outside_reach, "
        "weighted_response_at_step_is_the_step on the real output); haarSeg(step, q, W) on noise-free steps of height >= "
        "0.585 with >= 32 bins a side against the model haarSegW (exact arithmetic) and the step clauses; the elements "
        "the real HaarConv loop reads at every position (recording sequences; unweighted and weighted; n 1..90, h up to "
        "and beyond n) against the model's hiIdx / loIdx and the source expressions re-read by the translator; the "
        "arguments hmm_get_model really hands to pomegranate's from_matrix against the generated start vector / "
        "transition matrix. "
        "Round 5: op fdr_cdf = the real FDRThres and the keep test |x| >= T of haarSeg on peak arrays (gaussian, dyadic with "
        "ties, largest peak at 1 +- 1 ulp, far-out peaks with p-values passing up to an index inside the array, constants; "
        "M 0..40, q 0..1, stdev 0..3) against the model with the scipy cdf values as a table, plus the statements of "
        "Props/C11Fdr on the real output; op hmm_states = hmm_get_model run up to from_matrix for hmm-germline, hmm-tumor "
        "and hmm against the generated state tables. "
        "SEARCH, NOT PROOF: a failing profile is a real counterexample (VIOLATION with the "
        "profile as replay), a passing run proves nothing about unseen profiles. non-trivial = the op's output is non-empty / has a breakpoint; distinct by hash")
EXHAUSTIVE = {"quick": False, "thorough": False}
ASSUMPTIONS = [
    "PARTIAL: the statistical clause (detection under Gaussian noise after Savitzky-Golay smoothing; pomegranate "
    "Baum-Welch + MAP decoding for hmm-germline) is NOT proved; it is an oracle run on the real code (search, not proof)",
    "theorems hold for the unweighted HaarConv recursion in exact arithmetic with any strictly increasing, "
    "zero-preserving normalisation/rounding; a noise-free step needs 2^level <= b <= n - 2^level for every level (b >= 32, n-b >= 32)",
    "FDRThres p-values (scipy norm.cdf) and the doubles sqrt(2h), sqrt(h/2) are inputs of the model; the weighted "
    "HaarConv and the level loop on non-dyadic data are tied at 1e-9 with the real per-level convolutions as input",
    "rawI (non-stationary variance compensation, PulseConv) is never passed by cnvkit and is outside the model",
    "weighted theorems (Props/C11W): exact arithmetic, every weight > 0, half-window fitting on both sides (b >= 32, "
    "n - b >= 32 for haarSeg); in floats the weighted quotients carry rounding noise where the exact response is 0, so "
    "the real code meets FDRThres with several tiny peaks: the closed form is tied to the real HaarConv at 1e-9, the "
    "whole weighted haarSeg on steps of at least the property's smallest height (0.585)",
    "initial HMM (Props/C11Hmm): obligations on the generated start vector / transition matrix; no clause of the "
    "property speaks about them, so a change there is reported through the broken obligation (and the oracle run), "
    "never as a spec failure of its own",
    "signals are non-empty and finite; weights, when given, have the length of the signal",
]
TRUSTED_EXTRA = [
    "scipy.stats.norm.cdf (p-values of FDRThres are computed by the harness with the formula of the source)",
    "math.sqrt (the normalisation constants are inputs; the driver checks norm^2 = 2h resp. h/2 to 1e-9)",
    "IEEE-754 binary64 division / addition / multiplication are correctly rounded (mirrored by `fl64`, itself "
    "tied to Python's Fraction->float conversion)",
    "harness/exprtrans.py loop-body reading (one iteration of the HaarConv loop; element values are inputs, element "
    "indices are tied separately) and harness/extractors/hmm.py (rational evaluation of three numpy expressions)",
    "pomegranate HiddenMarkovModel fit/predict, cnvlib.smoothing.savgol, guess_window_size, drop_outliers: black "
    "boxes of the oracle run; by_arm / squash_by_groups / transfer_fields glue: property C03/C14 packages",
]

LEVELS = [1, 2, 3, 4, 5]
NAN = "nan"


# ---------------------------------------------------------------------------------------------
# generators


def _dy(rng, lo=-8, hi=8, bits=3):
    return rng.randint(lo * 2 ** bits, hi * 2 ** bits) / 2 ** bits


def _signal(rng, n, kind=None):
    """(values, exact)"""
    kind = kind or rng.choice(["dyadic", "dyadic", "ints", "float", "steps", "steps", "const", "noisy-steps"])
    if kind == "dyadic":
        return [_dy(rng) for _ in range(n)], True
    if kind == "ints":
        return [float(rng.randint(-2, 2)) for _ in range(n)], True
    if kind == "float":
        return [rng.gauss(0, rng.choice([0.05, 0.3, 2.0])) for _ in range(n)], False
    if kind == "const":
        c = rng.choice([0.0, 1.0, -0.5, 0.585, 0.1])
        return [c] * n, c in (0.0, 1.0, -0.5)
    if kind in ("steps", "noisy-steps"):
        v, lvl = [], _dy(rng, -2, 2, 2)
        for _ in range(n):
            if rng.random() < 0.04:
                lvl = _dy(rng, -2, 2, 2)
            v.append(lvl + (rng.randint(-2, 2) / 16 if kind == "noisy-steps" else 0.0))
        return v, True
    raise ValueError(kind)


def _weights(rng, n, kind=None):
    kind = kind or rng.choice(["dyadic", "uniform", "uniform", "ones", "zeros"])
    if kind == "dyadic":
        return [rng.randint(4, 8) / 8 for _ in range(n)], True
    if kind == "uniform":
        return [rng.uniform(0.5, 1.0) for _ in range(n)], False
    if kind == "ones":
        return [1.0] * n, True
    w = [0.0 if rng.random() < 0.3 else rng.randint(1, 8) / 8 for _ in range(n)]
    return w, True


def _len(rng, cap=260):
    r = rng.random()
    if r < 0.15:
        return rng.choice([0, 1, 2, 3, 4, 5])
    if r < 0.6:
        return rng.randint(3, 40)
    if r < 0.9:
        return rng.randint(40, min(cap, 130))
    return rng.randint(min(cap, 130), cap)


def _ideal(rng, within=True, prop_levels=None):
    """noise-free step: (values, b, lo, hi, exact)"""
    if within:
        b = rng.randint(32, 120)
        n = b + rng.randint(32, 120)
    else:
        n = rng.randint(4, 90)
        b = rng.randint(1, n - 1)
    if prop_levels is None:
        prop_levels = rng.random() < 0.5
    if prop_levels:
        step = rng.choice([-1.0, 0.585, 1.0])
        lo, hi = (0.0, step) if rng.random() < 0.5 else (step, 0.0)
        exact = step != 0.585
    else:
        lo = _dy(rng, -2, 2, 3)
        hi = lo + rng.choice([-1, 1]) * rng.randint(1, 24) / 8
        exact = True
    return [lo] * b + [hi] * (n - b), b, lo, hi, exact


def gen_fl64(rng, k):
    out = []
    for _ in range(k):
        r = rng.random()
        if r < 0.3:
            x = Fraction(rng.randint(-10 ** 18, 10 ** 18), rng.randint(1, 10 ** 18))
        elif r < 0.6:  # exact ties and their neighbours on the 53-bit grid
            m = rng.randint(2 ** 52, 2 ** 53 - 1)
            e = rng.randint(-60, 10)
            x = (Fraction(m) + Fraction(1, 2) + rng.choice([0, 0, Fraction(1, 10 ** 6), -Fraction(1, 10 ** 6)])) * Fraction(2) ** e
            if rng.random() < 0.5:
                x = -x
        elif r < 0.9:  # the sums FDRThres forms: double + 1e-16
            x = Fraction(rng.choice([rng.uniform(0.01, 4.0), 1.0, 0.5, 2.0, 0.9999999999999999, rng.randint(1, 40) / 8])) + Fraction(1e-16)
        else:
            x = Fraction(rng.choice([0, 1, -1, 3])) / rng.choice([1, 3, 7, 2 ** 60, 10 ** 30]) * Fraction(2) ** rng.randint(-1080, -1000 if rng.random() < 0.5 else 0)
        out.append({"op": "fl64", "tag": "fl64", "in": {"x": frac(x)}})
    return out


def gen_conv(rng, k):
    out = []
    for _ in range(k):
        r = rng.random()
        h = rng.choice([1, 2, 2, 4, 4, 8, 8, 16, 32, 64, 3, 5])
        if r < 0.25:
            sig, b, lo, hi, exact = _ideal(rng, within=rng.random() < 0.8)
            c = {"sig": sig, "h": h, "w": None, "exact": exact, "ideal": {"b": b, "lo": lo, "hi": hi}}
            tag = "conv-ideal"
        else:
            n = _len(rng)
            sig, exact = _signal(rng, n)
            w = None
            tag = "conv"
            if rng.random() < 0.4:
                w, _e = _weights(rng, n)
                exact = False
                tag = "conv-weighted"
            c = {"sig": sig, "h": h, "w": w, "exact": exact}
        out.append({"op": "haar_conv", "tag": tag, "in": c})
    return out


def gen_peaks(rng, k):
    out = []
    for _ in range(k):
        n = _len(rng, 120)
        r = rng.random()
        if r < 0.5:
            sig = [float(rng.randint(-2, 2)) for _ in range(n)]
            # long plateaus
            if n and rng.random() < 0.6:
                sig = [x for x in sig for _ in range(rng.randint(1, 3))][:n]
            tag = "peaks-plateaus"
        elif r < 0.8:
            sig, _ = _signal(rng, n)
            tag = "peaks"
        else:
            h = rng.choice([1, 2, 4, 8])
            s, _ = _signal(rng, n)
            sig = s  # convolved in run_impl
            tag = "peaks-of-conv:%d" % h
        out.append({"op": "find_peaks", "tag": tag, "in": {"sig": sig}})
    return out


def gen_fdr(rng, k):
    out = []
    for _ in range(k):
        m = rng.choice([0, 1, 2, 2, 3, 5, 10, 20, 40])
        scale = rng.choice([0.3, 1.0, 3.0, 6.0])
        if rng.random() < 0.5:
            x = [rng.randint(-int(8 * scale) - 1, int(8 * scale) + 1) / 8 for _ in range(m)]
        else:
            x = [rng.gauss(0, scale) for _ in range(m)]
        q = rng.choice([0.0001, 0.0001, 0.01, 0.5, 0.9, 1.0, 0.0])
        sd = rng.choice([0.0, 0.01, 0.1, 1.0, rng.uniform(0.005, 0.2)])
        out.append({"op": "fdr_thres", "tag": "fdr:M%s" % ("<2" if m < 2 else ">=2"), "in": {"x": x, "q": q, "stdev": sd}})
    return out


def _idx_list(rng, top, sorted_=True):
    k = rng.randint(0, min(top, 12))
    v = rng.sample(range(top), k) if top else []
    if sorted_:
        v.sort()
    elif v and rng.random() < 0.5:
        v.append(rng.choice(v))
    return v


def gen_unify(rng, k):
    out = []
    for _ in range(k):
        top = rng.choice([6, 12, 40, 200])
        ok = rng.random() < 0.85
        out.append({"op": "unify", "tag": "unify" if ok else "unify-unsorted",
                    "in": {"base": _idx_list(rng, top, ok), "addon": _idx_list(rng, top, ok or rng.random() < 0.5),
                           "w": rng.choice([0, 1, 1, 2, 4, 8, 16])}})
    return out


def exhaustive_unify(top=5):
    out = []
    subsets = [[i for i in range(top) if m >> i & 1] for m in range(2 ** top)]
    for b in subsets:
        for a in subsets:
            for w in (0, 1, 2):
                out.append({"op": "unify", "tag": "unify-exhaustive", "in": {"base": b, "addon": a, "w": w}})
    return out


def gen_segs(rng, k):
    out = []
    for _ in range(k):
        n = max(1, _len(rng, 90))
        data, exact = _signal(rng, n)
        w = None
        if rng.random() < 0.5:
            w, e2 = _weights(rng, n)
            exact = False
        r = rng.random()
        if r < 0.8:
            peaks = sorted(rng.sample(range(1, n), min(n - 1, rng.randint(0, 6)))) if n > 1 else []
            tag = "segs"
        else:
            peaks = [rng.randint(0, n + 3) for _ in range(rng.randint(1, 4))]
            tag = "segs-malformed"
        out.append({"op": "seg_by_peaks", "tag": tag, "in": {"data": data, "peaks": peaks, "w": w}})
    return out


def gen_haarseg(rng, k):
    out = []
    for _ in range(k):
        r = rng.random()
        q = rng.choice([0.0001, 0.0001, 0.001, 0.05, 0.5])
        c = {"q": q, "w": None}
        if r < 0.3:
            n = max(1, _len(rng, 220))
            I, exact = _signal(rng, n, rng.choice(["dyadic", "ints", "steps", "noisy-steps", "noisy-steps"]))
            tag = "haarseg-dyadic"
        elif r < 0.45:
            n = max(1, _len(rng, 220))
            I, exact = _signal(rng, n, "float")
            exact = False
            tag = "haarseg-float"
        elif r < 0.8:
            within = rng.random() < 0.8
            I, b, lo, hi, exact = _ideal(rng, within=within)
            tag = "haarseg-ideal" if within else "haarseg-ideal-short"
            if within:
                c["ideal"] = {"b": b, "lo": lo, "hi": hi}
            else:
                c["ideal_excluded"] = {"b": b, "lo": lo, "hi": hi}
        else:
            n = rng.randint(1, 200)
            cst = rng.choice([0.0, 1.0, -0.5, 0.585, -1.0, 0.1])
            I, exact = [cst] * n, True
            c["flat"] = True
            tag = "haarseg-flat"
        if rng.random() < 0.35:
            if "ideal" in c and not (abs(c["ideal"]["hi"] - c["ideal"]["lo"]) >= 0.585):
                # weighted float path: rounding noise makes spurious peaks, small steps are then not claimed
                c["ideal_excluded"] = c.pop("ideal")
            if c.pop("flat", None):
                # weighted float path on a constant: the quotients carry rounding noise, a level with a single noise
                # peak takes threshold 0 (observation Y in the report); outside the property (no noise, any length)
                c["flat_unclaimed"] = True
            c["w"], _e = _weights(rng, len(I), rng.choice(["dyadic", "uniform", "ones"]))
            exact = False
            tag += "-weighted"
        c["I"] = I
        c["exact"] = exact
        out.append({"op": "haar_seg", "tag": tag, "in": c})
    out.append({"op": "haar_seg", "tag": "haarseg-empty", "in": {"I": [], "q": 0.0001, "w": None, "exact": True}})
    return out


# ---- extension (round 4): the weighted path on noise-free steps, window-edge indices, the initial HMM ----------


def _pos_weights(rng, n, kind=None):
    """strictly positive weights: the property's range [0.5, 1] (float / dyadic / all ones) and, because the theorems
    hold for ANY positive weights, wide and spiky ones"""
    kind = kind or rng.choice(["uniform", "uniform", "dyadic", "ones", "wide", "spiky"])
    if kind == "uniform":
        return [rng.uniform(0.5, 1.0) for _ in range(n)], kind
    if kind == "dyadic":
        return [rng.randint(4, 8) / 8 for _ in range(n)], kind
    if kind == "ones":
        return [1.0] * n, kind
    if kind == "wide":
        return [rng.uniform(0.05, 4.0) for _ in range(n)], kind
    return [rng.choice([1.0, 1.0, 1.0, 0.01, 50.0]) for _ in range(n)], kind


def _step_levels(rng, min_abs=0.0):
    if rng.random() < 0.6:
        step = rng.choice([-1.0, 0.585, 1.0])
        return (0.0, step) if rng.random() < 0.5 else (step, 0.0)
    lo = _dy(rng, -2, 2, 3)
    d = rng.choice([-1, 1]) * rng.randint(1, 24) / 8
    while abs(d) < min_abs:
        d = rng.choice([-1, 1]) * rng.randint(1, 24) / 8
    return lo, lo + d


def gen_conv_w_step(rng, k):
    """HaarConv(step, W, h) on noise-free steps with positive weights: mostly inside the hypotheses of
    `haarConvW_ideal_step` (h <= b, b + h <= n), one case in six outside (excluded point: the closed form is not
    claimed there; model and real code must still agree)"""
    out = []
    for _ in range(k):
        h = rng.choice([1, 2, 2, 4, 4, 8, 8, 16, 32, 3, 5])
        if rng.random() < 0.84:
            b = h + rng.choice([0, 0, 1, rng.randint(0, 40)])
            n = b + h + rng.choice([0, 0, 1, rng.randint(0, 40)])
            if n < b + 2:
                n = b + 2
            tag = "convw-step"
        else:
            n = rng.randint(max(2, h), 70)
            b = rng.randint(1, n - 1)
            tag = "convw-step" if (h <= b and b + h <= n) else "convw-step-outside"
        lo, hi = _step_levels(rng)
        w, kind = _pos_weights(rng, n)
        out.append({"op": "haar_conv_w_step", "tag": f"{tag}:{kind}", "in": {"b": b, "n": n, "h": h, "lo": lo, "hi": hi, "w": w}})
    return out


def gen_haarseg_w(rng, k):
    """haarSeg(step, q, W) as one_chrom calls it, on noise-free steps of at least the property's smallest height with
    >= 32 bins a side (hypotheses of `haarSegW_ideal_step`); smaller steps are not generated: in floats the weighted
    quotients leave rounding-noise peaks and FDRThres then keeps a level's largest peak only if its normalised
    response reaches 1 (observation Z)"""
    out = []
    for _ in range(k):
        b = rng.randint(32, 110)
        n = b + rng.randint(32, 110)
        lo, hi = _step_levels(rng, min_abs=0.585)
        w, kind = _pos_weights(rng, n, rng.choice(["uniform", "uniform", "dyadic", "ones", "wide"]))
        out.append({"op": "haar_seg_w", "tag": f"haarsegw-ideal:{kind}",
                    "in": {"b": b, "n": n, "lo": lo, "hi": hi, "w": w, "q": rng.choice([0.0001, 0.0001, 0.001, 0.05])}})
    return out


def gen_idx(rng, k):
    out = []
    for _ in range(k):
        n = rng.choice([1, 2, 3, 5, 8, rng.randint(2, 90)])
        h = rng.choice([1, 2, 3, 4, 5, 8, 16, 32, n, max(1, n - 1), n + 1])
        out.append({"op": "haar_idx", "tag": "idx" + ("-weighted" if rng.random() < 0.5 else "") + (":h>n" if h > n else ""),
                    "in": {"n": n, "h": h}})
    return out


def _r6(v):
    """a value the 6-significant-digit table files carry exactly"""
    return float("%.6g" % v)


def _chrom(rng, flat, hardest=False, name="chr1", flat_level=0.0, arm_gap=False, quiet=False):
    """one chromosome of a profile.  flat: `flat_level` throughout (b = None), optionally with one centromere-sized
    gap; otherwise one step at bin b, optionally (arm_gap) with a centromere-sized gap at bin `gap` >= 100 bins away
    from the step and inside the margins of GenomicArray.by_arm, so that the step's arm keeps >= 100 bins a side.
    hardest / quiet: the two ends of the noise range (sd 0.1 with the shortest sides and smallest step; sd 0.01)"""
    if flat:
        n = rng.randint(100, 600) if not hardest else rng.choice([100, 600])
        b, lo, hi = None, flat_level, flat_level
    else:
        nl, nr = rng.randint(100, 400), rng.randint(100, 400)
        if hardest:   # boundary of the quantifier: shortest sides, smallest step
            nl, nr = rng.choice([(100, 100), (100, 400), (400, 100)])
        n, b = nl + nr, nl
        step = rng.choice([-1.0, 0.585, 1.0]) if not hardest else 0.585
        lo, hi = (0.0, step) if rng.random() < 0.5 else (step, 0.0)
    sd = rng.uniform(0.01, 0.1) if not hardest else 0.1
    if quiet:
        sd = 0.01
    pos = rng.randint(0, 100000)
    gap_at = rng.randint(60, n - 60) if (flat and rng.random() < 0.15 and n > 130) else -1
    gap = None
    margin = max(50, int(round(0.1 * n)))   # by_arm looks for the centromere at bins margin+1 .. n-margin-1
    if flat and margin + 1 <= gap_at < n - margin:
        gap = gap_at
    if arm_gap and not flat:
        cand = [g for g in range(margin + 1, n - margin) if abs(g - b) >= 100]
        if cand:
            gap = gap_at = rng.choice(cand)
    bins = []
    for i in range(n):
        pos += rng.randint(0, 5000)
        if i == gap_at:
            pos += rng.randint(150000, 3000000)
        sz = rng.randint(50, 1000)
        v = (lo if (b is None or i < b) else hi) + rng.gauss(0, sd)
        bins.append([pos, sz, round(v, 6), round(rng.uniform(0.5, 1.0), 4)])
        pos += sz
    c = {"name": name, "b": b, "lo": lo, "hi": hi, "sd": round(sd, 4), "bins": bins}
    if gap is not None:
        c["gap"] = gap
    return c


def _profile(rng, force_flat=None, hardest=False):
    nchr = rng.randint(1, 3)
    flat = rng.random() < 0.25 if force_flat is None else force_flat
    return [_chrom(rng, flat, hardest, "chr%d" % (c + 1)) for c in range(nchr)]


# chromosome naming schemes; the names are drawn without replacement IN RANDOM ORDER, so tables also come with
# their chromosomes unsorted.  hmm_get_model trains on `autosomes()` only: schemes without any autosome (the
# fallback "no integer names: take everything") and with the step on a sex chromosome next to a flat autosome matter
NAME_SCHEMES = [
    (30, ["chr1", "chr2", "chr3"]),
    (10, ["1", "2", "3"]),
    (8, ["chr10", "chr21", "chr22", "chr9"]),
    (10, ["chrX", "chrY", "chrM"]),
    (6, ["X", "Y", "MT"]),
    (14, ["chr1", "chrX", "chrY", "chr7"]),
    (6, ["1", "X", "22"]),
    (6, ["chr1_gl000191_random", "chrUn_gl000211", "HLA-A", "chr4"]),
    (5, ["CHR1", "Chr2", "chr03"]),
    (5, ["chr11", "chr2", "chr1"]),
]


def _names(rng, n, in_order=False):
    r = rng.random() * sum(w for w, _ in NAME_SCHEMES)
    for w, pool in NAME_SCHEMES:
        r -= w
        if r < 0:
            break
    if in_order:
        return pool[:n]
    return rng.sample(pool, n)


def _oracle_profile(rng, hardest=False, quiet=False):
    """(kind, chroms): all chromosomes with a step ('step'), all flat ('flat'), or both sorts in one sample
    ('mixed'); flat chromosomes sit at 0 or (one in four) at another level the property names"""
    r = rng.random()
    kind = "flat" if r < 0.2 else ("mixed" if r < 0.42 else "step")
    nchr = rng.randint(2, 3) if kind == "mixed" else rng.randint(1, 3)
    if kind == "mixed":
        flats = [True, False] + [rng.random() < 0.5 for _ in range(nchr - 2)]
        rng.shuffle(flats)
    else:
        flats = [kind == "flat"] * nchr
    names = _names(rng, nchr, in_order=rng.random() < 0.4)
    chroms = []
    for f, name in zip(flats, names):
        lvl = rng.choice([-1.0, 0.585, 1.0]) if (f and rng.random() < 0.25) else 0.0
        chroms.append(_chrom(rng, f, hardest, name, flat_level=lvl, arm_gap=rng.random() < 0.15, quiet=quiet))
    return kind, chroms


def _oracle_variant(rng, method, cli):
    """how the profile reaches the code.  API: representation of the table (`rep`) and keyword arguments that are
    given explicitly with a value that drops no bin of a property-sized profile (`opts`); CLI: the flags.
    rep 'w1': a `weight` column of integer dtype, all 1 (a .cnr whose weights are all `1` is read back as int64; finding
    AT, fixed).  A table without `weight` column is outside the quantifier (do_segmentation needs the column)"""
    if cli:
        o = {"short": rng.random() < 0.5}
        if rng.random() < 0.5:
            o["drop_low"] = True
        o["outliers"] = rng.choice([None, None, 10, 0])       # None: left to the parser's default (10); 0: filter off
        o["processes"] = rng.choice([None, None, 1, 2, 3, 0])  # None: parser's default (1); 0: bare -p = all CPUs
        if method == "haar":
            o["threshold"] = rng.choice([None, None, 0.0001])   # the default q, given explicitly
        else:
            o["threshold"] = rng.choice([None, None, "window"])  # the default smoothing window, given explicitly
        if rng.random() < 0.15:
            o["no_output"] = True    # no -o: <sample_id>.cns in the working directory
        if rng.random() < 0.15:
            o["parx"] = rng.choice(["grch38", "grch37"])   # PAR bins of X (if any) join the HMM's training set
        # -d: the (empty, no R here) raw dataframe goes to a second file.  hmm-germline only: with haar and two or more
        # chromosome arms `segment -d` raises ValueError on /repo (proposed_fixes/C11-cli-dataframe-haar.md); once that
        # is repaired the restriction to hmm-germline should go
        if method != "haar" and rng.random() < 0.2:
            o["dataframe"] = True
        return None, o
    rep = rng.choice([None, None, None, "sub", "sub", "nodepth", "extra", "reuse", "w1"])
    o = {}
    r = rng.random()
    if r < 0.10:
        o["processes"] = rng.choice([2, 3])
    elif r < 0.20:
        o["skip_low"] = True
    elif r < 0.30:
        o["skip_outliers"] = rng.choice([10, 0])
    elif r < 0.38:
        o["min_weight"] = rng.choice([0.3, 0.5])
    elif r < 0.46 and method == "haar":
        o["threshold"] = 0.0001
    elif r < 0.56:
        o["diploid_parx_genome"] = rng.choice(["grch38", "grch37"])   # PAR bins of X (if any) join the HMM's training set
    return rep, o


def gen_oracle(rng, k):
    """every profile runs through both methods; about one profile in six goes through `cnvkit.py segment`"""
    out = []
    for j in range(k):
        kind, chroms = _oracle_profile(rng, hardest=(j % 10 == 0), quiet=(j % 10 == 5))
        cli = j % 6 == 0
        if cli:
            for c in chroms:
                for b in c["bins"]:
                    b[2] = _r6(b[2])
        for method in ("haar", "hmm-germline"):
            rep, opts = _oracle_variant(rng, method, cli)
            i = {"method": method, "chroms": chroms}
            if rep:
                i["rep"] = rep
            if opts:
                i["opts"] = opts
            if cli:
                i["cli"] = True
            out.append({"op": "oracle", "tag": ("cli-" if cli else "") + f"oracle-{method}-{kind}", "in": i})
    return out


def gen_cases(rng, tier):
    sizes = {
        "quick": dict(fl=300, conv=500, peaks=600, fdr=400, unify=1200, segs=400, hs=300, oracle=450, cw=160, hsw=120, idx=60, fz=300),
        "thorough": dict(fl=3000, conv=4000, peaks=5000, fdr=3000, unify=6000, segs=3000, hs=2500, oracle=4000, cw=1200, hsw=900, idx=400, fz=3000),
        "search": dict(fl=100, conv=300, peaks=300, fdr=200, unify=300, segs=200, hs=300, oracle=300, cw=150, hsw=100, idx=40, fz=150),
    }[tier]
    import os as _os
    if _os.environ.get("VERIF_C11_ORACLE"):   # development switch (mutation self-tests on a loaded machine): fewer oracle profiles
        sizes["oracle"] = int(_os.environ["VERIF_C11_ORACLE"])
    cases = [{"op": "consts", "tag": "consts", "in": {}}, {"op": "hmm_init", "tag": "hmm-init", "in": {}}]
    # the extension draws from its own generator (seeded from the run's), so that the cases of the earlier ops
    # keep their numbering
    import random as _random
    xr = _random.Random(rng.getrandbits(64))
    ext = gen_conv_w_step(xr, sizes["cw"]) + gen_haarseg_w(xr, sizes["hsw"]) + gen_idx(xr, sizes["idx"])
    ext += _hmmx.gen()
    ext += _fdrx.gen_fdr_cdf(_random.Random(xr.getrandbits(64)), sizes["fz"])   # after the older extension ops: their draws stay as they were
    cases += gen_fl64(rng, sizes["fl"])
    cases += gen_conv(rng, sizes["conv"])
    cases += gen_peaks(rng, sizes["peaks"])
    cases += gen_fdr(rng, sizes["fdr"])
    cases += gen_unify(rng, sizes["unify"])
    if tier == "thorough":
        cases += exhaustive_unify(5)
    cases += gen_segs(rng, sizes["segs"])
    cases += gen_haarseg(rng, sizes["hs"])
    cases += gen_oracle(rng, sizes["oracle"])
    return cases + ext


def corpus():
    out = list(_fdrx.corpus())
    # boundary of the ideal-step theorem: b = 32 = n - b, every level one peak
    for lo, hi in ((0.0, -1.0), (0.585, 0.0), (0.0, 1.0), (0.25, 0.125)):
        I = [lo] * 32 + [hi] * 32
        out.append({"op": "haar_seg", "tag": "corpus-ideal-32", "in": {"I": I, "q": 0.0001, "w": None, "exact": hi != 0.585 and lo != 0.585,
                                                                     "ideal": {"b": 32, "lo": lo, "hi": hi}}})
    # plateau logic of FindLocalPeaks: suspect set, confirmed, cancelled
    for sig in ([0, 1, 1, 0], [0, 1, 1, 2, 0], [0, -1, -1, 0], [0, -1, -1, -2, 0], [1, 1, 0, 1, 1], [0, 1, 1, 1, 0, 2, 2, 0],
                [0, 1, 1, -1, -1, 0], [0, 2, 1, 1, 0]):
        out.append({"op": "find_peaks", "tag": "corpus-plateau", "in": {"sig": [float(x) for x in sig]}})
    # FDRThres: no p-value passes; the +1e-16 bump vanishes in float for x0 >= 1 and survives below
    for x in ([1.0, 0.5, 0.25], [0.75, 0.5, 0.25], [2.34, 0.2, 0.1], [0.9999999999999999, 0.5]):
        out.append({"op": "fdr_thres", "tag": "corpus-fdr-bump", "in": {"x": x, "q": 0.0001, "stdev": 0.01}})
    out.append({"op": "unify", "tag": "corpus-unify", "in": {"base": [10], "addon": [8, 9, 10, 11, 12, 13], "w": 2}})
    out.append({"op": "unify", "tag": "corpus-unify", "in": {"base": [], "addon": [3, 1], "w": 1}})
    # observation Y: a constant weighted signal of 14 bins is split by the real code (rounding noise of the weighted
    # quotients + threshold 0 for a single noise peak); no clause is claimed there, the level loop must still agree
    out.append({"op": "haar_seg", "tag": "corpus-Y-flat-weighted", "in": {
        "I": [0.585] * 14, "q": 0.0001, "exact": False, "flat_unclaimed": True,
        "w": [0.75, 1.0, 0.5, 0.625, 0.875, 1.0, 0.5, 0.75, 0.625, 1.0, 0.875, 0.5, 0.75, 1.0]}})
    # boundary of the weighted ideal-step theorems: h = b = n - b; the lightest and the heaviest bin next to the step
    for h in (1, 2, 32):
        out.append({"op": "haar_conv_w_step", "tag": "corpus-convw-boundary", "in": {
            "b": h, "n": 2 * h if h > 1 else 3, "h": h, "lo": 0.0, "hi": 0.585, "w": ([1.0, 0.5] * h)[: (2 * h if h > 1 else 3)] if h > 1 else [1.0, 0.5, 1.0]}})
    out.append({"op": "haar_conv_w_step", "tag": "corpus-convw-spiky", "in": {
        "b": 8, "n": 16, "h": 4, "lo": 0.0, "hi": -1.0, "w": [1.0] * 7 + [0.01, 50.0] + [1.0] * 7}})
    out.append({"op": "haar_seg_w", "tag": "corpus-haarsegw-32", "in": {
        "b": 32, "n": 64, "lo": 0.0, "hi": 0.585, "w": [0.5 + (i % 5) / 8 for i in range(64)], "q": 0.0001}})
    out.append({"op": "haar_idx", "tag": "corpus-idx", "in": {"n": 10, "h": 4}})
    out.append({"op": "haar_idx", "tag": "corpus-idx-weighted", "in": {"n": 9, "h": 9}})
    # boundary of the quantifier for the oracle: 100 bins a side, sd 0.1, smallest claimed step
    import random
    r = random.Random(11)
    for _ in range(3):
        chroms = _profile(r, force_flat=False, hardest=True)
        for method in ("haar", "hmm-germline"):
            out.append({"op": "oracle", "tag": f"corpus-oracle-hardest-{method}", "in": {"method": method, "chroms": chroms}})
    # the same boundary through `cnvkit.py segment` with every flag spelled out, on a sample without autosomes whose
    # step chromosome has a centromere gap and whose flat chromosome sits at -1; and as a filtered-subset table
    r = random.Random(12)
    chroms = [_chrom(r, False, True, "chrX", arm_gap=True), _chrom(r, True, True, "chrY", flat_level=-1.0)]
    for c in chroms:
        for b in c["bins"]:
            b[2] = _r6(b[2])
    for method in ("haar", "hmm-germline"):
        opts = {"short": method == "haar", "drop_low": True, "outliers": 10, "processes": 2, "parx": "grch38",
                "threshold": 0.0001 if method == "haar" else "window"}
        if method != "haar":   # see _oracle_variant
            opts["dataframe"] = True
        out.append({"op": "oracle", "tag": f"cli-corpus-oracle-{method}", "in": {"method": method, "chroms": chroms, "cli": True, "opts": opts}})
        out.append({"op": "oracle", "tag": f"corpus-oracle-sub-{method}", "in": {"method": method, "chroms": chroms, "rep": "sub"}})
    return out


# ---------------------------------------------------------------------------------------------
# the real code


def _fl(xs):
    return [frac(float(x)) if math.isfinite(float(x)) else NAN for x in xs]


def _cna(chroms, rep=None):
    """the profile as a CopyNumArray.  rep: 'sub' = the same table as a filtered subset of a larger one (junk rows
    interleaved and masked out: the pandas index labels are no longer 0..n-1), 'nodepth' = no depth column,
    'extra' = further columns in another column order"""
    import random
    import numpy as np
    from cnvlib.cnary import CopyNumArray as CNA
    rows = []
    for c in chroms:
        for pos, sz, v, w in c["bins"]:
            rows.append((c["name"], pos, pos + sz, "G", v, w, 10.0))
    cols = ["chromosome", "start", "end", "gene", "log2", "weight", "depth"]
    meta = {"sample_id": "S"}
    if rep == "sub":
        r = random.Random(len(rows))
        big, mask = [(rows[0][0], rows[0][1], rows[0][2], "junk", 3.0, 0.7, 1.0)], [False]
        for row in rows:
            big.append(row)
            mask.append(True)
            for _ in range(r.choice([0, 0, 1, 2])):
                big.append((row[0], row[1], row[2], "junk", r.choice([3.0, -3.0]), 0.7, 1.0))
                mask.append(False)
        return CNA.from_rows(big, columns=cols, meta_dict=meta)[np.array(mask)]
    if rep == "w1":
        # every weight 1, held in an INTEGER column: what a .cnr whose weights are all 1 looks like after a round trip
        # through a file ("1.0" is written as "1").  Finding AT (the weighted smoother raised on it), fixed acb9790
        arr = CNA.from_rows([row[:5] + (1,) + row[6:] for row in rows], columns=cols, meta_dict=meta)
        arr.data["weight"] = arr.data["weight"].astype("int64")
        return arr
    if rep == "nodepth":
        return CNA.from_rows([row[:6] for row in rows], columns=cols[:6], meta_dict=meta)
    if rep == "extra":
        return CNA.from_rows([(row[0], row[1], row[2], 0.45, row[3], row[6], row[5], row[4], 0.1) for row in rows],
                             columns=["chromosome", "start", "end", "gc", "gene", "depth", "weight", "log2", "spread"],
                             meta_dict=meta)
    return CNA.from_rows(rows, columns=cols, meta_dict=meta)


def _oracle_cli(i):
    """the profile through `cnvkit.py segment`: write the .cnr (column order of `fix`), parse the command line, run
    the command, take the table it hands to the writer and check that the written .cns reads back equal to it.
    Returns (bins as read, segments).  The log2 values of a CLI case carry 6 significant digits, so the file is exact."""
    import logging
    import os
    import shutil
    import tempfile
    import numpy as np
    from cnvlib import commands, smoothing
    from cnvlib.cmdutil import read_cna
    from cnvlib.cnary import CopyNumArray as CNA
    from skgenome import tabio
    o = i.get("opts") or {}
    d = tempfile.mkdtemp(dir="/var/tmp", prefix="c11cli")
    try:
        fin, fout = os.path.join(d, "S.cnr"), os.path.join(d, "out", "S.cns")
        os.mkdir(os.path.join(d, "out"))
        os.mkdir(os.path.join(d, "cwd"))
        rows = []
        for c in i["chroms"]:
            for pos, sz, v, w in c["bins"]:
                rows.append((c["name"], pos, pos + sz, "G", 10.0, v, w))
        tabio.write(CNA.from_rows(rows, columns=["chromosome", "start", "end", "gene", "depth", "log2", "weight"],
                                  meta_dict={"sample_id": "S"}), fin)
        cna = read_cna(fin)
        for c in i["chroms"]:
            sub = cna.data[cna.data["chromosome"] == c["name"]]
            got = [[int(s), int(e) - int(s), float(v), float(w)] for s, e, v, w in zip(sub["start"], sub["end"], sub["log2"], sub["weight"])]
            if got != [list(b) for b in c["bins"]]:
                raise AssertionError("harness: the written .cnr does not read back as the generated bins")
        short = o.get("short")
        argv = ["segment", fin, "-m" if short else "--method", i["method"]]
        if not o.get("no_output"):
            argv += ["-o" if short else "--output", fout]
        if o.get("drop_low"):
            argv.append("--drop-low-coverage")
        if o.get("outliers") is not None:
            argv += ["--drop-outliers", "%g" % o["outliers"]]
        if o.get("parx"):
            argv += ["--diploid-parx-genome", o["parx"]]
        fdf = os.path.join(d, "out", "S.dataframe.txt")
        if o.get("dataframe"):
            argv += ["-d" if short else "--dataframe", fdf]
        thr = o.get("threshold")
        if thr == "window":   # what smooth_log2 would choose by itself, spelled out
            thr = smoothing.guess_window_size(cna.log2, weights=cna["weight"])
        if thr is not None:
            argv += ["-t" if short else "--threshold", repr(thr)]
        if o.get("processes") == 0:     # bare -p goes last: it must not swallow the file name
            argv.append("-p" if short else "--processes")
        elif o.get("processes") is not None:
            argv += ["-p" if short else "--processes", str(o["processes"])]
        captured = []

        class _Tab:
            def __getattr__(self, name):
                return getattr(tabio, name)

            def write(self, garr, outfname=None, *a, **k):
                captured.append((garr, outfname))
                return tabio.write(garr, outfname, *a, **k)
        saved = commands.tabio
        commands.tabio = _Tab()
        quiet = logging.root.manager.disable  # the harness workers already run with logging disabled: restore, not reset
        logging.disable(logging.CRITICAL)
        cwd = os.getcwd()
        os.chdir(os.path.join(d, "cwd"))  # a default output name must not land in the harness directory
        try:
            np.random.seed(20240911)
            args = commands.parse_args(argv)
            args.func(args)
        finally:
            os.chdir(cwd)
            logging.disable(quiet)
            commands.tabio = saved
        want = "S.cns" if o.get("no_output") else fout
        if o.get("no_output"):
            fout = os.path.join(d, "cwd", "S.cns")
        nfiles = len(os.listdir(os.path.join(d, "cwd"))) + len(os.listdir(os.path.join(d, "out")))
        if (len(captured) != 1 or captured[0][1] != want or not os.path.exists(fout)
                or nfiles != (2 if o.get("dataframe") else 1) or os.path.exists(fdf) != bool(o.get("dataframe"))):
            raise AssertionError("cnvkit.py segment did not write exactly one table, to the requested output")
        seg = captured[0][0]
        back = read_cna(fout)
        cols = ("chromosome", "start", "end", "gene", "log2", "probes", "weight", "depth")
        if len(back) != len(seg) or any(c not in back for c in cols):
            raise AssertionError("the written .cns does not read back as the table segment computed (shape)")
        order = {name: k for k, name in enumerate(back.chromosome.unique())}
        sd = seg.data.assign(_o=seg.data["chromosome"].map(order)).sort_values(["_o", "start"], kind="stable")
        for c in cols:
            for a, b in zip(back[c], sd[c]):
                if c in ("chromosome", "gene"):
                    ok = str(a) == str(b)
                elif c in ("start", "end", "probes"):
                    ok = int(a) == int(b)
                else:
                    ok = abs(float(a) - float(b)) <= 1e-5 * max(1e-300, abs(float(b)))
                if not ok:
                    raise AssertionError(f"the written .cns does not read back as the table segment computed ({c}: {a!r} vs {b!r})")
        return cna, seg
    finally:
        shutil.rmtree(d, ignore_errors=True)


def _oracle_api(i, cna):
    import numpy as np
    from cnvlib import segmentation
    o = i.get("opts") or {}
    kw = {k: o[k] for k in ("processes", "skip_low", "skip_outliers", "min_weight", "threshold", "diploid_parx_genome") if k in o}
    if i.get("cli"):     # the API call a CLI case is compared with
        kw = {"skip_low": bool(o.get("drop_low"))}
        if o.get("processes") is not None:
            kw["processes"] = o["processes"]
        if o.get("outliers") is not None:
            kw["skip_outliers"] = o["outliers"]
        if o.get("threshold") == 0.0001:
            kw["threshold"] = 0.0001
        if o.get("parx"):
            kw["diploid_parx_genome"] = o["parx"]
    if i.get("rep") == "reuse":   # the object has been through the other method before
        np.random.seed(20240911)
        segmentation.do_segmentation(cna, "hmm-germline" if i["method"] == "haar" else "haar")
    np.random.seed(20240911)
    return segmentation.do_segmentation(cna, i["method"], **kw)


def _oracle_segs(seg, chroms):
    d = seg.data
    out = []
    for c in chroms:
        s = d[d["chromosome"] == c["name"]]
        out.append([[int(s["start"].iat[k]), int(s["end"].iat[k]), frac(float(s["log2"].iat[k])),
                     int(s["probes"].iat[k])] for k in range(len(s))])
    return out


def _haarseg_inputs(I, q, W):
    """per-level normalisers, real convolutions and the p-values FDRThres forms (same formulas as the source)"""
    import numpy as np
    import pandas as pd
    from scipy import stats
    from cnvlib.segmentation import haar
    diffI = pd.Series(haar.HaarConv(I, None, 1))
    sigma = 0.0 if len(diffI) == 0 else diffI.abs().median() * 1.4826
    norms, convs, ps = [], [], []
    for level in LEVELS:
        h = 2 ** level
        norms.append(frac(math.sqrt(h / 2) if W is not None else math.sqrt(2.0 * h)))
        conv = haar.HaarConv(I, W, h)
        pk = haar.FindLocalPeaks(conv)
        xs = np.sort(np.abs(conv[pk]))[::-1] if len(pk) else np.array([])
        p = 2 * (1 - stats.norm.cdf(xs, sigma)) if len(xs) else []
        convs.append(_fl(conv))
        ps.append(_fl(p))
    return norms, convs, ps


def run_impl(case):
    import numpy as np
    from cnvlib.segmentation import haar
    op, i = case["op"], case["in"]
    if op == "fdr_cdf":
        return _fdrx.run_impl(case)
    if op == "hmm_states":
        return _hmmx.run_impl(case, _cna)
    if op == "fl64":
        return frac(float(Fraction(i["x"])))
    if op == "haar_conv":
        sig = np.array(i["sig"], dtype=float)
        w = None if i["w"] is None else np.array(i["w"], dtype=float)
        return _fl(haar.HaarConv(sig, w, i["h"]))
    if op == "find_peaks":
        sig = np.array(i["sig"], dtype=float)
        if case["tag"].startswith("peaks-of-conv"):
            sig = haar.HaarConv(sig, None, int(case["tag"].split(":")[1]))
        return {"sig": _fl(sig), "peaks": [int(k) for k in haar.FindLocalPeaks(sig)]}
    if op == "fdr_thres":
        from scipy import stats
        x = np.array(i["x"], dtype=float)
        xs = np.sort(np.abs(x))[::-1]
        p = 2 * (1 - stats.norm.cdf(xs, i["stdev"])) if len(xs) else []
        return {"T": frac(float(haar.FDRThres(x, i["q"], i["stdev"]))), "p": _fl(p)}
    if op == "unify":
        r = haar.UnifyLevels(np.array(i["base"], dtype=np.int_), np.array(i["addon"], dtype=np.int_), i["w"])
        return [int(v) for v in r]
    if op == "seg_by_peaks":
        data = np.array(i["data"], dtype=float)
        w = None if i["w"] is None else np.array(i["w"], dtype=float)
        return _fl(haar.SegmentByPeaks(data, np.array(i["peaks"], dtype=np.int_), w))
    if op == "haar_seg":
        I = np.array(i["I"], dtype=float)
        W = None if i["w"] is None else np.array(i["w"], dtype=float)
        res = haar.haarSeg(I, i["q"], W=W)
        norms, convs, ps = _haarseg_inputs(I, i["q"], W)
        return {"table": {"start": [int(v) for v in res["start"]], "end": [int(v) for v in res["end"]],
                          "size": [int(v) for v in res["size"]], "mean": _fl(res["mean"])},
                "norms": norms, "convs": convs, "ps": ps}
    if op == "oracle":
        res = {}
        if i.get("cli"):
            cna, seg = _oracle_cli(i)
            segs = _oracle_segs(seg, i["chroms"])
            # the same profile through the API: flags whose value equals the default must change nothing
            api = _oracle_segs(_oracle_api(i, _cna(i["chroms"])), i["chroms"])
            same = len(api) == len(segs) and all(
                len(a) == len(b) and all(x[:2] == y[:2] and x[3] == y[3] and _same(x[2], y[2], False) for x, y in zip(a, b))
                for a, b in zip(segs, api))
            res["cli_same"] = True if same else "command line %s vs API %s" % (str(segs)[:200], str(api)[:200])
        else:
            cna = _cna(i["chroms"], i.get("rep"))
            seg = _oracle_api(i, cna)
            segs = _oracle_segs(seg, i["chroms"])
        arms = {}
        for c, sub in cna.by_arm():
            arms.setdefault(c, []).append(len(sub))
        res.update({"segs": segs, "arms": [len(arms.get(c["name"], [])) for c in i["chroms"]],
                    "arm_bins": [arms.get(c["name"], []) for c in i["chroms"]]})
        return res
    if op == "consts":
        return _observe_consts()
    if op == "haar_conv_w_step":
        sig = np.array([i["lo"]] * i["b"] + [i["hi"]] * (i["n"] - i["b"]), dtype=float)
        return _fl(haar.HaarConv(sig, np.array(i["w"], dtype=float), i["h"]))
    if op == "haar_seg_w":
        I = np.array([i["lo"]] * i["b"] + [i["hi"]] * (i["n"] - i["b"]), dtype=float)
        res = haar.haarSeg(I, i["q"], W=np.array(i["w"], dtype=float))
        return {"table": {"start": [int(v) for v in res["start"]], "end": [int(v) for v in res["end"]],
                          "size": [int(v) for v in res["size"]], "mean": _fl(res["mean"])}}
    if op == "haar_idx":
        return _observe_indices(i["n"], i["h"], "weighted" in case["tag"])
    if op == "hmm_init":
        return _observe_hmm_init()
    raise ValueError(op)


class _Rec:
    """a sequence that records which elements are read"""

    def __init__(self, n, value):
        self.n, self.value, self.log = n, value, []

    def __len__(self):
        return self.n

    def __getitem__(self, i):
        import numpy as np
        if isinstance(i, slice):
            return np.full(len(range(*i.indices(self.n))), self.value)
        self.log.append(int(i))
        return self.value


def _observe_indices(n, h, weighted):
    """the elements the real HaarConv loop reads at every k, as SETS (any order, any repetition): one row per
    k = 1 .. n-1, the sorted distinct indices read from `signal` (and, weighted, from `weight`) during that iteration.
    The reads are attributed to iterations by count (the same number of reads in every iteration); a loop that reads
    in another pattern gives {"pattern": "unknown"}, which is not judged"""
    from cnvlib.segmentation import haar
    sig = _Rec(n, 0.0)
    wt = _Rec(n, 1.0) if weighted else None
    haar.HaarConv(sig, wt, h)
    its = n - 1
    logs = [sig.log] + ([wt.log] if weighted else [])
    if h > n or its <= 0:
        return {"rows": [], "reads": [len(l) for l in logs]}
    if any(len(l) == 0 or len(l) % its for l in logs):
        return {"pattern": "unknown", "reads": [len(l) for l in logs]}
    rows = []
    for j in range(its):
        per = [sorted(set(l[j * (len(l) // its):(j + 1) * (len(l) // its)])) for l in logs]
        if weighted and per[0] != per[1]:
            return {"pattern": "unknown", "reads": [len(l) for l in logs]}
        rows.append(per[0])
    return {"rows": rows, "reads": [len(l) for l in logs]}


def _observe_hmm_init():
    """what hmm_get_model(..., 'hmm-germline') really hands to pomegranate's from_matrix"""
    import random
    import numpy as np
    from cnvlib.segmentation import hmm
    seen = {}
    real = hmm.pom

    class _HMM:
        @staticmethod
        def from_matrix(*a, **k):
            seen["args"] = a
            seen["kw"] = sorted(k)
            return real.HiddenMarkovModel.from_matrix(*a, **k)

    class _Pom:
        HiddenMarkovModel = _HMM

        def __getattr__(self, name):
            return getattr(real, name)

    r = random.Random(7)
    chroms = [{"name": "chr1", "bins": [[1000 * k, 500, (0.0 if k < 120 else -1.0) + r.gauss(0, 0.05), 1.0] for k in range(240)]}]
    hmm.pom = _Pom()
    try:
        hmm.hmm_get_model(_cna(chroms), "hmm-germline", None, 1)
    finally:
        hmm.pom = real
    trans, dists, start = seen["args"][:3]
    return {"start": _fl(np.asarray(start, dtype=float)), "trans": [_fl(row) for row in np.asarray(trans, dtype=float)],
            "n_dists": len(dists), "kw": seen["kw"]}


def _observe_consts():
    """the level loop as it runs (arguments of HaarConv / UnifyLevels recorded through wrappers of the module
    attributes) and the state means of the fitted hmm-germline model"""
    import numpy as np
    from cnvlib.segmentation import haar, hmm
    seen = []
    conv0, uni0 = haar.HaarConv, haar.UnifyLevels

    def conv(sig, w, h):
        seen.append(["conv", int(h)])
        return conv0(sig, w, h)

    def uni(base, addon, w):
        seen.append(["unify", int(w)])
        return uni0(base, addon, w)

    haar.HaarConv, haar.UnifyLevels = conv, uni
    try:
        haar.haarSeg(np.array([0.0] * 40 + [1.0] * 40), 0.0001)
    finally:
        haar.HaarConv, haar.UnifyLevels = conv0, uni0
    convs = [h for k, h in seen if k == "conv"][1:]  # the first call is the diff estimate (stepHalfSize 1)
    unis = [w for k, w in seen if k == "unify"]
    import random
    r = random.Random(5)
    chroms = [{"name": "chr1", "bins": [[1000 * k, 500, (0.0 if k < 150 else -1.0) + r.gauss(0, 0.05), 1.0] for k in range(300)]},
              {"name": "chr2", "bins": [[1000 * k, 500, (0.0 if k < 150 else 0.585) + r.gauss(0, 0.05), 1.0] for k in range(300)]}]
    model = hmm.hmm_get_model(_cna(chroms), "hmm-germline", None, 1)
    by_name = {st.name: st.distribution.parameters[0] for st in model.states if st.distribution is not None}
    means = [frac(float(by_name[k])) for k in ("loss", "neutral", "gain") if k in by_name]   # pomegranate orders states by name
    return {"levels": [[h, w] for h, w in zip(convs, unis)], "first_conv": [h for k, h in seen if k == "conv"][:1],
            "n_conv": len(convs), "n_unify": len(unis), "germline_means": means}


# ---------------------------------------------------------------------------------------------
# lines for the Lean driver


def _q(xs):
    return [frac(x) for x in xs]


def _oracle_units(i, impl):
    """the units the property's clauses are evaluated on: one per chromosome, except that a chromosome with a step
    AND a centromere-sized gap (which by_arm really splits in two, at the generated bin) gives one unit per arm --
    the arm with the step (>= 100 bins a side within the arm) and a flat arm; the reported segments go to the arm
    they start in.  Each unit: name, starts, b, lo, hi, arms, [unclaimed], segs"""
    units = []
    for k, c in enumerate(i["chroms"]):
        starts = [b[0] for b in c["bins"]]
        segs = [] if impl is None else impl["segs"][k]
        arms = 1 if impl is None else impl["arms"][k]
        unclaimed = i["method"] != "haar" and 1.0 in (c["lo"], c["hi"])   # 0/+1 is claimed for haar only
        g = c.get("gap")
        first = len(units)
        if c["b"] is not None and g is not None and impl is not None and impl["arm_bins"][k] == [g, len(starts) - g]:
            left = [s for s in segs if s[0] < starts[g]]
            right = [s for s in segs if s[0] >= starts[g]]
            if c["b"] < g:
                parts = [(starts[:g], c["b"], c["lo"], c["hi"], left), (starts[g:], None, c["hi"], c["hi"], right)]
            else:
                parts = [(starts[:g], None, c["lo"], c["lo"], left), (starts[g:], c["b"] - g, c["lo"], c["hi"], right)]
            for arm, (st, b, lo, hi, sg) in enumerate(parts):
                units.append({"name": "%s:arm%d" % (c["name"], arm), "starts": st, "b": b, "lo": frac(lo), "hi": frac(hi),
                              "arms": 1, "segs": sg})
        else:
            units.append({"name": c["name"], "starts": starts, "b": c["b"], "lo": frac(c["lo"]), "hi": frac(c["hi"]),
                          "arms": arms, "segs": segs})
        if unclaimed:
            for u in units[first:]:
                u["unclaimed"] = True
    return units


def to_line(case, impl):
    op, i = case["op"], case["in"]
    err = isinstance(impl, dict) and "__error__" in impl
    if op == "fdr_cdf":
        return _fdrx.to_line(case, impl)
    if op == "hmm_states":
        return _hmmx.to_line(case, impl)
    if op == "fl64":
        return {"op": op, "in": i, "impl": None}
    if op == "haar_conv":
        weighted = i["w"] is not None
        h = i["h"]
        inp = {"sig": _q(i["sig"]), "h": h, "norm": frac(math.sqrt(h / 2) if weighted else math.sqrt(2.0 * h)),
               "w": None if not weighted else _q(i["w"])}
        if i.get("exact") and not weighted:
            inp["exact"] = True
        if "ideal" in i:
            inp["ideal"] = {k: (v if k == "b" else frac(v)) for k, v in i["ideal"].items()}
        bad = err or any(v == NAN for v in impl)
        return {"op": op, "in": inp, "impl": None if err else (NAN if bad else impl)}
    if op == "find_peaks":
        if err:
            return {"op": op, "in": {"sig": _q(i["sig"])}, "impl": None}
        return {"op": op, "in": {"sig": impl["sig"]}, "impl": impl["peaks"]}
    if op == "fdr_thres":
        if err:
            return {"op": op, "in": {"x": [], "q": "0", "p": []}, "impl": None}
        return {"op": op, "in": {"x": _q(i["x"]), "q": frac(i["q"]), "p": impl["p"]}, "impl": impl["T"]}
    if op == "unify":
        return {"op": op, "in": i, "impl": None if err else impl}
    if op == "seg_by_peaks":
        inp = {"data": _q(i["data"]), "peaks": i["peaks"], "w": None if i["w"] is None else _q(i["w"])}
        return {"op": op, "in": inp, "impl": None if (err or NAN in impl) else impl}
    if op == "haar_seg":
        if err:
            return {"op": op, "in": {"I": _q(i["I"]), "w": None, "q": frac(i["q"]), "norms": ["1"] * 5, "ps": [[]] * 5}, "impl": None}
        inp = {"I": _q(i["I"]), "w": None if i["w"] is None else _q(i["w"]), "q": frac(i["q"]),
               "norms": impl["norms"], "ps": impl["ps"]}
        if not (i.get("exact") and i["w"] is None):
            inp["convs"] = impl["convs"]
        if "ideal" in i:
            inp["ideal"] = {k: (v if k == "b" else frac(v)) for k, v in i["ideal"].items()}
        if i.get("flat"):
            inp["flat"] = True
        return {"op": op, "in": inp, "impl": impl["table"]}
    if op == "oracle":
        units = _oracle_units(i, None if err else impl)
        return {"op": op, "in": {"method": i["method"], "chroms": [{k: v for k, v in u.items() if k != "segs"} for u in units]},
                "impl": None if err else [u["segs"] for u in units]}
    if op == "consts":
        return {"op": op, "in": {}, "impl": None if err else impl}
    if op == "haar_conv_w_step":
        inp = {"b": i["b"], "n": i["n"], "h": i["h"], "lo": frac(i["lo"]), "hi": frac(i["hi"]), "w": _q(i["w"]),
               "fac": frac(math.sqrt(i["h"] / 2))}
        bad = err or any(v == NAN for v in impl)
        return {"op": op, "in": inp, "impl": None if err else (NAN if bad else impl)}
    if op == "haar_seg_w":
        I = [i["lo"]] * i["b"] + [i["hi"]] * (i["n"] - i["b"])
        inp = {"I": _q(I), "w": _q(i["w"]), "q": frac(i["q"]), "facs": [frac(math.sqrt(2 ** lv / 2)) for lv in LEVELS],
               "ideal": {"b": i["b"], "lo": frac(i["lo"]), "hi": frac(i["hi"])}}
        return {"op": op, "in": inp, "impl": None if err else impl["table"]}
    if op == "haar_idx":
        rows = None if (err or "rows" not in impl) else impl["rows"]
        return {"op": op, "in": i, "impl": rows}
    if op == "hmm_init":
        return {"op": op, "in": {}, "impl": None if err else {"start": impl["start"], "trans": impl["trans"]}}
    raise ValueError(op)


# ---------------------------------------------------------------------------------------------
# verdict


def _same(a, b, exact):
    """impl value a vs model value b (both rational strings)"""
    if a == NAN or b is None or b == NAN:
        return a == NAN and (b is None or b == NAN)
    fa, fb = Fraction(a), Fraction(b)
    if exact:
        return fa == fb
    return abs(fa - fb) <= Fraction(1, 10 ** 9) * max(1, abs(fb))


def _same_list(a, b, exact):
    return len(a) == len(b) and all(_same(x, y, exact) for x, y in zip(a, b))


def judge(case, impl, resp):
    op, i = case["op"], case["in"]
    if isinstance(impl, dict) and "__error__" in impl:
        if op == "haar_seg" and len(i["I"]) == 0 and impl["__error__"] == "IndexError":
            return [], [], None      # excluded point: an empty signal has no segment to report (the property needs >= 100 bins)
        return ["raises_" + impl["__error__"]], [], None
    if "error" in resp:
        return [], ["model error: " + resp["error"]], None
    spec = list(resp.get("spec") or [])
    out = resp.get("out")
    dis = []
    if op == "fdr_cdf":
        _fdrx.judge(case, impl, resp, spec, dis)
        return spec, dis, None
    if op == "hmm_states":
        _hmmx.judge(case, impl, resp, spec, dis)
        if not out.get("table_ok"):
            dis.append("state table of the method is not well-formed (hmmzTableOk)")
        return spec, dis, None
    if op == "fl64":
        if Fraction(impl) != Fraction(out):
            dis.append(f"fl64 model {out} python {impl}")
    elif op == "haar_conv":
        exact = bool(i.get("exact")) and i["w"] is None
        if out is None:
            if not any(v == NAN for v in impl):
                dis.append("model divides by a zero weight sum, real output is finite")
        elif any(v == NAN for v in impl):
            dis.append("real output non-finite, model finite")
        elif not _same_list(impl, out, exact):
            k = next((k for k, (x, y) in enumerate(zip(impl, out)) if not _same(x, y, exact)), -1)
            dis.append(f"HaarConv differs at {k} (len {len(impl)}/{len(out)})")
    elif op == "find_peaks":
        if impl["peaks"] != out:
            dis.append(f"FindLocalPeaks model {out[:8]} impl {impl['peaks'][:8]}")
    elif op == "fdr_thres":
        if Fraction(impl["T"]) != Fraction(out):
            dis.append(f"FDRThres model {out} impl {impl['T']}")
    elif op == "unify":
        if impl != out:
            dis.append(f"UnifyLevels model {out} impl {impl}")
    elif op == "seg_by_peaks":
        exact = i["w"] is None and all(float(x).is_integer() for x in i["data"]) and False
        if NAN in impl:
            dis.append("real SegmentByPeaks produced nan")
        elif not _same_list(impl, out, exact):
            dis.append("SegmentByPeaks differs")
    elif op == "haar_seg":
        t = impl["table"]
        if t["start"] != out["start"] or t["end"] != out["end"] or t["size"] != out["size"]:
            dis.append(f"haarSeg breakpoints model {out['start']} impl {t['start']}")
        elif not _same_list(t["mean"], out["mean"], False):
            dis.append("haarSeg means differ")
    elif op == "oracle":
        # the property's observation point: the cumulative `probes` of the reported segments against the step
        for u in _oracle_units(i, impl):
            if (u["b"] is not None and not u.get("unclaimed") and len(u["segs"]) == 2 and abs(u["segs"][0][3] - u["b"]) > 5
                    and "cumulative_probes_within_5_bins" not in spec):
                spec.append("cumulative_probes_within_5_bins")
        if impl.get("cli_same", True) is not True:
            dis.append("cnvkit.py segment differs from do_segmentation: " + str(impl["cli_same"]))
        for k, c in enumerate(i["chroms"]):   # the arm cells must really be arm cells
            if c.get("gap") is not None and impl["arm_bins"][k] != [c["gap"], len(c["bins"]) - c["gap"]]:
                dis.append(f"by_arm gives arms of {impl['arm_bins'][k]} bins, the only centromere-sized gap is at bin {c['gap']}")
    elif op == "consts":
        if impl["levels"] != out["levels"]:
            dis.append(f"level loop observed {impl['levels']} generated {out['levels']}")
        if impl["first_conv"] != [1] or impl["n_conv"] != impl["n_unify"]:
            dis.append("haarSeg call skeleton changed")
        if not _same_list(impl["germline_means"], out["germline_means"], True):
            dis.append(f"fitted germline means {impl['germline_means']} generated {out['germline_means']}")
        if out["germline_frozen"] != [True, True, True]:
            spec.append("germline_means_frozen")
    elif op == "haar_conv_w_step":
        inside = i["h"] <= i["b"] and i["b"] + i["h"] <= i["n"]
        if out is None or any(v == NAN for v in impl):
            dis.append("weighted HaarConv on positive weights: zero weight sum in the model or non-finite real output")
        else:
            if not _same_list(impl, out, False):
                k = next((k for k, (x, y) in enumerate(zip(impl, out)) if not _same(x, y, False)), -1)
                dis.append(f"weighted HaarConv differs from the model at {k}")
            if inside and [Fraction(x) for x in out] != [Fraction(x) for x in resp["closed"]]:
                dis.append("model haarConvW is not the closed form stepRespW (theorem haarConvW_ideal_step)")
    elif op == "haar_seg_w":
        t = impl["table"]
        if t["start"] != out["start"] or t["end"] != out["end"] or t["size"] != out["size"]:
            dis.append(f"weighted haarSeg breakpoints model {out['start']} impl {t['start']}")
        elif not _same_list(t["mean"], out["mean"], False):
            dis.append("weighted haarSeg means differ")
    elif op == "haar_idx":
        if "rows" not in impl:
            return spec, dis, "HaarConv reads its input in a pattern the index observer cannot attribute to positions"
        rows = impl["rows"]
        if i["h"] > i["n"]:
            if rows != [] or any(impl["reads"]):
                dis.append("HaarConv with stepHalfSize > signalSize entered its loop")
        else:
            if out != resp["src"]:
                dis.append("model indices differ from the generated source expressions")
            want = [sorted(set(r)) for r in out]
            if rows != want:
                k = next((k for k, (x, y) in enumerate(zip(rows, want)) if x != y), -1)
                dis.append(f"HaarConv reads elements {rows[k] if 0 <= k < len(rows) else len(rows)} at k={k + 1}, "
                           f"model {{highEnd, lowEnd, k-1}} = {want[k] if 0 <= k < len(want) else len(want)}")
    elif op == "hmm_init":
        tol = Fraction(1, 10 ** 12)
        def close(a, b):
            return abs(Fraction(a) - Fraction(b)) <= tol * max(1, abs(Fraction(b)))
        if len(impl["start"]) != len(out["start"]) or not all(close(a, b) for a, b in zip(impl["start"], out["start"])):
            dis.append(f"start probabilities handed to from_matrix {impl['start']} generated {out['start']}")
        if len(impl["trans"]) != len(out["trans"]) or not all(
                len(ra) == len(rb) and all(close(a, b) for a, b in zip(ra, rb)) for ra, rb in zip(impl["trans"], out["trans"])):
            dis.append("transition matrix handed to from_matrix differs from the generated one")
        if impl["n_dists"] != len(out["start"]):
            dis.append("number of distributions differs from the number of states")
    return spec, dis, None


def nontrivial(case, impl, resp):
    if isinstance(impl, dict) and "__error__" in impl:
        return False
    op, i = case["op"], case["in"]
    if op == "fdr_cdf":
        return _fdrx.nontrivial(case, impl, resp)
    if op == "haar_conv":
        return len(i["sig"]) >= i["h"] and len(set(i["sig"])) > 1
    if op == "find_peaks":
        return len(impl["peaks"]) > 0
    if op == "fdr_thres":
        return len(i["x"]) >= 2
    if op == "unify":
        return bool(i["base"]) and bool(i["addon"])
    if op == "seg_by_peaks":
        return bool(i["peaks"])
    if op == "haar_seg":
        return len(impl["table"]["start"]) > 1 or "ideal" in i or "flat" in i
    if op == "haar_conv_w_step":
        return i["h"] <= i["b"] and i["b"] + i["h"] <= i["n"]
    if op == "haar_idx":
        return i["h"] <= i["n"] and i["n"] >= 2
    return True


def shrink(case):
    if case["op"] != "oracle":
        return
    chroms = case["in"]["chroms"]
    if len(chroms) > 1:
        for k in range(len(chroms)):
            yield {"op": "oracle", "tag": case["tag"] + "-shrunk", "in": dict(case["in"], chroms=[chroms[k]])}
