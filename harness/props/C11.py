"""C11 -- a clear copy-number step is found and localised; flat profiles stay unsegmented
(cnvlib/segmentation/haar.py, hmm.py, __init__.py).

PARTIAL by nature.  Three layers:
  1. component tie, exact: HaarConv (unweighted / weighted), FindLocalPeaks, FDRThres (p-values from scipy),
     UnifyLevels, SegmentByPeaks and the whole haarSeg level loop against the Lean model;
  2. theorems about that model for the noise-free core (Props/C11.lean);
  3. the statistical clause as an ORACLE RUN of do_segmentation(cna, "haar" | "hmm-germline") on seeded noisy
     profiles -- search, not proof; the Lean spec checker only evaluates the property's clauses on the real output.
"""
from __future__ import annotations

import math
from fractions import Fraction

from ..core import frac

LEVEL = "proof"
RULE = ("component ops: one call of HaarConv / FindLocalPeaks / FDRThres / UnifyLevels / SegmentByPeaks / haarSeg per "
        "case on dyadic arrays (float arithmetic exact, compared exactly through an IEEE-754 rounding model), random "
        "floats (1e-9), plateau-rich small-integer signals, noise-free steps and constants, lengths 0..260, step "
        "half-sizes 1..64 incl. larger than the signal, malformed peak lists; oracle ops: one seeded noisy profile per "
        "case (1..3 chromosomes, step of 0/-1, 0/+0.585, 0/+1 (haar only) in either order, 100..400 bins a side, flat "
        "controls 100..600 bins, sd 0.01..0.1, weights 0.5..1, random bin sizes and spacing) through do_segmentation "
        "with 'haar' and 'hmm-germline' -- SEARCH, NOT PROOF: a failing profile is a real counterexample (VIOLATION with the "
        "profile as replay), a passing run proves nothing about unseen profiles. non-trivial = the op's output is non-empty / has a breakpoint; distinct by hash")
EXHAUSTIVE = {"quick": False, "thorough": False}
ASSUMPTIONS = [
    "PARTIAL: the statistical clause (detection under Gaussian noise after Savitzky-Golay smoothing; pomegranate "
    "Baum-Welch + MAP decoding for hmm-germline) is NOT proved; it is an oracle run on the real code (search, not proof)",
    "theorems hold for the unweighted HaarConv recursion in exact arithmetic with any strictly increasing, "
    "zero-preserving normalisation/rounding; a noise-free step needs 2^level <= b <= n - 2^level for every level (b >= 32, n-b >= 32)",
    "FDRThres p-values (scipy norm.cdf) and the doubles sqrt(2h), sqrt(h/2) are inputs of the model; the weighted "
    "HaarConv and the level loop on non-dyadic data are tied at 1e-9 with the real per-level convolutions as input",
    "rawI (non-stationary variance compensation, PulseConv) is never passed by cnvkit and is outside the model",
    "signals are non-empty and finite; weights, when given, have the length of the signal",
]
TRUSTED_EXTRA = [
    "scipy.stats.norm.cdf (p-values of FDRThres are computed by the harness with the formula of the source)",
    "math.sqrt (the normalisation constants are inputs; the driver checks norm^2 = 2h resp. h/2 to 1e-9)",
    "IEEE-754 binary64 division / addition / multiplication are correctly rounded (mirrored by `fl64`, itself "
    "tied to Python's Fraction->float conversion)",
    "pomegranate HiddenMarkovModel fit/predict, cnvlib.smoothing.savgol, guess_window_size, drop_outliers: black "
    "boxes of the oracle run; by_arm / squash_by_groups / transfer_fields glue: property C03/C14 packages",
]

LEVELS = [1, 2, 3, 4, 5]
NAN = "nan"


# ---------------------------------------------------------------------------------------------
# generators


def _dy(rng, lo=-8, hi=8, bits=3):
    return rng.randint(lo * 2 ** bits, hi * 2 ** bits) / 2 ** bits


def _signal(rng, n, kind=None):
    """(values, exact)"""
    kind = kind or rng.choice(["dyadic", "dyadic", "ints", "float", "steps", "steps", "const", "noisy-steps"])
    if kind == "dyadic":
        return [_dy(rng) for _ in range(n)], True
    if kind == "ints":
        return [float(rng.randint(-2, 2)) for _ in range(n)], True
    if kind == "float":
        return [rng.gauss(0, rng.choice([0.05, 0.3, 2.0])) for _ in range(n)], False
    if kind == "const":
        c = rng.choice([0.0, 1.0, -0.5, 0.585, 0.1])
        return [c] * n, c in (0.0, 1.0, -0.5)
    if kind in ("steps", "noisy-steps"):
        v, lvl = [], _dy(rng, -2, 2, 2)
        for _ in range(n):
            if rng.random() < 0.04:
                lvl = _dy(rng, -2, 2, 2)
            v.append(lvl + (rng.randint(-2, 2) / 16 if kind == "noisy-steps" else 0.0))
        return v, True
    raise ValueError(kind)


def _weights(rng, n, kind=None):
    kind = kind or rng.choice(["dyadic", "uniform", "uniform", "ones", "zeros"])
    if kind == "dyadic":
        return [rng.randint(4, 8) / 8 for _ in range(n)], True
    if kind == "uniform":
        return [rng.uniform(0.5, 1.0) for _ in range(n)], False
    if kind == "ones":
        return [1.0] * n, True
    w = [0.0 if rng.random() < 0.3 else rng.randint(1, 8) / 8 for _ in range(n)]
    return w, True


def _len(rng, cap=260):
    r = rng.random()
    if r < 0.15:
        return rng.choice([0, 1, 2, 3, 4, 5])
    if r < 0.6:
        return rng.randint(3, 40)
    if r < 0.9:
        return rng.randint(40, min(cap, 130))
    return rng.randint(min(cap, 130), cap)


def _ideal(rng, within=True, prop_levels=None):
    """noise-free step: (values, b, lo, hi, exact)"""
    if within:
        b = rng.randint(32, 120)
        n = b + rng.randint(32, 120)
    else:
        n = rng.randint(4, 90)
        b = rng.randint(1, n - 1)
    if prop_levels is None:
        prop_levels = rng.random() < 0.5
    if prop_levels:
        step = rng.choice([-1.0, 0.585, 1.0])
        lo, hi = (0.0, step) if rng.random() < 0.5 else (step, 0.0)
        exact = step != 0.585
    else:
        lo = _dy(rng, -2, 2, 3)
        hi = lo + rng.choice([-1, 1]) * rng.randint(1, 24) / 8
        exact = True
    return [lo] * b + [hi] * (n - b), b, lo, hi, exact


def gen_fl64(rng, k):
    out = []
    for _ in range(k):
        r = rng.random()
        if r < 0.3:
            x = Fraction(rng.randint(-10 ** 18, 10 ** 18), rng.randint(1, 10 ** 18))
        elif r < 0.6:  # exact ties and their neighbours on the 53-bit grid
            m = rng.randint(2 ** 52, 2 ** 53 - 1)
            e = rng.randint(-60, 10)
            x = (Fraction(m) + Fraction(1, 2) + rng.choice([0, 0, Fraction(1, 10 ** 6), -Fraction(1, 10 ** 6)])) * Fraction(2) ** e
            if rng.random() < 0.5:
                x = -x
        elif r < 0.9:  # the sums FDRThres forms: double + 1e-16
            x = Fraction(rng.choice([rng.uniform(0.01, 4.0), 1.0, 0.5, 2.0, 0.9999999999999999, rng.randint(1, 40) / 8])) + Fraction(1e-16)
        else:
            x = Fraction(rng.choice([0, 1, -1, 3])) / rng.choice([1, 3, 7, 2 ** 60, 10 ** 30]) * Fraction(2) ** rng.randint(-1080, -1000 if rng.random() < 0.5 else 0)
        out.append({"op": "fl64", "tag": "fl64", "in": {"x": frac(x)}})
    return out


def gen_conv(rng, k):
    out = []
    for _ in range(k):
        r = rng.random()
        h = rng.choice([1, 2, 2, 4, 4, 8, 8, 16, 32, 64, 3, 5])
        if r < 0.25:
            sig, b, lo, hi, exact = _ideal(rng, within=rng.random() < 0.8)
            c = {"sig": sig, "h": h, "w": None, "exact": exact, "ideal": {"b": b, "lo": lo, "hi": hi}}
            tag = "conv-ideal"
        else:
            n = _len(rng)
            sig, exact = _signal(rng, n)
            w = None
            tag = "conv"
            if rng.random() < 0.4:
                w, _e = _weights(rng, n)
                exact = False
                tag = "conv-weighted"
            c = {"sig": sig, "h": h, "w": w, "exact": exact}
        out.append({"op": "haar_conv", "tag": tag, "in": c})
    return out


def gen_peaks(rng, k):
    out = []
    for _ in range(k):
        n = _len(rng, 120)
        r = rng.random()
        if r < 0.5:
            sig = [float(rng.randint(-2, 2)) for _ in range(n)]
            # long plateaus
            if n and rng.random() < 0.6:
                sig = [x for x in sig for _ in range(rng.randint(1, 3))][:n]
            tag = "peaks-plateaus"
        elif r < 0.8:
            sig, _ = _signal(rng, n)
            tag = "peaks"
        else:
            h = rng.choice([1, 2, 4, 8])
            s, _ = _signal(rng, n)
            sig = s  # convolved in run_impl
            tag = "peaks-of-conv:%d" % h
        out.append({"op": "find_peaks", "tag": tag, "in": {"sig": sig}})
    return out


def gen_fdr(rng, k):
    out = []
    for _ in range(k):
        m = rng.choice([0, 1, 2, 2, 3, 5, 10, 20, 40])
        scale = rng.choice([0.3, 1.0, 3.0, 6.0])
        if rng.random() < 0.5:
            x = [rng.randint(-int(8 * scale) - 1, int(8 * scale) + 1) / 8 for _ in range(m)]
        else:
            x = [rng.gauss(0, scale) for _ in range(m)]
        q = rng.choice([0.0001, 0.0001, 0.01, 0.5, 0.9, 1.0, 0.0])
        sd = rng.choice([0.0, 0.01, 0.1, 1.0, rng.uniform(0.005, 0.2)])
        out.append({"op": "fdr_thres", "tag": "fdr:M%s" % ("<2" if m < 2 else ">=2"), "in": {"x": x, "q": q, "stdev": sd}})
    return out


def _idx_list(rng, top, sorted_=True):
    k = rng.randint(0, min(top, 12))
    v = rng.sample(range(top), k) if top else []
    if sorted_:
        v.sort()
    elif v and rng.random() < 0.5:
        v.append(rng.choice(v))
    return v


def gen_unify(rng, k):
    out = []
    for _ in range(k):
        top = rng.choice([6, 12, 40, 200])
        ok = rng.random() < 0.85
        out.append({"op": "unify", "tag": "unify" if ok else "unify-unsorted",
                    "in": {"base": _idx_list(rng, top, ok), "addon": _idx_list(rng, top, ok or rng.random() < 0.5),
                           "w": rng.choice([0, 1, 1, 2, 4, 8, 16])}})
    return out


def exhaustive_unify(top=5):
    out = []
    subsets = [[i for i in range(top) if m >> i & 1] for m in range(2 ** top)]
    for b in subsets:
        for a in subsets:
            for w in (0, 1, 2):
                out.append({"op": "unify", "tag": "unify-exhaustive", "in": {"base": b, "addon": a, "w": w}})
    return out


def gen_segs(rng, k):
    out = []
    for _ in range(k):
        n = max(1, _len(rng, 90))
        data, exact = _signal(rng, n)
        w = None
        if rng.random() < 0.5:
            w, e2 = _weights(rng, n)
            exact = False
        r = rng.random()
        if r < 0.8:
            peaks = sorted(rng.sample(range(1, n), min(n - 1, rng.randint(0, 6)))) if n > 1 else []
            tag = "segs"
        else:
            peaks = [rng.randint(0, n + 3) for _ in range(rng.randint(1, 4))]
            tag = "segs-malformed"
        out.append({"op": "seg_by_peaks", "tag": tag, "in": {"data": data, "peaks": peaks, "w": w}})
    return out


def gen_haarseg(rng, k):
    out = []
    for _ in range(k):
        r = rng.random()
        q = rng.choice([0.0001, 0.0001, 0.001, 0.05, 0.5])
        c = {"q": q, "w": None}
        if r < 0.3:
            n = max(1, _len(rng, 220))
            I, exact = _signal(rng, n, rng.choice(["dyadic", "ints", "steps", "noisy-steps", "noisy-steps"]))
            tag = "haarseg-dyadic"
        elif r < 0.45:
            n = max(1, _len(rng, 220))
            I, exact = _signal(rng, n, "float")
            exact = False
            tag = "haarseg-float"
        elif r < 0.8:
            within = rng.random() < 0.8
            I, b, lo, hi, exact = _ideal(rng, within=within)
            tag = "haarseg-ideal" if within else "haarseg-ideal-short"
            if within:
                c["ideal"] = {"b": b, "lo": lo, "hi": hi}
            else:
                c["ideal_excluded"] = {"b": b, "lo": lo, "hi": hi}
        else:
            n = rng.randint(1, 200)
            cst = rng.choice([0.0, 1.0, -0.5, 0.585, -1.0, 0.1])
            I, exact = [cst] * n, True
            c["flat"] = True
            tag = "haarseg-flat"
        if rng.random() < 0.35:
            if "ideal" in c and not (abs(c["ideal"]["hi"] - c["ideal"]["lo"]) >= 0.585):
                # weighted float path: rounding noise makes spurious peaks, small steps are then not claimed
                c["ideal_excluded"] = c.pop("ideal")
            if c.pop("flat", None):
                # weighted float path on a constant: the quotients carry rounding noise, a level with a single noise
                # peak takes threshold 0 (observation Y in the report); outside the property (no noise, any length)
                c["flat_unclaimed"] = True
            c["w"], _e = _weights(rng, len(I), rng.choice(["dyadic", "uniform", "ones"]))
            exact = False
            tag += "-weighted"
        c["I"] = I
        c["exact"] = exact
        out.append({"op": "haar_seg", "tag": tag, "in": c})
    out.append({"op": "haar_seg", "tag": "haarseg-empty", "in": {"I": [], "q": 0.0001, "w": None, "exact": True}})
    return out


def _profile(rng, force_flat=None, hardest=False):
    nchr = rng.randint(1, 3)
    chroms = []
    flat = rng.random() < 0.25 if force_flat is None else force_flat
    for c in range(nchr):
        if flat:
            n = rng.randint(100, 600) if not hardest else rng.choice([100, 600])
            b, lo, hi = None, 0.0, 0.0
        else:
            nl, nr = rng.randint(100, 400), rng.randint(100, 400)
            if hardest:   # boundary of the quantifier: shortest sides, smallest step
                nl, nr = rng.choice([(100, 100), (100, 400), (400, 100)])
            n, b = nl + nr, nl
            step = rng.choice([-1.0, 0.585, 1.0]) if not hardest else 0.585
            lo, hi = (0.0, step) if rng.random() < 0.5 else (step, 0.0)
        sd = rng.uniform(0.01, 0.1) if not hardest else 0.1
        pos = rng.randint(0, 100000)
        gap_at = rng.randint(60, n - 60) if (flat and rng.random() < 0.15 and n > 130) else -1
        bins = []
        for i in range(n):
            pos += rng.randint(0, 5000)
            if i == gap_at:
                pos += rng.randint(150000, 3000000)
            sz = rng.randint(50, 1000)
            v = (lo if (b is None or i < b) else hi) + rng.gauss(0, sd)
            bins.append([pos, sz, round(v, 6), round(rng.uniform(0.5, 1.0), 4)])
            pos += sz
        chroms.append({"name": "chr%d" % (c + 1), "b": b, "lo": lo, "hi": hi, "sd": round(sd, 4), "bins": bins})
    return chroms


def gen_oracle(rng, k):
    out = []
    for j in range(k):
        chroms = _profile(rng, hardest=(j % 10 == 0))
        for method in ("haar", "hmm-germline"):
            kind = "flat" if chroms[0]["b"] is None else "step"
            out.append({"op": "oracle", "tag": f"oracle-{method}-{kind}", "in": {"method": method, "chroms": chroms}})
    return out


def gen_cases(rng, tier):
    sizes = {
        "quick": dict(fl=300, conv=500, peaks=600, fdr=400, unify=1200, segs=400, hs=300, oracle=450),
        "thorough": dict(fl=3000, conv=4000, peaks=5000, fdr=3000, unify=6000, segs=3000, hs=2500, oracle=4000),
        "search": dict(fl=100, conv=300, peaks=300, fdr=200, unify=300, segs=200, hs=300, oracle=300),
    }[tier]
    cases = [{"op": "consts", "tag": "consts", "in": {}}]
    cases += gen_fl64(rng, sizes["fl"])
    cases += gen_conv(rng, sizes["conv"])
    cases += gen_peaks(rng, sizes["peaks"])
    cases += gen_fdr(rng, sizes["fdr"])
    cases += gen_unify(rng, sizes["unify"])
    if tier == "thorough":
        cases += exhaustive_unify(5)
    cases += gen_segs(rng, sizes["segs"])
    cases += gen_haarseg(rng, sizes["hs"])
    cases += gen_oracle(rng, sizes["oracle"])
    return cases


def corpus():
    out = []
    # boundary of the ideal-step theorem: b = 32 = n - b, every level one peak
    for lo, hi in ((0.0, -1.0), (0.585, 0.0), (0.0, 1.0), (0.25, 0.125)):
        I = [lo] * 32 + [hi] * 32
        out.append({"op": "haar_seg", "tag": "corpus-ideal-32", "in": {"I": I, "q": 0.0001, "w": None, "exact": hi != 0.585 and lo != 0.585,
                                                                     "ideal": {"b": 32, "lo": lo, "hi": hi}}})
    # plateau logic of FindLocalPeaks: suspect set, confirmed, cancelled
    for sig in ([0, 1, 1, 0], [0, 1, 1, 2, 0], [0, -1, -1, 0], [0, -1, -1, -2, 0], [1, 1, 0, 1, 1], [0, 1, 1, 1, 0, 2, 2, 0],
                [0, 1, 1, -1, -1, 0], [0, 2, 1, 1, 0]):
        out.append({"op": "find_peaks", "tag": "corpus-plateau", "in": {"sig": [float(x) for x in sig]}})
    # FDRThres: no p-value passes; the +1e-16 bump vanishes in float for x0 >= 1 and survives below
    for x in ([1.0, 0.5, 0.25], [0.75, 0.5, 0.25], [2.34, 0.2, 0.1], [0.9999999999999999, 0.5]):
        out.append({"op": "fdr_thres", "tag": "corpus-fdr-bump", "in": {"x": x, "q": 0.0001, "stdev": 0.01}})
    out.append({"op": "unify", "tag": "corpus-unify", "in": {"base": [10], "addon": [8, 9, 10, 11, 12, 13], "w": 2}})
    out.append({"op": "unify", "tag": "corpus-unify", "in": {"base": [], "addon": [3, 1], "w": 1}})
    # observation Y: a constant weighted signal of 14 bins is split by the real code (rounding noise of the weighted
    # quotients + threshold 0 for a single noise peak); no clause is claimed there, the level loop must still agree
    out.append({"op": "haar_seg", "tag": "corpus-Y-flat-weighted", "in": {
        "I": [0.585] * 14, "q": 0.0001, "exact": False, "flat_unclaimed": True,
        "w": [0.75, 1.0, 0.5, 0.625, 0.875, 1.0, 0.5, 0.75, 0.625, 1.0, 0.875, 0.5, 0.75, 1.0]}})
    # boundary of the quantifier for the oracle: 100 bins a side, sd 0.1, smallest claimed step
    import random
    r = random.Random(11)
    for _ in range(3):
        chroms = _profile(r, force_flat=False, hardest=True)
        for method in ("haar", "hmm-germline"):
            out.append({"op": "oracle", "tag": f"corpus-oracle-hardest-{method}", "in": {"method": method, "chroms": chroms}})
    return out


# ---------------------------------------------------------------------------------------------
# the real code


def _fl(xs):
    return [frac(float(x)) if math.isfinite(float(x)) else NAN for x in xs]


def _cna(chroms):
    from cnvlib.cnary import CopyNumArray as CNA
    rows = []
    for c in chroms:
        for pos, sz, v, w in c["bins"]:
            rows.append((c["name"], pos, pos + sz, "G", v, w, 10.0))
    return CNA.from_rows(rows, columns=["chromosome", "start", "end", "gene", "log2", "weight", "depth"],
                         meta_dict={"sample_id": "S"})


def _haarseg_inputs(I, q, W):
    """per-level normalisers, real convolutions and the p-values FDRThres forms (same formulas as the source)"""
    import numpy as np
    import pandas as pd
    from scipy import stats
    from cnvlib.segmentation import haar
    diffI = pd.Series(haar.HaarConv(I, None, 1))
    sigma = 0.0 if len(diffI) == 0 else diffI.abs().median() * 1.4826
    norms, convs, ps = [], [], []
    for level in LEVELS:
        h = 2 ** level
        norms.append(frac(math.sqrt(h / 2) if W is not None else math.sqrt(2.0 * h)))
        conv = haar.HaarConv(I, W, h)
        pk = haar.FindLocalPeaks(conv)
        xs = np.sort(np.abs(conv[pk]))[::-1] if len(pk) else np.array([])
        p = 2 * (1 - stats.norm.cdf(xs, sigma)) if len(xs) else []
        convs.append(_fl(conv))
        ps.append(_fl(p))
    return norms, convs, ps


def run_impl(case):
    import numpy as np
    from cnvlib.segmentation import haar
    op, i = case["op"], case["in"]
    if op == "fl64":
        return frac(float(Fraction(i["x"])))
    if op == "haar_conv":
        sig = np.array(i["sig"], dtype=float)
        w = None if i["w"] is None else np.array(i["w"], dtype=float)
        return _fl(haar.HaarConv(sig, w, i["h"]))
    if op == "find_peaks":
        sig = np.array(i["sig"], dtype=float)
        if case["tag"].startswith("peaks-of-conv"):
            sig = haar.HaarConv(sig, None, int(case["tag"].split(":")[1]))
        return {"sig": _fl(sig), "peaks": [int(k) for k in haar.FindLocalPeaks(sig)]}
    if op == "fdr_thres":
        from scipy import stats
        x = np.array(i["x"], dtype=float)
        xs = np.sort(np.abs(x))[::-1]
        p = 2 * (1 - stats.norm.cdf(xs, i["stdev"])) if len(xs) else []
        return {"T": frac(float(haar.FDRThres(x, i["q"], i["stdev"]))), "p": _fl(p)}
    if op == "unify":
        r = haar.UnifyLevels(np.array(i["base"], dtype=np.int_), np.array(i["addon"], dtype=np.int_), i["w"])
        return [int(v) for v in r]
    if op == "seg_by_peaks":
        data = np.array(i["data"], dtype=float)
        w = None if i["w"] is None else np.array(i["w"], dtype=float)
        return _fl(haar.SegmentByPeaks(data, np.array(i["peaks"], dtype=np.int_), w))
    if op == "haar_seg":
        I = np.array(i["I"], dtype=float)
        W = None if i["w"] is None else np.array(i["w"], dtype=float)
        res = haar.haarSeg(I, i["q"], W=W)
        norms, convs, ps = _haarseg_inputs(I, i["q"], W)
        return {"table": {"start": [int(v) for v in res["start"]], "end": [int(v) for v in res["end"]],
                          "size": [int(v) for v in res["size"]], "mean": _fl(res["mean"])},
                "norms": norms, "convs": convs, "ps": ps}
    if op == "oracle":
        from cnvlib import segmentation
        cna = _cna(i["chroms"])
        arms = {}
        for c, sub in cna.by_arm():
            arms[c] = arms.get(c, 0) + 1
        np.random.seed(20240911)
        seg = segmentation.do_segmentation(cna, i["method"])
        d = seg.data
        out = []
        for c in i["chroms"]:
            s = d[d["chromosome"] == c["name"]]
            out.append([[int(s["start"].iat[k]), int(s["end"].iat[k]), frac(float(s["log2"].iat[k])),
                         int(s["probes"].iat[k])] for k in range(len(s))])
        return {"segs": out, "arms": [arms.get(c["name"], 0) for c in i["chroms"]]}
    if op == "consts":
        return _observe_consts()
    raise ValueError(op)


def _observe_consts():
    """the level loop as it runs (arguments of HaarConv / UnifyLevels recorded through wrappers of the module
    attributes) and the state means of the fitted hmm-germline model"""
    import numpy as np
    from cnvlib.segmentation import haar, hmm
    seen = []
    conv0, uni0 = haar.HaarConv, haar.UnifyLevels

    def conv(sig, w, h):
        seen.append(["conv", int(h)])
        return conv0(sig, w, h)

    def uni(base, addon, w):
        seen.append(["unify", int(w)])
        return uni0(base, addon, w)

    haar.HaarConv, haar.UnifyLevels = conv, uni
    try:
        haar.haarSeg(np.array([0.0] * 40 + [1.0] * 40), 0.0001)
    finally:
        haar.HaarConv, haar.UnifyLevels = conv0, uni0
    convs = [h for k, h in seen if k == "conv"][1:]  # the first call is the diff estimate (stepHalfSize 1)
    unis = [w for k, w in seen if k == "unify"]
    import random
    r = random.Random(5)
    chroms = [{"name": "chr1", "bins": [[1000 * k, 500, (0.0 if k < 150 else -1.0) + r.gauss(0, 0.05), 1.0] for k in range(300)]},
              {"name": "chr2", "bins": [[1000 * k, 500, (0.0 if k < 150 else 0.585) + r.gauss(0, 0.05), 1.0] for k in range(300)]}]
    model = hmm.hmm_get_model(_cna(chroms), "hmm-germline", None, 1)
    by_name = {st.name: st.distribution.parameters[0] for st in model.states if st.distribution is not None}
    means = [frac(float(by_name[k])) for k in ("loss", "neutral", "gain") if k in by_name]   # pomegranate orders states by name
    return {"levels": [[h, w] for h, w in zip(convs, unis)], "first_conv": [h for k, h in seen if k == "conv"][:1],
            "n_conv": len(convs), "n_unify": len(unis), "germline_means": means}


# ---------------------------------------------------------------------------------------------
# lines for the Lean driver


def _q(xs):
    return [frac(x) for x in xs]


def to_line(case, impl):
    op, i = case["op"], case["in"]
    err = isinstance(impl, dict) and "__error__" in impl
    if op == "fl64":
        return {"op": op, "in": i, "impl": None}
    if op == "haar_conv":
        weighted = i["w"] is not None
        h = i["h"]
        inp = {"sig": _q(i["sig"]), "h": h, "norm": frac(math.sqrt(h / 2) if weighted else math.sqrt(2.0 * h)),
               "w": None if not weighted else _q(i["w"])}
        if i.get("exact") and not weighted:
            inp["exact"] = True
        if "ideal" in i:
            inp["ideal"] = {k: (v if k == "b" else frac(v)) for k, v in i["ideal"].items()}
        bad = err or any(v == NAN for v in impl)
        return {"op": op, "in": inp, "impl": None if err else (NAN if bad else impl)}
    if op == "find_peaks":
        if err:
            return {"op": op, "in": {"sig": _q(i["sig"])}, "impl": None}
        return {"op": op, "in": {"sig": impl["sig"]}, "impl": impl["peaks"]}
    if op == "fdr_thres":
        if err:
            return {"op": op, "in": {"x": [], "q": "0", "p": []}, "impl": None}
        return {"op": op, "in": {"x": _q(i["x"]), "q": frac(i["q"]), "p": impl["p"]}, "impl": impl["T"]}
    if op == "unify":
        return {"op": op, "in": i, "impl": None if err else impl}
    if op == "seg_by_peaks":
        inp = {"data": _q(i["data"]), "peaks": i["peaks"], "w": None if i["w"] is None else _q(i["w"])}
        return {"op": op, "in": inp, "impl": None if (err or NAN in impl) else impl}
    if op == "haar_seg":
        if err:
            return {"op": op, "in": {"I": _q(i["I"]), "w": None, "q": frac(i["q"]), "norms": ["1"] * 5, "ps": [[]] * 5}, "impl": None}
        inp = {"I": _q(i["I"]), "w": None if i["w"] is None else _q(i["w"]), "q": frac(i["q"]),
               "norms": impl["norms"], "ps": impl["ps"]}
        if not (i.get("exact") and i["w"] is None):
            inp["convs"] = impl["convs"]
        if "ideal" in i:
            inp["ideal"] = {k: (v if k == "b" else frac(v)) for k, v in i["ideal"].items()}
        if i.get("flat"):
            inp["flat"] = True
        return {"op": op, "in": inp, "impl": impl["table"]}
    if op == "oracle":
        chroms = []
        for k, c in enumerate(i["chroms"]):
            d = {"name": c["name"], "starts": [b[0] for b in c["bins"]], "b": c["b"], "lo": frac(c["lo"]), "hi": frac(c["hi"]),
                 "arms": 1 if err else impl["arms"][k]}
            if i["method"] != "haar" and 1.0 in (c["lo"], c["hi"]):
                d["unclaimed"] = True   # 0/+1 is claimed for haar only
            chroms.append(d)
        return {"op": op, "in": {"method": i["method"], "chroms": chroms}, "impl": None if err else impl["segs"]}
    if op == "consts":
        return {"op": op, "in": {}, "impl": None if err else impl}
    raise ValueError(op)


# ---------------------------------------------------------------------------------------------
# verdict


def _same(a, b, exact):
    """impl value a vs model value b (both rational strings)"""
    if a == NAN or b is None or b == NAN:
        return a == NAN and (b is None or b == NAN)
    fa, fb = Fraction(a), Fraction(b)
    if exact:
        return fa == fb
    return abs(fa - fb) <= Fraction(1, 10 ** 9) * max(1, abs(fb))


def _same_list(a, b, exact):
    return len(a) == len(b) and all(_same(x, y, exact) for x, y in zip(a, b))


def judge(case, impl, resp):
    op, i = case["op"], case["in"]
    if isinstance(impl, dict) and "__error__" in impl:
        if op == "haar_seg" and len(i["I"]) == 0 and impl["__error__"] == "IndexError":
            return [], [], None      # excluded point: an empty signal has no segment to report (the property needs >= 100 bins)
        return ["raises_" + impl["__error__"]], [], None
    if "error" in resp:
        return [], ["model error: " + resp["error"]], None
    spec = list(resp.get("spec") or [])
    out = resp.get("out")
    dis = []
    if op == "fl64":
        if Fraction(impl) != Fraction(out):
            dis.append(f"fl64 model {out} python {impl}")
    elif op == "haar_conv":
        exact = bool(i.get("exact")) and i["w"] is None
        if out is None:
            if not any(v == NAN for v in impl):
                dis.append("model divides by a zero weight sum, real output is finite")
        elif any(v == NAN for v in impl):
            dis.append("real output non-finite, model finite")
        elif not _same_list(impl, out, exact):
            k = next((k for k, (x, y) in enumerate(zip(impl, out)) if not _same(x, y, exact)), -1)
            dis.append(f"HaarConv differs at {k} (len {len(impl)}/{len(out)})")
    elif op == "find_peaks":
        if impl["peaks"] != out:
            dis.append(f"FindLocalPeaks model {out[:8]} impl {impl['peaks'][:8]}")
    elif op == "fdr_thres":
        if Fraction(impl["T"]) != Fraction(out):
            dis.append(f"FDRThres model {out} impl {impl['T']}")
    elif op == "unify":
        if impl != out:
            dis.append(f"UnifyLevels model {out} impl {impl}")
    elif op == "seg_by_peaks":
        exact = i["w"] is None and all(float(x).is_integer() for x in i["data"]) and False
        if NAN in impl:
            dis.append("real SegmentByPeaks produced nan")
        elif not _same_list(impl, out, exact):
            dis.append("SegmentByPeaks differs")
    elif op == "haar_seg":
        t = impl["table"]
        if t["start"] != out["start"] or t["end"] != out["end"] or t["size"] != out["size"]:
            dis.append(f"haarSeg breakpoints model {out['start']} impl {t['start']}")
        elif not _same_list(t["mean"], out["mean"], False):
            dis.append("haarSeg means differ")
    elif op == "consts":
        if impl["levels"] != out["levels"]:
            dis.append(f"level loop observed {impl['levels']} generated {out['levels']}")
        if impl["first_conv"] != [1] or impl["n_conv"] != impl["n_unify"]:
            dis.append("haarSeg call skeleton changed")
        if not _same_list(impl["germline_means"], out["germline_means"], True):
            dis.append(f"fitted germline means {impl['germline_means']} generated {out['germline_means']}")
        if out["germline_frozen"] != [True, True, True]:
            spec.append("germline_means_frozen")
    return spec, dis, None


def nontrivial(case, impl, resp):
    if isinstance(impl, dict) and "__error__" in impl:
        return False
    op, i = case["op"], case["in"]
    if op == "haar_conv":
        return len(i["sig"]) >= i["h"] and len(set(i["sig"])) > 1
    if op == "find_peaks":
        return len(impl["peaks"]) > 0
    if op == "fdr_thres":
        return len(i["x"]) >= 2
    if op == "unify":
        return bool(i["base"]) and bool(i["addon"])
    if op == "seg_by_peaks":
        return bool(i["peaks"])
    if op == "haar_seg":
        return len(impl["table"]["start"]) > 1 or "ideal" in i or "flat" in i
    return True


def shrink(case):
    if case["op"] != "oracle":
        return
    chroms = case["in"]["chroms"]
    if len(chroms) > 1:
        for k in range(len(chroms)):
            yield {"op": "oracle", "tag": case["tag"] + "-shrunk", "in": dict(case["in"], chroms=[chroms[k]])}
