"""C15 extension op (round 5): the GLUE of the sex inference -- `compare_sex_chromosomes(hapX, par, skip_low)` with its
early returns and chrY fall-backs, `guess_xx`, and the row `do_sex` / `cnvkit.py sex FILE [-y] [--diploid-parx-genome G]`
prints -- against Model/SexExt5.lean (theorems: Props/C15Glue.lean).

  sex_glue : the REAL `compare_sex_chromosomes` runs with `cnary.median_test` and `descriptives.weighted_median` wrapped
             by recorders: what scipy returned (or that it raised) and the weighted medians of each `compare_to_auto` call
             are handed to the model as its parameters `cta`; everything else (selections incl. PAR, `skip_low` on each
             of the three groups, which Mood tables are degenerate, unweighted medians, ratios, NaN propagation, the
             `isfinite` guard, segment means, decision, `guess_xx`, the printed row with `strsign`) is computed by the
             model from the bin table and compared.  Cells: std / PAR genome (chrX bins inside and outside the PAR, or
             ALL inside: no chrX left) / skip_low with low bins in every group / chrY all below the cut-off / no chrX /
             no chrY / empty table / no autosome-like name / flat tables (ratios exactly 0: no "+") / weights;
             one case in four through the command line.
Values lie on a binary grid, so `vals + shift` and the medians are exact in floating point.
"""
from __future__ import annotations

import math
import os
import shutil
import tempfile
from fractions import Fraction

from ..core import frac

EXT_OPS = ("sex_glue",)
CELLS = ("std", "std", "par", "par-all", "skiplow", "skiplow", "ylow", "nox", "noy", "empty", "noauto", "flat", "flat")


def _grid(v, g):
    return round(v * g) / g


def _table(rng, cell, cli):
    g = 32 if cli else 1024
    style = rng.choice(["chr", ""])
    female, hapx = rng.random() < .5, rng.random() < .5
    sd = 0.0 if cell == "flat" else rng.choice([0.05, 0.2, 0.5, 1.5])
    with_w = cell not in ("ylow", "empty") and rng.random() < .4
    with_depth = cell in ("skiplow", "ylow") and not cli and rng.random() < .5
    par = rng.choice(["grch37", "grch38", "GRCh38"]) if cell in ("par", "par-all") else (
        rng.choice([None, None, "grch38"]) if cell in ("std", "skiplow", "flat") else None)
    skip_low = cell in ("skiplow", "ylow") or (cell == "noy" and rng.random() < .3)
    rows = []
    low = lambda: rng.choice([-20.0, -22.5, -16.0, -15.03125])

    def add(name, n, level, base=3000000, lowfrac=0.0, sdev=None, unif=0.0):
        keep = rng.randrange(n) if n else 0   # this bin is never a low one: every group keeps a bin under skip_low
        for i in range(n):
            v = _grid(level + rng.gauss(0, sd if sdev is None else sdev) + (rng.uniform(-unif, unif) if unif else 0.0), g)
            d = _grid(rng.uniform(1, 50), 4)
            if lowfrac and i != keep and rng.random() < lowfrac:
                if with_depth and rng.random() < .5:
                    d = 0.0
                else:
                    v = low()
            rows.append([name, base + i * 1000, base + i * 1000 + 500, v, d, _grid(rng.uniform(.3, 1), 64)])
    if cell == "empty":
        return rows, dict(hapX=hapx, par=par, skip_low=False, with_w=False, with_depth=False, female=female)
    lf = 0.25 if cell == "skiplow" else 0.0
    # flat cells: autosomes exactly flat, sex chromosomes either exact or with bounded noise inside the margin d = 1/5
    un = rng.choice([0.0, 0.19]) if cell == "flat" else 0.0
    if cell != "noauto":
        for c in range(1, rng.randint(1, 5) + 1):
            add(style + str(c), rng.randint(2, 30), 0.0, base=0, lowfrac=lf)
    xl = (0 if female else -1) + (1 if hapx else 0)
    if cell != "nox":
        nx = rng.randint(1, 40)
        if cell in ("par", "par-all") or (par and rng.random() < .5):
            # bins inside PAR1X of both builds (they count as autosomal at the autosomal level) ...
            add(style + "X", rng.randint(1, 8), 0.0, base=100000, lowfrac=lf)
        if cell != "par-all":
            add(style + "X", nx, xl, lowfrac=lf, unif=un)
    if cell not in ("noy",) and (cell in ("ylow", "nox") or rng.random() < .7):
        ny = rng.randint(1, 12)
        if cell == "ylow":
            for i in range(ny):
                rows.append([style + "Y", 3000000 + i * 1000, 3000000 + i * 1000 + 500, low(), 1.0, 0.5])
        else:
            add(style + "Y", ny, 0.0 if not female else -4.0, lowfrac=lf, sdev=(sd if not female else min(sd, 1.0)), unif=un)
    if cell == "noauto" and rng.random() < .5:
        add(style + "M", rng.randint(1, 5), 0.0)
    return rows, dict(hapX=hapx, par=par, skip_low=skip_low, with_w=with_w, with_depth=with_depth, female=female)


def gen_cases(rng, tier):
    n = {"quick": 130, "thorough": 1300, "search": 200}[tier]
    cases = []
    for k in range(n):
        cell = CELLS[k % len(CELLS)]
        cli = (k % 4 == 1) and cell not in ("empty", "skiplow", "ylow")
        rows, o = _table(rng, cell, cli)
        if o["skip_low"]:
            cli = False
        o.update(rows_f=rows, cli=cli, verbose=rng.random() < .5)
        cases.append({"op": "sex_glue", "tag": "glue-%s%s%s" % (cell, "-w" if o["with_w"] else "", "-cli" if cli else ""), "in": o})
    return cases


# ---------------------------------------------------------------------------------------------

def _cna(i):
    from cnvlib.cnary import CopyNumArray as CNA
    cols = ["chromosome", "start", "end", "gene", "log2"] + (["depth"] if i["with_depth"] else []) + (["weight"] if i["with_w"] else [])
    rows = [tuple([r[0], r[1], r[2], "G", r[3]] + ([r[4]] if i["with_depth"] else []) + ([r[5]] if i["with_w"] else []))
            for r in i["rows_f"]]
    if not rows:
        return CNA([], {"sample_id": "S", "filename": "S.cnr"})
    return CNA.from_rows(rows, columns=cols, meta_dict={"sample_id": "S", "filename": "S.cnr"})


def _num(v):
    v = float(v)
    return None if not math.isfinite(v) else frac(v)


def run_impl(case):
    import logging
    from cnvlib import cnary, commands, descriptives
    i = case["in"]
    cna = _cna(i)
    rec_m, rec_w = [], []
    real_mt, real_wm = cnary.median_test, descriptives.weighted_median

    def mt(*a, **k):
        try:
            r = real_mt(*a, **k)
        except ValueError:
            rec_m.append(None)
            raise
        rec_m.append("nan" if not math.isfinite(r[0]) else frac(float(r[0])))
        return r

    def wm(*a, **k):
        r = real_wm(*a, **k)
        rec_w.append(_num(r))
        return r
    prev = logging.root.manager.disable
    logging.disable(logging.CRITICAL)
    import warnings
    try:
        cnary.median_test, descriptives.weighted_median = mt, wm
        try:
            with warnings.catch_warnings():
                warnings.simplefilter("ignore")
                is_xy, stats = cna.compare_sex_chromosomes(i["hapX"], i["par"], i["skip_low"])
        finally:
            cnary.median_test, descriptives.weighted_median = real_mt, real_wm
        calls = []
        for k, s in enumerate(rec_m):
            c = {"stat": s}
            if i["with_w"]:
                c.update(wa=rec_w[2 * k] if 2 * k < len(rec_w) else None, wv=rec_w[2 * k + 1] if 2 * k + 1 < len(rec_w) else None)
            calls.append(c)
        out = {"is_male": None if is_xy is None else bool(is_xy), "calls": calls,
               "stats": None if not stats else {k: _num(v) for k, v in stats.items()}}
        if not i["skip_low"]:
            with warnings.catch_warnings():
                warnings.simplefilter("ignore")
                gx = cna.guess_xx(i["hapX"], i["par"], verbose=i["verbose"])
                rep = commands.do_sex([cna], i["hapX"], i["par"])
            out["guess_xx"] = None if gx is None else bool(gx)
            row = [str(rep[c].iat[0]) for c in rep.columns]
            out["columns"] = list(rep.columns)
            if i["cli"]:
                from skgenome import tabio
                d = tempfile.mkdtemp(prefix="c15glue", dir="/var/tmp")
                try:
                    fin, fout = os.path.join(d, "S.cnr"), os.path.join(d, "sex.tsv")
                    tabio.write(cna, fin)
                    argv = ["sex", fin, "-o", fout] + (["-y"] if i["hapX"] else []) + (
                        ["--diploid-parx-genome", i["par"]] if i["par"] else [])
                    a = commands.parse_args(argv)
                    with warnings.catch_warnings():
                        warnings.simplefilter("ignore")
                        a.func(a)
                    lines = [ln.rstrip("\n").split("\t") for ln in open(fout)]
                    if len(lines) != 2:
                        raise AssertionError("cnvkit.py sex did not write one row per file: %r" % (lines[:3],))
                    out["columns"] = lines[0]
                    if lines[1][1:] != row[1:]:
                        out["cli_differs"] = [lines[1], row]
                    row = [row[0]] + lines[1][1:]
                finally:
                    shutil.rmtree(d, ignore_errors=True)
            out["row"] = row
        return out
    finally:
        logging.disable(prev)


def to_line(case, impl, is_err):
    i = case["in"]
    rows = [[r[0], r[1], r[2], frac(r[3]), frac(r[4]) if i["with_depth"] else None, frac(r[5]) if i["with_w"] else None]
            for r in i["rows_f"]]
    base = {"rows": rows, "hapX": i["hapX"], "par": i["par"], "skip_low": i["skip_low"], "calls": []}
    if case["tag"].startswith("glue-flat"):
        base["margin"] = {"female": i["female"], "a": "0", "d": "1/5"}
    if is_err or any(c["stat"] == "nan" for c in impl["calls"]):
        return {"op": "sex_glue", "in": base}
    base["calls"] = impl["calls"]
    li = {"guess_xx": impl.get("guess_xx")}
    if "row" in impl:
        li["row_sex"] = impl["row"][1]
    return {"op": "sex_glue", "in": base, "impl": li}


def _close(a, b, rel=1e-9):
    a, b = float(Fraction(a)), float(Fraction(b))
    return abs(a - b) <= rel * max(1.0, abs(b))


def judge(case, impl, resp, is_err):
    if is_err:
        return ["raises_" + impl["__error__"]], [], None
    if "error" in resp:
        return [], ["model error: " + resp["error"]], None
    if any(c["stat"] == "nan" for c in impl["calls"]):
        return [], [], "Mood statistic not finite"
    i = case["in"]
    out = resp["out"]
    spec = list(resp.get("spec") or [])
    dis = []
    if out["deg_mismatch"]:
        dis.append(f"median_test raised on other tables than the model's degenerate ones: calls {out['deg_mismatch']} {out['tables']}")
    if (out["is_male"] is None) != (impl["is_male"] is None):
        dis.append(f"early return: model {out['is_male']} impl {impl['is_male']}")
        return spec, dis, None
    knife = resp.get("slack") is not None and Fraction(resp["slack"]) < Fraction(1, 10 ** 9)
    if out["is_male"] is not None:
        ms, ist = out["stats"], impl["stats"]
        for k in ("chrx_ratio", "chry_ratio", "combined_score", "chrx_male_lr", "chry_male_lr"):
            if (ms[k] is None) != (ist[k] is None):
                dis.append(f"{k}: NaN in one of model {ms[k]} impl {ist[k]}")
            elif ms[k] is not None and not _close(ist[k], ms[k]):
                dis.append(f"{k}: model {float(Fraction(ms[k]))} impl {float(Fraction(ist[k]))}")
        if not knife and out["is_male"] != impl["is_male"]:
            dis.append(f"is_male model {out['is_male']} impl {impl['is_male']}")
    if not i["skip_low"]:
        if impl["columns"] != ["sample", "sex", "X_logratio", "Y_logratio"]:
            dis.append(f"report columns {impl['columns']}")
        if impl.get("cli_differs"):
            dis.append(f"`cnvkit.py sex` row differs from do_sex: {impl['cli_differs']}")
        if not knife:
            if out["guess_xx"] != impl["guess_xx"]:
                dis.append(f"guess_xx model {out['guess_xx']} impl {impl['guess_xx']}")
            if out["row"][0] != impl["row"][1]:
                dis.append(f"report sex model {out['row'][0]} impl {impl['row'][1]}")
        for name, m, g in (("X_logratio", out["row"][1], impl["row"][2]), ("Y_logratio", out["row"][2], impl["row"][3])):
            if m == "NA" or g == "NA":
                if m != g:
                    dis.append(f"{name}: model {m} impl {g}")
                continue
            if m["v"] is None:
                if g != "nan":
                    dis.append(f"{name}: model NaN impl {g!r}")
                continue
            v = float(Fraction(m["v"]))
            try:
                gv = float(g)
            except ValueError:
                dis.append(f"{name}: model {v} impl {g!r}")
                continue
            if math.isnan(gv) or abs(gv - v) > 0.00501 * abs(v) + 1e-12:
                dis.append(f"{name}: printed {g!r} is not {v} to 3 significant digits")
            if abs(v) > 1e-9 and g.startswith("+") != m["plus"]:
                dis.append(f"{name}: sign prefix of {g!r}, model plus={m['plus']}")
            if v == 0 and g.startswith("+"):
                dis.append(f"{name}: '+' printed for an exact 0 ({g!r})")
    return spec, dis, None


def nontrivial(case, impl, resp):
    return True
