"""C10, round-5 ops (dispatched from harness/props/C10.py; Lean side: Driver/EffectsWriters.lean)

* `writer_cmd`   a REAL command function of cnvlib/commands.py (through `commands.parse_args` + `args.func`, exactly as
                 `cnvkit.py` dispatches) run 1..4 times into ONE output path inside a scratch tree, the path spelled
                 in one of the four ways a user can spell it -- absolute, `dir/name` (working directory = parent),
                 `./name`, bare `name` (working directory = the directory) -- with the output file and some of its
                 numbered backups already there or not, the directory there or not.  The final tree (directories and
                 files, contents named by which run wrote them) is compared with the model run of the FILE ACTIONS
                 the translator read from the source of that command (Generated.WRITER_TABLE: `ensure_path` + write
                 for the guarded writers, a plain overwrite for the others), and for the writers that promise not to
                 overwrite (`coverage`, `reference`) the Lean spec oracle checks the real tree.
* extra `alias_probe` cells for the public `do_*` functions / array methods the round-4 table did not probe.
"""
from __future__ import annotations

import hashlib
import os
import shutil
import tempfile

OPS = ("writer_cmd",)

SPELLINGS = ("abs", "dir", "dot", "bare")

_BEDS = {
    "A": [("chr1", 100, 400, "g1"), ("chr1", 600, 900, "g2"), ("chr2", 100, 500, "g3")],
    "B": [("chr1", 150, 450, "h1"), ("chr2", 200, 800, "h2")],
    "C": [("chr1", 100, 300, "k1"), ("chr1", 300, 500, "k1"), ("chr2", 50, 250, "k2"), ("chrX", 10, 400, "k3")],
}


def _write_inputs(root):
    """small inputs of every command, in `root/in` (never inside the observed directory)"""
    import pysam
    d = os.path.join(root, "in")
    os.mkdir(d)
    for k, rows in _BEDS.items():
        with open(os.path.join(d, "t%s.bed" % k), "w") as f:
            for r in rows:
                f.write("%s\t%d\t%d\t%s\n" % r)
    bam = os.path.join(d, "s.bam")
    header = {"HD": {"VN": "1.0", "SO": "coordinate"}, "SQ": [{"SN": "chr1", "LN": 2000}, {"SN": "chr2", "LN": 2000}]}
    with pysam.AlignmentFile(bam, "wb", header=header) as out:
        n = 0
        for tid in (0, 1):
            for pos in range(90, 900, 37):
                a = pysam.AlignedSegment()
                a.query_name = "r%d" % n
                a.query_sequence = "ACGT" * 10
                a.flag = 0
                a.reference_id = tid
                a.reference_start = pos
                a.mapping_quality = 60 if n % 3 else 20
                a.cigar = ((0, 40),)
                a.query_qualities = pysam.qualitystring_to_array("I" * 40)
                out.write(a)
                n += 1
    pysam.index(bam)
    return d


def commands_table(ind):
    """command -> the argument vectors of its variants (without the output option)"""
    F = os.path.join(os.environ.get("VERIF_REPO", "/repo"), "test", "formats")
    bed = lambda k: os.path.join(ind, "t%s.bed" % k)  # noqa: E731
    bam = os.path.join(ind, "s.bam")
    return {
        # the writers that promise not to overwrite
        "coverage": [["coverage", bam, bed("A")], ["coverage", bam, bed("A"), "-c"], ["coverage", bam, bed("B"), "-q", "50"]],
        "reference": [["reference", "-t", bed(k)] for k in "ABC"],
        # plain writers (tabio.write / write_dataframe / write_text / write_tsv, all through tabio.safe_write)
        "target": [["target", bed(k)] for k in "ABC"],
        "call": [["call", os.path.join(F, "tr95t.cns")] + v for v in ([], ["-m", "none"], ["--center", "median"])],
        "segmetrics": [["segmetrics", os.path.join(F, "amplicon.cnr"), "-s", os.path.join(F, "amplicon.cns")] + v
                       for v in (["--mean"], ["--median"], ["--mean", "--median"])],
        "export-seg": [["export", "seg", os.path.join(F, s)] for s in ("tr95t.cns", "cl_seq.cns", "nv3.cns")],
        "export-vcf": [["export", "vcf", os.path.join(F, "tr95t.cns"), "-i", s] for s in ("A", "B", "C")],
        "bintest": [["bintest", os.path.join(F, "amplicon.cnr"), "-s", os.path.join(F, "amplicon.cns")] + v
                    for v in ([], ["-a", "0.5"])],
    }


PROMISING = ("coverage", "reference")


def _run_cmd(argv):
    from cnvlib import commands
    args = commands.parse_args(argv)
    args.func(args)
    return "cnvlib.commands." + args.func.__name__


_CACHE = {}


def _inputs():
    """the input files, written once per process (removed at exit)"""
    if "ind" not in _CACHE:
        import atexit
        # pool workers are killed at the end of a run, so their atexit handlers do not fire: sweep what earlier runs left behind
        import glob, time
        for stale in glob.glob("/var/tmp/c10wrin*"):
            try:
                if time.time() - os.path.getmtime(stale) > 1800:
                    shutil.rmtree(stale, ignore_errors=True)
            except OSError:
                pass
        r = tempfile.mkdtemp(dir="/var/tmp", prefix="c10wrin")
        atexit.register(shutil.rmtree, r, ignore_errors=True)
        _CACHE["ind"] = _write_inputs(r)
    return _CACHE["ind"]


def _variant_texts(cmd, variants, root):
    """what each variant of a command writes (to a fresh path outside the observed directory), once per process"""
    if cmd not in _CACHE:
        out, fn = [], None
        for j, argv in enumerate(variants):
            refp = os.path.join(root, "ref%d" % j)
            fn = _run_cmd(argv + ["-o", refp])
            out.append(open(refp).read())
        _CACHE[cmd] = (fn, out)
    return _CACHE[cmd]


def run_writer_cmd(C, case):
    from . import _c10ext
    i = case["in"]
    root = tempfile.mkdtemp(dir="/var/tmp", prefix="c10wr")
    cwd = os.getcwd()
    try:
        ind = _inputs()
        variants = commands_table(ind)[i["cmd"]]
        d = os.path.join(root, "d")
        os.mkdir(d)
        for dd in i["dirs"]:
            os.makedirs(os.path.join(d, *dd), exist_ok=True)
        for name, tok in i["pre"]:
            with open(os.path.join(d, name), "w") as f:
                f.write(tok)
        texts = {tok: tok for _n, tok in i["pre"]}
        # what each variant writes, named by the first variant that writes that text
        fn, vtexts = _variant_texts(i["cmd"], variants, root)
        toks = [texts.setdefault(t, "v%d" % j) for j, t in enumerate(vtexts)]
        sp = i["spelling"]
        os.chdir(root if sp == "dir" else d)
        fname = {"abs": os.path.join(d, i["path"]), "dir": "d/" + i["path"], "dot": "./" + i["path"], "bare": i["path"]}[sp]
        parg = _c10ext._path_arg(d, fname)
        writes = []
        for k in range(i["writes"]):
            _run_cmd(variants[k % len(variants)] + ["-o", fname])
            writes.append(toks[k % len(variants)])
        files, dirs = [], []
        for dp, _dn, fns in os.walk(d):
            rel = os.path.relpath(dp, d)
            dirs.append([] if rel == "." else rel.split(os.sep))
            for f in fns:
                p = os.path.join(dp, f)
                t = open(p).read()
                files.append([os.path.relpath(p, d), texts.get(t, "?" + hashlib.sha1(t.encode()).hexdigest()[:8])])
        return {"files": sorted(files), "dirs": sorted(dirs, key="/".join), "path": parg, "fn": fn, "writes": writes,
                "fname": fname}
    finally:
        os.chdir(cwd)
        shutil.rmtree(root, ignore_errors=True)


def writer_case(rng, cmd=None, spelling=None, tag="writer"):
    cmd = cmd or rng.choice(list(commands_table("/x")))
    sp = spelling or rng.choice(SPELLINGS)
    # a bare name has no directory part; the other spellings also get paths below sub-directories
    path = "out.cnn" if sp == "bare" else rng.choice(["out.cnn", "out.cnn", "sub/out.cnn", "new/deep/out.cnn"])
    dn = path.split("/")[:-1]
    promising = cmd in PROMISING
    # a plain writer (tabio.safe_write) makes at most one directory level, and only for a path spelled with it
    if dn and (promising and rng.random() < 0.5):
        dirs = []
    else:
        dirs = [dn] if dn else ([["other"]] if rng.random() < 0.3 else [])
    from ._c10ext import _dirs_closed
    dirs = _dirs_closed([x for x in dirs if x])
    pre = []
    if list(dn) in dirs:
        cand = [path, path + ".1", path + ".2", path + ".3", path + ".10", path + ".1.1", "/".join(dn + ["other.cnn"])]
        r = rng.random()
        pre = [path] if r < 0.3 else ([n for n in cand if rng.random() < 0.45] if r < 0.85 else [])
    pre = sorted(set(pre))
    return {"op": "writer_cmd", "tag": "%s-%s-%s%s" % (tag, cmd, sp, "-existing" if path in pre else ""),
            "in": {"cmd": cmd, "spelling": sp, "path": path, "dirs": dirs,
                   "pre": [[n, "pre:%d:%s" % (j, n)] for j, n in enumerate(pre)], "writes": rng.randint(1, 4)}}


# ---------------------------------------------------------------------------------------------
# interface pieces


def run_impl(C, case):
    if case["op"] == "writer_cmd":
        return run_writer_cmd(C, case)
    raise ValueError(case["op"])


def to_line(C, case, impl):
    from . import _c10ext
    op, i = case["op"], case["in"]
    failed = C._failed(impl)
    if op == "writer_cmd":
        parg = impl["path"] if not failed else _c10ext._path_arg("/x/d", os.path.join("/x/d", i["path"]))
        fn = impl["fn"] if not failed else "cnvlib.commands._cmd_" + i["cmd"].replace("-", "_")
        ws = impl["writes"] if not failed else ["v%d" % k for k in range(i["writes"])]
        return {"op": op, "in": {"fn": fn, "dirs": _c10ext._dirs_closed(i["dirs"]), "pre": i["pre"], "path": parg, "writes": ws},
                "impl": None if failed else {"files": impl["files"], "dirs": impl["dirs"]}}
    raise ValueError(op)


def judge(C, case, impl, resp):
    op, out = case["op"], resp["out"]
    spec_fail = list(resp.get("spec") or [])
    disagree = []
    if op == "writer_cmd":
        got = {"files": impl["files"], "dirs": impl["dirs"]}
        if not resp.get("known"):
            disagree.append("the writer table read from the source has no row for %s" % impl["fn"])
        elif out != got:
            disagree.append("%s x%d into %r: tree %s; the file actions read from its source (%s, output %s) give %s" % (
                impl["fn"], case["in"]["writes"], impl["fname"], got,
                "guarded" if resp.get("guarded") else "not guarded", resp.get("expr"), out))
        if resp.get("promised") != (case["in"]["cmd"] in PROMISING):
            disagree.append("promise list: model %s, harness %s" % (resp.get("promised"), case["in"]["cmd"] in PROMISING))
        if not resp.get("promise_kept", True):
            spec_fail.append("writer_promises_kept")
    return spec_fail, disagree, None


def nontrivial(C, case, impl, resp):
    i = case["in"]
    return i["writes"] >= 2 or any(n == i["path"] for n, _t in i["pre"])


def gen_cases(C, rng, tier, dss):
    out = []
    cmds = list(commands_table("/x"))
    # every promising writer x every spelling (twice), every plain writer x the bare name and another spelling (quick) /
    # every spelling (thorough), then random
    for cmd in cmds:
        for sp in (SPELLINGS if cmd in PROMISING or tier != "quick" else ("bare", rng.choice(SPELLINGS[:3]))):
            for _ in range(2 if cmd in PROMISING else 1):
                out.append(writer_case(rng, cmd, sp))
    for _ in range({"quick": 8, "thorough": 150}.get(tier, 20)):
        out.append(writer_case(rng, rng.choice(PROMISING) if rng.random() < 0.6 else None))
    return out


def corpus(C):
    mk = lambda cmd, sp, path, dirs, pre, k: {"op": "writer_cmd", "tag": "corpus-writer-%s-%s" % (cmd, sp), "in": {  # noqa: E731
        "cmd": cmd, "spelling": sp, "path": path, "dirs": dirs, "pre": [[n, "pre:" + n] for n in pre], "writes": k}}
    return [
        # the bare name: no directory block, the existing file and its first backup are there
        mk("coverage", "bare", "out.cnn", [], ["out.cnn", "out.cnn.1"], 3),
        mk("reference", "bare", "out.cnn", [], ["out.cnn"], 2),
        mk("coverage", "dot", "out.cnn", [], ["out.cnn"], 2),
        mk("reference", "dir", "new/deep/out.cnn", [], [], 3),
        mk("coverage", "abs", "sub/out.cnn", [["sub"]], ["sub/out.cnn", "sub/out.cnn.2"], 3),
        # a plain writer overwrites
        mk("target", "bare", "out.cnn", [], ["out.cnn"], 2),
    ]


# ---------------------------------------------------------------------------------------------
# more alias_probe cells (the op itself, its Lean handler and its judge are round 4's: harness/props/_c10ext.py)


def extra_probes():
    """round 5: alias_probe cells for the public pipeline steps / array methods of the alias table's entry list that
    round 4 did not call (same protocol: fresh arguments, which named arguments changed)"""
    from cnvlib import target, antitarget, metrics, export, commands

    def P(fn, tag, b):
        return (fn, tag, b)

    def fn2(f, names):
        def b(e):
            named = {k: e[v] for k, v in names.items()}
            return named, lambda: f(e)
        return b

    def meth(name, argf=lambda e: ((), {}), key="cnr", extra=None):
        def b(e):
            a, k = argf(e)
            named = {"self": e[key]}
            for n, v in (extra or {}).items():
                named[n] = e[v]
            return named, lambda: getattr(e[key], name)(*a, **k)
        return b

    return [
        P("cnvlib.target.do_target", "", fn2(lambda e: target.do_target(e["bait"], do_short_names=True, do_split=True, avg_size=150),
                                              {"bait_arr": "bait"})),
        P("cnvlib.antitarget.do_antitarget", "", fn2(lambda e: antitarget.do_antitarget(e["bait"], e["acc"], 5000, 500),
                                                      {"targets": "bait", "access": "acc"})),
        P("cnvlib.metrics.do_metrics", "", fn2(lambda e: metrics.do_metrics(e["cnr"], e["seg"]), {"cnarrs": "cnr", "segments": "seg"})),
        P("cnvlib.metrics.do_metrics", "lists", fn2(lambda e: metrics.do_metrics(e["CNRS"], e["SEGS"], skip_low=True),
                                                     {"cnarrs": "CNRS", "segments": "SEGS"})),
        P("cnvlib.commands.do_sex", "", fn2(lambda e: commands.do_sex(e["CNRS"], False, None), {"cnarrs": "CNRS"})),
        P("cnvlib.export.export_theta", "", fn2(lambda e: export.export_theta(e["seg"], e["cnr"]), {"tumor_segs": "seg", "normal_cn": "cnr"})),
        P("cnvlib.export.export_nexus_basic", "", fn2(lambda e: export.export_nexus_basic(e["cnr"]), {"cnarr": "cnr"})),
        P("cnvlib.export.export_nexus_ogt", "mw", fn2(lambda e: export.export_nexus_ogt(e["cnr"], e["vcf"], 0.45), {"cnarr": "cnr", "varr": "vcf"})),
        P("skgenome.gary.GenomicArray.subtract", "", meth("subtract", lambda e: ((e["regions"],), {}), extra={"other": "regions"})),
        P("skgenome.gary.GenomicArray.intersection", "", meth("intersection", lambda e: ((e["regions"],), {}), extra={"other": "regions"})),
        P("skgenome.gary.GenomicArray.subdivide", "", meth("subdivide", lambda e: ((200,), {}), key="regions")),
        P("skgenome.gary.GenomicArray.resize_ranges", "", meth("resize_ranges", lambda e: ((50,), {}), key="regions")),
        P("skgenome.gary.GenomicArray.keep_columns", "", meth("keep_columns", lambda e: ((["chromosome", "start", "end", "gene", "log2"],), {}))),
        P("skgenome.gary.GenomicArray.drop_extra_columns", "", meth("drop_extra_columns")),
        P("skgenome.gary.GenomicArray.into_ranges", "", meth("into_ranges", lambda e: ((e["regions"], "log2", 0.0), {}), extra={"other": "regions"})),
        P("cnvlib.cnary.CopyNumArray.residuals", "", meth("residuals", lambda e: ((e["seg"],), {}), extra={"segments": "seg"})),
        P("cnvlib.cnary.CopyNumArray.guess_xx", "", meth("guess_xx")),
        P("cnvlib.cnary.CopyNumArray.expect_flat_log2", "", meth("expect_flat_log2")),
        P("skgenome.gary.GenomicArray.concat", "", meth("concat", lambda e: (([e["cnr2"]],), {}), extra={"others": "cnr2"})),
    ]


def _install_extra_probes():
    """append the round-5 cells to the probe list of _c10ext (its generator and index iterate `probes()`)"""
    from . import _c10ext
    if getattr(_c10ext.probes, "_round5", False):
        return
    orig = _c10ext.probes

    def probes():
        return orig() + extra_probes()
    probes._round5 = True
    _c10ext.probes = probes


_install_extra_probes()
