"""Shared adapter for the calling family (C01, C02): do_call on synthetic segment tables."""
from __future__ import annotations

import math
from fractions import Fraction

from ..core import frac

PAR = {
    "grch37": {"PAR1X": [60000, 2699520], "PAR2X": [154931043, 155260560], "PAR1Y": [10000, 2649520], "PAR2Y": [59034049, 59363566]},
    "grch38": {"PAR1X": [10000, 2781479], "PAR2X": [155701382, 156030895], "PAR1Y": [10000, 2781479], "PAR2Y": [56887902, 57217415]},
}
DEFAULT_THR = (-1.1, -0.25, 0.2, 0.7)
# keys of a case that only steer run_impl (how the table is built / which door is used); never sent to the model
HARNESS_KEYS = {"cli", "cli_opts", "extra", "colorder", "sub", "dupidx", "callstyle", "repeat", "entry", "purity_kind",
                "keep_n"}


def prose_copies(cls, ploidy, hapx, female):
    """(reference, germline) copies as the property's prose states them (independent of the model)"""
    half = ploidy // 2
    if cls in ("auto", "parx"):
        return ploidy, ploidy
    if cls == "x":
        return (half if hapx else ploidy), (ploidy if female else half)
    if cls == "y":
        return half, (0 if female else half)
    if cls == "pary":
        return 0, 0
    raise ValueError(cls)


def make_row(rng, cls, style, par):
    """coordinates for a row of the given chromosome class"""
    pre = "chr" if style == "chr" else ""
    if cls == "auto":
        c = pre + str(rng.randint(1, 22))
        s = rng.randint(0, 10 ** 8)
        return c, s, s + rng.randint(1, 10 ** 6)
    if cls in ("x", "y"):
        c = pre + cls.upper()
        if par is None:
            s = rng.randint(0, 5 * 10 ** 7)
            return c, s, s + rng.randint(1, 10 ** 6)
        # outside PAR: between the two regions, or straddling a PAR boundary by one base
        k = "X" if cls == "x" else "Y"
        p1, p2 = PAR[par]["PAR1" + k], PAR[par]["PAR2" + k]
        choice = rng.random()
        if choice < 0.5:
            s = rng.randint(p1[1] + 1, p2[0] - 10 ** 6)
            return c, s, s + rng.randint(1, 10 ** 5)
        if choice < 0.65:
            return c, p1[0] - 1, p1[0] + 50  # starts one base before PAR1
        if choice < 0.8:
            return c, p1[1] - 50, p1[1] + 1  # ends one base after PAR1
        if choice < 0.9:
            return c, p2[0] - 1, p2[1]
        return c, p2[0], p2[1] + 1
    if cls in ("parx", "pary"):
        k = "X" if cls == "parx" else "Y"
        c = pre + k
        lo, hi = PAR[par][rng.choice(["PAR1" + k, "PAR2" + k])]
        choice = rng.random()
        if choice < 0.3:
            return c, lo, hi
        if choice < 0.5:
            return c, lo, lo + rng.randint(1, 1000)
        if choice < 0.7:
            return c, hi - rng.randint(1, 1000), hi
        s = rng.randint(lo, hi - 2)
        return c, s, rng.randint(s + 1, hi)
    raise ValueError(cls)


def _rows_out(d, purity):
    res = []
    for k in range(len(d)):
        cn = None
        if "cn" in d.columns:
            cn = int(d["cn"].iat[k])
        ratio = None
        if purity is not None and purity and purity < 1.0:
            ratio = frac(2.0 ** float(d["log2"].iat[k]))
        c1 = c2 = None
        if "cn1" in d.columns:
            a, b = d["cn1"].iat[k], d["cn2"].iat[k]
            c1 = None if (a is None or (isinstance(a, float) and math.isnan(a)) or a != a) else int(a)
            c2 = None if (b is None or (isinstance(b, float) and math.isnan(b)) or b != b) else int(b)
        res.append([cn, ratio, c1, c2])
    return res


def build_cna(i):
    """the CopyNumArray of a case.  Optional keys (all absent = the plain table with a RangeIndex):
    `extra` (names of additional columns, incl. a stale `cn`), `colorder` (seed: columns shuffled),
    `sub` (seed: the table is a boolean-mask SUBSET of a larger one, so index labels != positions),
    `dupidx` (index labels repeat, as after pd.concat without ignore_index)"""
    import random
    import numpy as np
    import pandas as pd
    from cnvlib.cnary import CopyNumArray as CNA

    rows = i["rows"]
    cols = ["chromosome", "start", "end", "gene", "log2"]
    data = []
    for r, lg in zip(rows, i["log2_f"]):
        data.append([r[0], r[1], r[2], "G", float("nan") if lg is None else lg])
    if i["has_baf"]:
        cols = cols + ["baf"]
        for row, r in zip(data, rows):
            row.append(float("nan") if r[5] is None else float(Fraction(r[5])))
    extra = list(i.get("extra") or [])
    for name in extra:
        cols = cols + [name]
        for k, row in enumerate(data):
            lg = row[4]
            row.append({"depth": 1.0 + 0.5 * k, "probes": k + 1, "weight": 0.25 + (k % 7) / 10.0, "cn": 7 + k % 3,
                        "ci_lo": lg - 0.125, "ci_hi": lg + 0.125, "p_ttest": 0.5}.get(name, 0.0))
    meta = {"sample_id": "S"}
    if not (extra or i.get("colorder") is not None or i.get("sub") is not None or i.get("dupidx")):
        return CNA.from_rows([tuple(x) for x in data], columns=cols, meta_dict=meta)
    mask = [True] * len(data)
    if i.get("sub") is not None and data:
        rng = random.Random(i["sub"])
        big, mask = [], []
        for row in data:
            for _ in range(rng.choice([0, 1, 1, 2, 3])):
                j = list(rng.choice(data))
                j[3], j[4] = "junk", 5.0 + rng.random()
                big.append(j)
                mask.append(False)
            big.append(row)
            mask.append(True)
        if all(mask):
            j = list(data[-1])
            j[3], j[4] = "junk", 5.5
            big.insert(0, j)
            mask.insert(0, False)
        data = big
    df = pd.DataFrame.from_records([tuple(x) for x in data], columns=cols)
    if i.get("colorder") is not None:
        perm = list(cols)
        random.Random(i["colorder"]).shuffle(perm)
        df = df[perm]
    cna = CNA(df, meta)
    if not all(mask):
        cna = cna[np.array(mask)]
    if i.get("dupidx") and len(cna) > 1:
        d = cna.data.copy()
        d.index = pd.Index([k % max(1, len(d) // 2) for k in range(len(d))])
        cna = CNA(d, meta)
    return cna


def _purity_arg(i):
    import numpy as np
    if i["purity"] is None:
        return None
    p = i["purity_f"]
    kind = i.get("purity_kind")
    if kind == "int" and p == 1.0:
        return 1
    if kind == "np":
        return np.float64(p)
    return p


def _do_call(call, cna, va, i, purity):
    """positional call with every argument given (default), or by keyword with the defaults left implicit"""
    par = i.get("par_f", i["par"])
    if i.get("callstyle", "positional") == "positional":
        return call.do_call(cna, va, i["method"], i["ploidy"], purity, i["hapX"], i["female"], par,
                            None, tuple(i["thr_f"]))
    kw = {}
    if va is not None:
        kw["variants"] = va
    if i["method"] != "threshold":
        kw["method"] = i["method"]
    if i["ploidy"] != 2:
        kw["ploidy"] = i["ploidy"]
    if purity is not None:
        kw["purity"] = purity
    if i["hapX"]:
        kw["is_haploid_x_reference"] = True
    if i["female"]:
        kw["is_sample_female"] = True
    if par is not None:
        kw["diploid_parx_genome"] = par
    if tuple(i["thr_f"]) != DEFAULT_THR:
        kw["thresholds"] = tuple(i["thr_f"])
    return call.do_call(cna, **kw)


def _run_direct(call, cna, i, purity):
    """the entry points below do_call, called on the table itself: absolute_clonal / absolute_dataframe (any
    purity, incl. None and 1.0 as export does) and absolute_pure, composed as do_call composes them"""
    import numpy as np
    entry, par = i["entry"], i.get("par_f", i["par"])
    ploidy, hapx, female = i["ploidy"], i["hapX"], i["female"]
    direct = {}
    active = purity is not None and purity and purity < 1.0
    if entry == "absolute_pure":
        absolutes = call.absolute_pure(cna, ploidy, hapx)
        cns = [int(c) for c in np.asarray(absolutes).round().astype("int")]
        return {"direct": direct, "out": [[c, None, None, None] for c in cns]}
    if entry == "absolute_dataframe":
        df = call.absolute_dataframe(cna, ploidy, purity, hapx, par, female)
        absolutes = df["absolute"]
        direct["reference"] = [int(v) for v in df["reference"]]
        direct["expect"] = [int(v) for v in df["expect"]]
        direct["abs_reference"] = [int(v) for v in call.absolute_reference(cna, ploidy, par, hapx)]
        direct["abs_expect"] = [int(v) for v in call.absolute_expect(cna, ploidy, par, female)]
    else:
        absolutes = call.absolute_clonal(cna, ploidy, purity, hapx, par, female)
    direct["len_ok"] = len(absolutes) == len(cna)
    cns = [int(c) for c in absolutes.round().astype("int")]
    ratios = [None] * len(cns)
    if active:
        lg = call.log2_ratios(cna, absolutes, ploidy, hapx, par)
        ratios = [frac(2.0 ** float(v)) for v in np.asarray(lg, dtype=float)]
    return {"direct": direct, "out": [[c, r, None, None] for c, r in zip(cns, ratios)]}


SEX_MALE = ("m", "y", "male", "Male")
SEX_FEMALE = ("f", "x", "female", "Female")


def run_impl(case):
    import numpy as np
    from cnvlib import call

    i = case["in"]
    cna = build_cna(i)
    purity = _purity_arg(i)
    if i.get("cli"):
        # end to end through the command line: write a .cns, run `cnvkit.py call`, read the result back
        import os, shutil, tempfile
        from skgenome import tabio
        from cnvlib import commands
        from cnvlib.cmdutil import read_cna
        os.makedirs("/var/tmp/verif-call", exist_ok=True)
        d = tempfile.mkdtemp(dir="/var/tmp/verif-call")
        try:
            fin, fout = os.path.join(d, "S.cns"), os.path.join(d, "S.call.cns")
            tabio.write(cna, fin)
            opt = i.get("cli_opts") or {}
            argv = ["call", fin, "-m", i["method"], "-o", fout]
            if not (opt.get("implicit") and i["ploidy"] == 2):
                argv += ["--ploidy", str(i["ploidy"])]
            if not (opt.get("implicit") and tuple(i["thr_f"]) == DEFAULT_THR):
                argv.append("-t=" + ",".join(repr(t) for t in i["thr_f"]))
            # sample sex: any accepted spelling, or left out (then inferred from the table, see `female_eff`)
            sex = opt.get("sex", "female" if i["female"] else "male")
            if sex is not None:
                argv += [opt.get("sex_flag", "-x"), sex]
            if purity is not None and case.get("op") == "cmd_call":
                argv.append("--purity=" + repr(float(purity)))   # also negative / exponent spellings
            elif purity is not None:
                argv += ["--purity", repr(float(purity))]
            if i["hapX"]:
                argv.append(opt.get("hapx_flag", "-y"))
            if i["par"]:
                argv += ["--diploid-parx-genome", i.get("par_f", i["par"])]
            if opt.get("center_at") is not None:
                argv.append("--center-at=" + repr(float(opt["center_at"])))
            if opt.get("center"):
                argv += ["--center", opt["center"]]
            args = commands.parse_args(argv)
            if case.get("op") == "cmd_call":
                # the glue op models the refusals of `_cmd_call` itself
                try:
                    args.func(args)
                except RuntimeError as exc:
                    return {"cli_error": "RuntimeError", "msg": str(exc)[:200], "wrote": os.path.exists(fout)}
            else:
                args.func(args)
            rr = read_cna(fin).data
            reread = [[str(r.chromosome), int(r.start), int(r.end), float(r.log2),
                       (None if not i["has_baf"] or r.baf != r.baf else float(r.baf))] for r in rr.itertuples()]
            res = {"cli_rows": reread, "out": _rows_out(read_cna(fout).data, purity)}
            if sex is None:
                # the sex the command line works with when none is stated: guess_xx of the table as read
                g = read_cna(fin).guess_xx(i["hapX"], i["par"], verbose=False)
                res["female_eff"] = bool(g) if g is not None else False
            return res
        finally:
            shutil.rmtree(d, ignore_errors=True)
    if i.get("entry") and i["entry"] != "do_call":
        return _run_direct(call, cna, i, purity)
    if i.get("variants"):
        # b-allele frequencies supplied as a VariantArray: do_call takes the per-segment BAF from
        # variants.baf_by_ranges (C18's subject: its values enter the model as a parameter) and rescales it for purity
        from cnvlib.vary import VariantArray
        va = VariantArray.from_rows([(c, p, p + 1, "A", "G", f) for c, p, f in i["snps_f"]],
                                    columns=["chromosome", "start", "end", "ref", "alt", "alt_freq"],
                                    meta_dict={"sample_id": "S"})
        va.sort()
        bafs = [None if b != b else float(b) for b in np.asarray(va.baf_by_ranges(cna), dtype=float)]
        out = _do_call(call, cna, va, i, purity)
        return {"var_baf": bafs, "out": _rows_out(out.data, purity)}
    if i.get("repeat"):
        # the same table object called twice: the second result must not depend on the first call
        _do_call(call, cna, None, i, purity)
    out = _do_call(call, cna, None, i, purity)
    return _rows_out(out.data, purity)


def to_line(case, impl):
    i = case["in"]
    line = {"op": "call", "in": {k: v for k, v in i.items() if not k.endswith("_f") and k not in HARNESS_KEYS}}
    if isinstance(impl, dict) and "__error__" in impl:
        return line
    if isinstance(impl, dict) and "cli_rows" in impl:
        # the command line reads the table from a file: rows arrive sorted and with their log2 as written (%.6g)
        key_n = {}
        for r, n in zip(i["rows"], i.get("n") or [None] * len(i["rows"])):
            k = (r[0], r[1], r[2])
            key_n[k] = n if k not in key_n else None
        line["in"]["rows"] = [[c, s, e, frac(lg), frac(2.0 ** lg), None if b is None else frac(b)]
                              for c, s, e, lg, b in impl["cli_rows"]]
        # the expected n was derived from the unrounded log2: dropped (the model is compared instead) unless the
        # case vouches (`keep_n`) that 6 significant digits cannot move the copy number across a rounding boundary
        line["in"]["n"] = [key_n.get((c, s, e)) if i.get("keep_n") else None for c, s, e, lg, b in impl["cli_rows"]]
        if "female_eff" in impl:
            line["in"]["female"] = impl["female_eff"]  # sex not stated on the command line: the inferred one
        line["impl"] = impl["out"]
        return line
    if isinstance(impl, dict) and "var_baf" in impl:
        line["in"]["rows"] = [r[:5] + [None if b is None else frac(b)] for r, b in zip(i["rows"], impl["var_baf"])]
        line["in"]["has_baf"] = True
        line["impl"] = impl["out"]
        return line
    if isinstance(impl, dict) and "direct" in impl:
        line["impl"] = impl["out"]
        return line
    line["impl"] = impl
    return line


def judge_with(clauses_of_interest):
    def judge(case, impl, resp):
        if isinstance(impl, dict) and "__error__" in impl:
            return ["raises_" + impl["__error__"]], [], None
        if "error" in resp:
            return [], ["model error: " + resp["error"]], None
        spec = [c for c in (resp.get("spec") or []) if c in clauses_of_interest]
        out = resp["out"]
        rtol = 1e-9
        if isinstance(impl, dict) and "cli_rows" in impl:
            impl = impl["out"]
            rtol = 5e-5  # the rewritten log2 went through a file: 6 significant digits
        if isinstance(impl, dict) and ("var_baf" in impl or "direct" in impl):
            impl = impl["out"]
        slack = [Fraction(s) for s in resp["slack"]]
        disagree = []
        knife = None
        if len(out) != len(impl):
            return spec + (["rowcount_preserved"] if "rowcount_preserved" in clauses_of_interest else []), ["row count"], None
        for k, (m, im) in enumerate(zip(out, impl)):
            # knife-edge: the exact value is within 1e-9 of a rounding boundary -- or within 1e-13 of its own size
            # (doubles carry 16 digits: at log2 near 30 the copy number is ~1e9 and float error alone exceeds 1e-9)
            if slack[k] < Fraction(1, 10 ** 9) + (Fraction(abs(m[0]), 10 ** 13) if m[0] is not None else 0):
                knife = "rounding boundary within 1e-9"
                continue
            if m[0] != im[0] or m[2] != im[2] or m[3] != im[3]:
                disagree.append(f"row {k}: model {m} impl {im}")
                break
            if (m[1] is None) != (im[1] is None):
                disagree.append(f"row {k}: ratio presence model {m[1]} impl {im[1]}")
                break
            if m[1] is not None:
                a, b = float(Fraction(im[1])), Fraction(m[1])
                if abs(a - float(b)) > rtol * max(1.0, abs(float(b))):
                    disagree.append(f"row {k}: ratio model {float(b)} impl {a}")
                    break
        return spec, disagree, (knife if not disagree and not spec else None)
    return judge


def shrink(case):
    i = case["in"]
    rows = i["rows"]
    for k in range(len(rows)):
        c = {"op": case["op"], "tag": "shrunk", "in": dict(i)}
        for key in ("rows", "log2_f", "n"):
            if key in i and i[key] is not None:
                c["in"][key] = i[key][:k] + i[key][k + 1:]
        if c["in"]["rows"]:
            yield c


OTHER_AUTOSOME_NAMES = ["M", "MT", "Un_gl000220", "6_apd_hap1", "1_gl000191_random", "EBV", "23", "x1", "Yp"]


def other_names(rng, case, share=0.4):
    """autosome-class rows under names that are not 1..22 (mitochondrion, unplaced / random contigs, alternate haplotypes,
    names that merely contain an x or a y): every one of them carries `ploidy` copies in the reference on every path.
    Row 0 keeps its name (it fixes the naming style)."""
    i = case["in"]
    rows = i["rows"]
    pre = "chr" if rows and rows[0][0].startswith("chr") else ""
    hit = False
    for k in range(1, len(rows)):
        c = rows[k][0]
        core = c[3:] if c.startswith("chr") else c
        if core.isdigit() and rng.random() < share:
            rows[k] = [pre + rng.choice(OTHER_AUTOSOME_NAMES)] + list(rows[k][1:])
            hit = True
    if hit:
        case["tag"] += "+othernames"
    return case
