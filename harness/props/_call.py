"""Shared adapter for the calling family (C01, C02): do_call on synthetic segment tables."""
from __future__ import annotations

import math
from fractions import Fraction

from ..core import frac

PAR = {
    "grch37": {"PAR1X": [60000, 2699520], "PAR2X": [154931043, 155260560], "PAR1Y": [10000, 2649520], "PAR2Y": [59034049, 59363566]},
    "grch38": {"PAR1X": [10000, 2781479], "PAR2X": [155701382, 156030895], "PAR1Y": [10000, 2781479], "PAR2Y": [56887902, 57217415]},
}
DEFAULT_THR = (-1.1, -0.25, 0.2, 0.7)


def prose_copies(cls, ploidy, hapx, female):
    """(reference, germline) copies as the property's prose states them (independent of the model)"""
    half = ploidy // 2
    if cls in ("auto", "parx"):
        return ploidy, ploidy
    if cls == "x":
        return (half if hapx else ploidy), (ploidy if female else half)
    if cls == "y":
        return half, (0 if female else half)
    if cls == "pary":
        return 0, 0
    raise ValueError(cls)


def make_row(rng, cls, style, par):
    """coordinates for a row of the given chromosome class"""
    pre = "chr" if style == "chr" else ""
    if cls == "auto":
        c = pre + str(rng.randint(1, 22))
        s = rng.randint(0, 10 ** 8)
        return c, s, s + rng.randint(1, 10 ** 6)
    if cls in ("x", "y"):
        c = pre + cls.upper()
        if par is None:
            s = rng.randint(0, 5 * 10 ** 7)
            return c, s, s + rng.randint(1, 10 ** 6)
        # outside PAR: between the two regions, or straddling a PAR boundary by one base
        k = "X" if cls == "x" else "Y"
        p1, p2 = PAR[par]["PAR1" + k], PAR[par]["PAR2" + k]
        choice = rng.random()
        if choice < 0.5:
            s = rng.randint(p1[1] + 1, p2[0] - 10 ** 6)
            return c, s, s + rng.randint(1, 10 ** 5)
        if choice < 0.65:
            return c, p1[0] - 1, p1[0] + 50  # starts one base before PAR1
        if choice < 0.8:
            return c, p1[1] - 50, p1[1] + 1  # ends one base after PAR1
        if choice < 0.9:
            return c, p2[0] - 1, p2[1]
        return c, p2[0], p2[1] + 1
    if cls in ("parx", "pary"):
        k = "X" if cls == "parx" else "Y"
        c = pre + k
        lo, hi = PAR[par][rng.choice(["PAR1" + k, "PAR2" + k])]
        choice = rng.random()
        if choice < 0.3:
            return c, lo, hi
        if choice < 0.5:
            return c, lo, lo + rng.randint(1, 1000)
        if choice < 0.7:
            return c, hi - rng.randint(1, 1000), hi
        s = rng.randint(lo, hi - 2)
        return c, s, rng.randint(s + 1, hi)
    raise ValueError(cls)


def _rows_out(d, purity):
    res = []
    for k in range(len(d)):
        cn = None
        if "cn" in d.columns:
            cn = int(d["cn"].iat[k])
        ratio = None
        if purity is not None and purity and purity < 1.0:
            ratio = frac(2.0 ** float(d["log2"].iat[k]))
        c1 = c2 = None
        if "cn1" in d.columns:
            a, b = d["cn1"].iat[k], d["cn2"].iat[k]
            c1 = None if (a is None or (isinstance(a, float) and math.isnan(a)) or a != a) else int(a)
            c2 = None if (b is None or (isinstance(b, float) and math.isnan(b)) or b != b) else int(b)
        res.append([cn, ratio, c1, c2])
    return res


def run_impl(case):
    import numpy as np
    from cnvlib.cnary import CopyNumArray as CNA
    from cnvlib import call

    i = case["in"]
    rows = i["rows"]
    cols = ["chromosome", "start", "end", "gene", "log2"]
    data = []
    for r, lg in zip(rows, i["log2_f"]):
        row = [r[0], r[1], r[2], "G", float("nan") if lg is None else lg]
        data.append(row)
    if i["has_baf"]:
        cols = cols + ["baf"]
        for row, r in zip(data, rows):
            row.append(float("nan") if r[5] is None else float(Fraction(r[5])))
    cna = CNA.from_rows([tuple(x) for x in data], columns=cols, meta_dict={"sample_id": "S"})
    purity = None if i["purity"] is None else i["purity_f"]
    if i.get("cli"):
        # end to end through the command line: write a .cns, run `cnvkit.py call`, read the result back
        import os, shutil, tempfile
        from skgenome import tabio
        from cnvlib import commands
        from cnvlib.cmdutil import read_cna
        os.makedirs("/var/tmp/verif-call", exist_ok=True)
        d = tempfile.mkdtemp(dir="/var/tmp/verif-call")
        try:
            fin, fout = os.path.join(d, "S.cns"), os.path.join(d, "S.call.cns")
            tabio.write(cna, fin)
            argv = ["call", fin, "-m", i["method"], "--ploidy", str(i["ploidy"]), "-o", fout,
                    "-x", "female" if i["female"] else "male", "-t=" + ",".join(repr(t) for t in i["thr_f"])]
            if purity is not None:
                argv += ["--purity", repr(purity)]
            if i["hapX"]:
                argv.append("-y")
            if i["par"]:
                argv += ["--diploid-parx-genome", i["par"]]
            args = commands.parse_args(argv)
            args.func(args)
            rr = read_cna(fin).data
            reread = [[str(r.chromosome), int(r.start), int(r.end), float(r.log2),
                       (None if not i["has_baf"] or r.baf != r.baf else float(r.baf))] for r in rr.itertuples()]
            return {"cli_rows": reread, "out": _rows_out(read_cna(fout).data, purity)}
        finally:
            shutil.rmtree(d, ignore_errors=True)
    if i.get("variants"):
        # b-allele frequencies supplied as a VariantArray: do_call takes the per-segment BAF from
        # variants.baf_by_ranges (C18's subject: its values enter the model as a parameter) and rescales it for purity
        from cnvlib.vary import VariantArray
        va = VariantArray.from_rows([(c, p, p + 1, "A", "G", f) for c, p, f in i["snps_f"]],
                                    columns=["chromosome", "start", "end", "ref", "alt", "alt_freq"],
                                    meta_dict={"sample_id": "S"})
        va.sort()
        bafs = [None if b != b else float(b) for b in np.asarray(va.baf_by_ranges(cna), dtype=float)]
        out = call.do_call(cna, va, i["method"], i["ploidy"], purity, i["hapX"], i["female"], i["par"],
                           None, tuple(i["thr_f"]))
        return {"var_baf": bafs, "out": _rows_out(out.data, purity)}
    out = call.do_call(cna, None, i["method"], i["ploidy"], purity, i["hapX"], i["female"], i["par"],
                       None, tuple(i["thr_f"]))
    return _rows_out(out.data, purity)


def to_line(case, impl):
    i = case["in"]
    line = {"op": "call", "in": {k: v for k, v in i.items() if not k.endswith("_f") and k != "cli"}}
    if isinstance(impl, dict) and "__error__" in impl:
        return line
    if isinstance(impl, dict) and "cli_rows" in impl:
        # the command line reads the table from a file: rows arrive sorted and with their log2 as written (%.6g)
        key_n = {}
        for r, n in zip(i["rows"], i.get("n") or [None] * len(i["rows"])):
            k = (r[0], r[1], r[2])
            key_n[k] = n if k not in key_n else None
        line["in"]["rows"] = [[c, s, e, frac(lg), frac(2.0 ** lg), None if b is None else frac(b)]
                              for c, s, e, lg, b in impl["cli_rows"]]
        # the expected n is dropped: it was derived from the unrounded log2 (the model is compared instead)
        line["in"]["n"] = [None for _ in impl["cli_rows"]]
        line["impl"] = impl["out"]
        return line
    if isinstance(impl, dict) and "var_baf" in impl:
        line["in"]["rows"] = [r[:5] + [None if b is None else frac(b)] for r, b in zip(i["rows"], impl["var_baf"])]
        line["in"]["has_baf"] = True
        line["impl"] = impl["out"]
        return line
    line["impl"] = impl
    return line


def judge_with(clauses_of_interest):
    def judge(case, impl, resp):
        if isinstance(impl, dict) and "__error__" in impl:
            return ["raises_" + impl["__error__"]], [], None
        if "error" in resp:
            return [], ["model error: " + resp["error"]], None
        spec = [c for c in (resp.get("spec") or []) if c in clauses_of_interest]
        out = resp["out"]
        rtol = 1e-9
        if isinstance(impl, dict) and "cli_rows" in impl:
            impl = impl["out"]
            rtol = 5e-5  # the rewritten log2 went through a file: 6 significant digits
        if isinstance(impl, dict) and "var_baf" in impl:
            impl = impl["out"]
        slack = [Fraction(s) for s in resp["slack"]]
        disagree = []
        knife = None
        if len(out) != len(impl):
            return spec + (["rowcount_preserved"] if "rowcount_preserved" in clauses_of_interest else []), ["row count"], None
        for k, (m, im) in enumerate(zip(out, impl)):
            if slack[k] < Fraction(1, 10 ** 9):
                knife = "rounding boundary within 1e-9"
                continue
            if m[0] != im[0] or m[2] != im[2] or m[3] != im[3]:
                disagree.append(f"row {k}: model {m} impl {im}")
                break
            if (m[1] is None) != (im[1] is None):
                disagree.append(f"row {k}: ratio presence model {m[1]} impl {im[1]}")
                break
            if m[1] is not None:
                a, b = float(Fraction(im[1])), Fraction(m[1])
                if abs(a - float(b)) > rtol * max(1.0, abs(float(b))):
                    disagree.append(f"row {k}: ratio model {float(b)} impl {a}")
                    break
        return spec, disagree, (knife if not disagree and not spec else None)
    return judge


def shrink(case):
    i = case["in"]
    rows = i["rows"]
    for k in range(len(rows)):
        c = {"op": case["op"], "tag": "shrunk", "in": dict(i)}
        for key in ("rows", "log2_f", "n"):
            if key in i and i[key] is not None:
                c["in"][key] = i[key][:k] + i[key][k + 1:]
        if c["in"]["rows"]:
            yield c
