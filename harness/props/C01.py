"""C01 -- clonal calls invert the purity/ploidy mixing model; cn is never negative."""
from __future__ import annotations

import math
import os
from fractions import Fraction

from ..core import frac
from . import _call as K
from . import _c01whole as W
from . import _c01center as CT

LEVEL = "proof"
RULE = ("tables of 1..60 rows per call; rows generated from a known tumour copy number n in 0..12 "
        "(log2 = log2((p*n+(1-p)*x)/r) with r, x from the property's prose table) over purity grid "
        "(dyadic, decimal, 0.001..0.99999, random, 1.0 as float / int / numpy float, None) x ploidy 1..6 x {auto, X, Y, "
        "PAR-X, PAR-Y incl. boundary coordinates +-1} x hapX x female x naming style x {none, grch37, grch38; also spelled "
        "GRCh37/GRCh38}; plus rows with integer / random log2 in [-30, 30]. Explicit grids: every (ploidy, hapX, female, "
        "genome) cell at a purity < 1, every (ploidy, hapX, naming, purity None / 1.0) cell on the pure path (there the "
        "genome option is given but must be ignored: rows with PAR coordinates keep the copies of their chromosome "
        "name); tables made of one chromosome class only (all X, all Y, X+Y, all PAR); autosome-class rows under names other than "
        "1..22 (chrM / MT, unplaced and random contigs, alternate haplotypes, names merely containing x or y). Doors: do_call positionally, "
        "do_call by keyword with the defaults left implicit, do_call twice on the same object, the entry points "
        "absolute_clonal / absolute_dataframe (purity < 1, and None / 1.0 as `export` calls them: reference copies "
        "then follow the genome option) / absolute_pure / absolute_expect / absolute_reference / log2_ratios called "
        "directly, and `cnvkit.py call` (every spelling of -x/-g and of -y, sample sex left out = inferred, --ploidy "
        "and -t left out at their defaults). Table representations: fresh RangeIndex, boolean-mask subset of a larger "
        "table (index labels != positions), repeated index labels, extra columns (depth, probes, weight, ci_lo, "
        "ci_hi, a stale cn), shuffled column order. non-trivial = the table has a sex-chromosome or PAR row, or a "
        "purity < 1; distinct by hash of the case")
EXHAUSTIVE = {"quick": False, "thorough": False}
ASSUMPTIONS = ["ratio space: the model receives the exact value of the double 2**log2 computed by Python; "
               "float rounding inside r*t, /p and np.log2 is covered by the 1e-9 tolerance and the knife-edge rule "
               "(a row is skipped for model equality when its exact copy number is within 1e-9 + 1e-13*cn of a rounding boundary)",
               "inversion clause needs r > 0 (ploidy 1 gives ploidy//2 = 0 on Y / haploid X; such rows carry no n)",
               "command line with the sample sex left out: the model is given the sex that guess_xx infers from the "
               "table as read (C15's subject); the tie then covers verify_sample_sex and the option plumbing",
               "absolute_clonal / absolute_dataframe called directly WITHOUT a purity (None, 1.0): the driver has no op "
               "for this door (do_call never takes it); cn = nearest integer to r*2^log2 with r from the prose table "
               "(genome-aware) is checked in exact rational arithmetic by the harness itself"]
TRUSTED_EXTRA = ["numpy round (half-even), np.log2, float pow"]
CLAUSES = {"cn_nonneg", "cn_is_n", "ratio_of_pure_sample", "cn_nearest_integer", "reference_expect_table"} | W.WHOLE_CLAUSES | W.WRAP_CLAUSES

def run_impl(case):
    if case.get("op") == "do_call_whole":
        return W.run_whole(case)
    if case.get("op") == "call_wrappers":
        return W.run_wrappers(case)
    if case.get("op") == CT.OP:
        return CT.run_impl(case)
    return K.run_impl(case)


shrink = K.shrink
_judge = K.judge_with(CLAUSES)


def _active(i):
    p = i["purity_f"]
    return i["purity"] is not None and bool(p) and p < 1.0


def _pure_direct(i):
    """absolute_clonal / absolute_dataframe called directly without a purity: reference copies come from the
    genome-aware table although no purity rescaling happens (the path `export bed/vcf` takes)"""
    return i.get("entry") in ("absolute_clonal", "absolute_dataframe") and not _active(i)


def _cmd_to_line(case, impl):
    """op `cmd_call`: the rows as READ from the file, the same rows with `log2 - center_at` (float subtraction, as
    `cnarr["log2"] -= c` does) and its antilog, and the command-line options the glue decides on"""
    i = case["in"]
    opt = i.get("cli_opts") or {}
    if isinstance(impl, dict) and "cli_error" in impl:
        line = K.to_line(case, {"__error__": "x"})
        line["impl"] = {"error": impl["cli_error"]}
    else:
        line = K.to_line(case, impl)
    line["op"] = "cmd_call"
    c = opt.get("center_at")
    line["in"]["center_at"] = None if c is None else frac(float(c))
    line["in"]["center"] = opt.get("center")
    line["in"]["sex_arg"] = opt.get("sex")
    line["in"]["guessed_female"] = bool(impl.get("female_eff", False)) if isinstance(impl, dict) else False
    shift = float(c) if c is not None else 0.0
    rows = line["in"]["rows"]
    line["in"]["rows_shift"] = [[r[0], r[1], r[2], frac(float(Fraction(r[3])) - shift),
                                 frac(2.0 ** (float(Fraction(r[3])) - shift)), r[5]] for r in rows]
    return line


def to_line(case, impl):
    if case.get("op") == "do_call_whole":
        return W.to_line(case, impl)
    if case.get("op") == "call_wrappers":
        return W.wrappers_to_line(case, impl)
    if case.get("op") == "cmd_call":
        return _cmd_to_line(case, impl)
    if case.get("op") == CT.OP:
        return CT.to_line(case, impl, _cmd_to_line)
    line = K.to_line(case, impl)
    if _pure_direct(case["in"]):
        line.pop("impl", None)  # judged by the harness (see ASSUMPTIONS); the driver's pure path is do_call's
    return line


def _cls_of(row, first, par):
    """chromosome class of a row as the property's prose defines it (independent of the Lean model)"""
    pre = "chr" if first.startswith("chr") else ""
    c, s, e = row[0], row[1], row[2]
    for k in ("X", "Y"):
        if c == pre + k:
            if par is not None:
                t = K.PAR[par.lower()]
                if any(s >= t[q + k][0] and e <= t[q + k][1] for q in ("PAR1", "PAR2")):
                    return "par" + k.lower()
            return k.lower()
    return "auto"


def _round_slack(q):
    d = q - math.floor(q)
    return abs(d - Fraction(1, 2))


def judge(case, impl, resp):
    i = case["in"]
    if case.get("op") == CT.OP:
        return CT.judge(case, impl, resp, judge)
    if case.get("op") == "call_wrappers":
        return W.wrappers_judge(case, impl, resp)
    if case.get("op") == "do_call_whole":
        return W.judge(case, impl, resp, K.judge_with(CLAUSES | W.WHOLE_CLAUSES))
    if isinstance(impl, dict) and "__error__" in impl:
        return _judge(case, impl, resp)
    if case.get("op") == "cmd_call":
        if "error" in resp and "refused" not in resp:
            return [], ["model error: " + str(resp["error"])], None
        if resp.get("refused") != resp.get("impl_refused"):
            return [], [f"refusal: model {resp.get('refused')} command line {resp.get('impl_refused')} "
                        f"(purity {i['purity_f']!r})"], None
        if resp.get("refused"):
            if isinstance(impl, dict) and impl.get("wrote"):
                return [], ["the refused command wrote its output file"], None
            return [], [], None
    spec, dis, sk = [], [], None
    if not _pure_direct(i):
        spec, dis, sk = _judge(case, impl, resp)
        if i.get("cli"):
            # the written log2 has 6 significant digits: the rewritten ratio is compared with the model (5e-5),
            # not with the closed form at 1e-9
            spec = [c for c in spec if c != "ratio_of_pure_sample"]
    if isinstance(impl, dict) and "direct" in impl:
        d, out = impl["direct"], impl["out"]
        rows = i["rows"]
        first = rows[0][0] if rows else ""
        want = [K.prose_copies(_cls_of(r, first, i["par"]), i["ploidy"], i["hapX"], i["female"]) for r in rows]
        if len(out) != len(rows) or d.get("len_ok") is False:
            return spec, dis + ["row count"], None
        if "reference" in d:
            # the table of (reference, germline) copies itself, per row, from all three functions that return it
            if (d["reference"] != [w[0] for w in want] or d["expect"] != [w[1] for w in want]
                    or d["abs_reference"] != d["reference"] or d["abs_expect"] != d["expect"]):
                spec.append("reference_expect_table")
        if _pure_direct(i):
            for r, n, o, (rr, _x) in zip(rows, i["n"], out, want):
                q = Fraction(rr) * Fraction(r[4])
                cn = o[0]
                if cn is None or cn < 0:
                    spec.append("cn_nonneg")
                    break
                if _round_slack(q) < Fraction(1, 10 ** 9) + q / 10 ** 13:
                    sk = "rounding boundary within 1e-9"
                    continue
                if abs(cn - q) > Fraction(1, 2):
                    spec.append("cn_nearest_integer")
                    break
                if n is not None and cn != n:
                    spec.append("cn_is_n")
                    break
                if o[1] is not None:
                    dis.append("log2 rewritten without a purity")
                    break
    return spec, dis, (sk if not dis and not spec else None)


PURITIES = [0.25, 0.5, 0.75, 0.125, 0.3, 0.1, 0.9, 0.05, 0.999, 1.0, None, 0.001, 0.01, 0.99999, 1.0, None]
EXTRA_COLS = ["depth", "probes", "weight", "ci_lo", "ci_hi", "cn"]


def _decorate(rng, c, share=1.0):
    """representation / call-style variations that must not change any answer"""
    i = c["in"]
    tags = []
    if rng.random() < 0.3 * share:
        i["sub"] = rng.randint(0, 10 ** 6)
        tags.append("sub")
    elif rng.random() < 0.1 * share:
        i["dupidx"] = True
        tags.append("dupidx")
    if rng.random() < 0.3 * share:
        i["extra"] = [n for n in EXTRA_COLS if rng.random() < 0.5] or ["cn"]
        if i["method"] == "none":
            # no call is made: a `cn` column of an earlier call would just be carried along (nothing to observe)
            i["extra"] = [n for n in i["extra"] if n != "cn"] or ["depth"]
        tags.append("extra")
    if rng.random() < 0.2 * share:
        i["colorder"] = rng.randint(0, 10 ** 6)
        tags.append("colorder")
    if not i.get("entry"):
        k = rng.random()
        if k < 0.3 * share:
            i["callstyle"] = "kwargs"
            tags.append("kwargs")
        if rng.random() < 0.15 * share:
            i["repeat"] = True
            tags.append("twice")
    if i["par"] and rng.random() < 0.3 * share:
        i["par_f"] = {"grch37": "GRCh37", "grch38": "GRCh38"}[i["par"]]
    if i["purity_f"] == 1.0 and rng.random() < 0.6:
        i["purity_kind"] = rng.choice(["int", "np"])
    elif i["purity_f"] is not None and rng.random() < 0.15 * share:
        i["purity_kind"] = "np"
    if tags:
        c["tag"] += "+" + "+".join(tags)
    return c


def _table(rng, nrows=40, force=None):
    force = force or {}
    ploidy = rng.randint(1, 6)
    purity = rng.choice(PURITIES) if rng.random() < 0.7 else round(rng.uniform(0.02, 1.0), rng.choice([2, 3, 6]))
    hapx, female = rng.random() < 0.5, rng.random() < 0.5
    style = rng.choice(["chr", "plain"])
    par = rng.choice([None, None, "grch37", "grch38"])
    method = "clonal" if rng.random() < 0.85 else "none"
    ploidy, purity, hapx, female, par, style, method = (
        force.get("ploidy", ploidy), force.get("purity", purity), force.get("hapX", hapx), force.get("female", female),
        force.get("par", par), force.get("style", style), force.get("method", method))
    entry = force.get("entry")
    active = purity is not None and purity and purity < 1.0
    # reference copies follow the genome option (PAR rows) on the purity path, and whenever absolute_clonal /
    # absolute_dataframe are entered directly; do_call without a purity and absolute_pure go by chromosome name
    by_table = active or entry in ("absolute_clonal", "absolute_dataframe")
    rows, log2s, ns = [], [], []
    classes = force.get("classes") or (["auto", "auto", "x", "y"] + (["parx", "pary"] if par else []))
    if not par:
        classes = [c for c in classes if c not in ("parx", "pary")] or ["x", "y"]
    first_cls = rng.choice(classes)
    for k in range(nrows):
        cls = first_cls if k == 0 else rng.choice(classes)
        c, s, e = K.make_row(rng, cls, style, par)
        n = None
        kind = rng.random()
        lg = None
        if kind < 0.7:
            n = rng.randint(0, 12) if rng.random() < 0.85 else rng.choice([0, 0, 1, 12])
            if by_table:
                # which class does the code give this row? boundary rows made by make_row("x"/"y") are outside PAR
                r, x = K.prose_copies(cls, ploidy, hapx, female)
                mix = purity * n + (1 - purity) * x if active else n
            else:
                # pure path: reference copies by chromosome name only
                r = ploidy // 2 if (cls in ("y", "pary") or (hapx and cls in ("x", "parx"))) else ploidy
                mix = n
            if r > 0 and mix > 0:
                lg = math.log2(mix / r)
            elif cls == "pary" and by_table:
                # reference 0 copies: any log2; the property's premise has no r to divide by -> cn must be 0
                lg = rng.uniform(-3, 3)
                n = 0
            else:
                n = None
        if lg is None:
            lg = float(rng.randint(-30, 30)) if rng.random() < 0.4 else rng.uniform(-30, 30)
            if rng.random() < 0.5:
                lg = rng.uniform(-3, 3)
            n = None
        if not (-30 <= lg <= 30):
            lg, n = max(-30.0, min(30.0, lg)), None
        rows.append([c, s, e, frac(lg), frac(2.0 ** lg), None])
        log2s.append(lg)
        ns.append(n)
    case = {"op": "call", "tag": f"{method}-{'purity' if active else 'pure'}",
            "in": {"rows": rows, "log2_f": log2s, "n": ns, "method": method, "ploidy": ploidy,
                   "purity": None if purity is None else frac(purity), "purity_f": purity,
                   "hapX": hapx, "female": female, "par": par, "thr": [frac(t) for t in K.DEFAULT_THR],
                   "thr_f": list(K.DEFAULT_THR), "has_baf": False}}
    if entry:
        case["in"]["entry"] = entry
        case["tag"] += "-" + entry
    return case


def corpus():
    import random
    rng = random.Random(1)
    # finding A witness: tiny ratio at low purity used to give a negative copy number
    c = _table(rng, 3, force={"ploidy": 2, "purity": 0.3, "par": None})
    c["in"]["rows"] = [["chr1", 0, 100, frac(-30.0), frac(2.0 ** -30.0), None]]
    c["in"]["log2_f"] = [-30.0]
    c["in"]["n"] = [None]
    c["in"]["method"] = "clonal"
    c["tag"] = "corpus-A"
    return [c]


SIZES = [1, 1, 2, 3, 5, 12, 24, 40, 40, 60]


SEX_OPTS = [None] + list(K.SEX_MALE) + list(K.SEX_FEMALE)


def _cli_case(rng, nrows=30, k=None):
    """the same calls through the command line (`cnvkit.py call` on a written .cns): option parsing, file reading
    (sorted rows, %.6g values), sample-sex handling and the writer are then inside the tie.  With `k` the case is one
    of a systematic round over every way of stating the sample sex (8 spellings, or not at all) on a table where the
    sex matters (purity < 1, ploidy >= 2, X and Y rows)"""
    force = {"method": "clonal" if rng.random() < 0.9 else "none"}
    opts = {"implicit": rng.random() < 0.5}
    if k is not None:
        sex = SEX_OPTS[k % len(SEX_OPTS)]
        force.update(method="clonal", purity=rng.choice([0.25, 0.3, 0.5, 0.75, 0.9, round(rng.uniform(0.05, 0.95), 2)]),
                     ploidy=rng.choice([2, 2, 3, 4, 5, 6]), classes=["auto", "auto", "x", "x", "y", "y"])
        if sex is not None:
            force["female"] = sex in K.SEX_FEMALE
    c = _table(rng, nrows, force=force)
    i = c["in"]
    p = i["purity_f"]
    if p is not None and not (0.0 < p <= 1.0):
        return None
    i["cli"] = True
    if k is None:
        r = rng.random()
        sex = None if r < 0.2 else rng.choice(K.SEX_FEMALE if i["female"] else K.SEX_MALE)
    opts["sex"] = sex
    opts["sex_flag"] = rng.choice(["-x", "--sample-sex", "-g", "--gender"])
    opts["hapx_flag"] = rng.choice(["-y", "--male-reference", "--haploid-x-reference"])
    i["cli_opts"] = opts
    if rng.random() < 0.4:
        i["extra"] = [n for n in EXTRA_COLS if rng.random() < 0.5 and not (n == "cn" and i["method"] == "none")] or ["weight"]
    if i["par"] and rng.random() < 0.3:
        i["par_f"] = {"grch37": "GRCh37", "grch38": "GRCh38"}[i["par"]]
    # rows with the same coordinates cannot be told apart after sorting; 6 digits of log2 move the absolute copy
    # number by at most 12 * 5e-7 / purity: far from a rounding boundary for purity >= 0.02.  With the sex left out
    # the n (generated for the case's own sex) says nothing: the model is compared under the inferred sex
    i["keep_n"] = sex is not None and (p is None or p >= 0.02)
    c["tag"] += "-cli" + ("-sex-inferred" if sex is None else "")
    return c


BAD_PURITIES = [1.5, -0.25, 2.0, 1.0000001, -1e-09, 100.0]
CENTERS_AT = [0.5, -0.25, 1.0, 0.0, 0.125, -1.0]


def _cmd_case(rng, k):
    """`cnvkit.py call` with the options `_cmd_call` itself decides on: a purity outside (0, 1] (refused before anything
    is read), `--purity 0.0` (accepted: no rescaling), `--center-at c` (the log2 column is shifted by -c first; every row
    is WRITTEN with log2 + c, so the known n survives), `--center-at c --center mean` (c != 0 shadows the estimator)"""
    kind = ["bad", "shift", "shift", "shift+center", "zero-purity", "shift"][k % 6]
    force = {"method": "clonal", "par": rng.choice([None, None, "grch38"])}
    if kind == "bad":
        force["purity"] = rng.choice(BAD_PURITIES)
    elif kind == "zero-purity":
        force["purity"] = 0.0
    else:
        force["purity"] = rng.choice([0.25, 0.3, 0.5, 0.75, 0.9, 1.0, None, round(rng.uniform(0.05, 0.95), 2)])
    c = _table(rng, rng.choice([4, 12, 30]), force=force)
    i = c["in"]
    c["op"] = "cmd_call"
    i["cli"] = True
    sex = rng.choice(K.SEX_FEMALE if i["female"] else K.SEX_MALE)
    opts = {"implicit": rng.random() < 0.5, "sex": sex, "sex_flag": rng.choice(["-x", "--sample-sex", "-g", "--gender"]),
            "hapx_flag": rng.choice(["-y", "--male-reference", "--haploid-x-reference"])}
    if kind.startswith("shift"):
        ca = rng.choice(CENTERS_AT) if rng.random() < 0.7 else round(rng.uniform(-2, 2), 3)
        opts["center_at"] = ca
        if kind == "shift+center" and ca != 0.0:
            opts["center"] = rng.choice(["mean", "median", "mode", "biweight"])
        # the file holds log2 + c; `_cmd_call` takes c off again
        i["log2_f"] = [lg + ca for lg in i["log2_f"]]
        i["rows"] = [[r[0], r[1], r[2], frac(lg), frac(2.0 ** lg), r[5]] for r, lg in zip(i["rows"], i["log2_f"])]
    i["cli_opts"] = opts
    p = i["purity_f"]
    i["keep_n"] = kind != "bad" and (p is None or p == 0.0 or p >= 0.05)
    if p == 0.0:
        i["keep_n"] = False  # n was generated for an active purity of 0: meaningless; the model is compared
    c["tag"] = "cmd-" + kind
    return c


def gen_cases(rng, tier):
    q = tier != "thorough"
    cases = []
    for _ in range({"quick": 90, "thorough": 1200, "search": 400}[tier]):
        cases.append(_decorate(rng, _table(rng, rng.choice(SIZES))))
    ncli = {"quick": 30, "thorough": 270, "search": 30}[tier]
    for k in range(ncli):
        # two thirds: the systematic round over the ways to state the sample sex; the rest random configurations
        c = _cli_case(rng, 30, k) if k < 2 * ncli // 3 else _cli_case(rng, rng.choice([1, 2, 10, 30, 30]))
        if c:
            cases.append(c)
    # the entry points below do_call, called directly (they are public: `export` uses them with purity 1.0)
    for _ in range({"quick": 48, "thorough": 400, "search": 48}[tier]):
        entry = rng.choice(["absolute_clonal", "absolute_dataframe", "absolute_dataframe", "absolute_pure"])
        f = {"entry": entry, "method": "clonal"}
        if entry == "absolute_pure":
            f["purity"] = None
        elif rng.random() < 0.5:
            f["purity"] = rng.choice([None, 1.0, 1.0])
        else:
            f["purity"] = rng.choice([0.25, 0.3, 0.5, 0.9, 0.05, round(rng.uniform(0.02, 0.99), 3)])
        if rng.random() < 0.6:
            f["par"] = rng.choice(["grch37", "grch38"])
        cases.append(_decorate(rng, _table(rng, rng.choice([1, 3, 16, 30]), force=f)))
    if tier != "search":
        # every (ploidy, hapX, female, par) cell with an active purity
        for ploidy in range(1, 7):
            for hapx in (False, True):
                for female in (False, True):
                    for par in (None, "grch37", "grch38"):
                        cases.append(_decorate(rng, _table(rng, 16 if q else 24, force={
                            "ploidy": ploidy, "hapX": hapx, "female": female, "par": par, "method": "clonal",
                            "purity": rng.choice([0.25, 0.3, 0.5, 0.9])}), share=0.5))
        # every (ploidy, hapX, naming) cell WITHOUT a purity (None, 1.0): copies by chromosome name, the genome
        # option given but without effect (rows inside the PAR coordinates included)
        for ploidy in range(1, 7):
            for hapx in (False, True):
                for style in ("chr", "plain"):
                    cases.append(_decorate(rng, _table(rng, 16, force={
                        "ploidy": ploidy, "hapX": hapx, "style": style, "method": "clonal",
                        "purity": rng.choice([None, 1.0]), "par": rng.choice([None, "grch37", "grch38"]),
                        "classes": ["auto", "x", "y", "parx", "pary"]}), share=0.5))
        # tables of one chromosome class only (the naming style and so the X / Y labels come from the first row)
        for classes in (["x"], ["y"], ["x", "y"], ["parx"], ["pary"], ["parx", "pary", "x", "y"]):
            for purity in (0.5, 0.3, None):
                cases.append(_decorate(rng, _table(rng, rng.choice([1, 2, 8]), force={
                    "classes": classes, "purity": purity, "method": "clonal",
                    "par": rng.choice(["grch37", "grch38"]) if classes[0].startswith("par") else rng.choice([None, "grch38"])}),
                    share=0.5))
    # do_call as a WHOLE (op `do_call_whole`): method x purity path x BAF source x filters, incl. unknown methods
    for k in range({"quick": 72, "thorough": 432, "search": 36}[tier]):
        cases.append(W.whole_case(rng, k))
    # the public wrappers absolute_reference / absolute_expect / log2_ratios called directly (op `call_wrappers`)
    for _ in range({"quick": 36, "thorough": 240, "search": 24}[tier]):
        cases.append(W.wrappers_case(rng, _decorate(rng, _table(rng, rng.choice([1, 3, 16, 30]), force={
            "par": rng.choice([None, "grch37", "grch38"]), "classes": ["auto", "x", "y", "parx", "pary"]}), share=0.5)))
    # the glue of `_cmd_call` (op `cmd_call`): purity validation, --center-at / --center precedence, sex handoff
    for k in range({"quick": 24, "thorough": 180, "search": 24}[tier]):
        cases.append(_cmd_case(rng, k))
    # `--center <estimator>` (op `cmd_call_center`, round 5c): center_all composed into the command
    for k in range({"quick": 24, "thorough": 144, "search": 24}[tier]):
        cases.append(CT.center_case(rng, k, _table))
    # autosome-class rows under names that are not 1..22 (chrM, unplaced contigs, alternate haplotypes, names that only
    # contain an x / y): `ploidy` reference copies on the pure path (by name) and on the purity path (by mask) alike
    for _ in range({"quick": 24, "thorough": 200, "search": 24}[tier]):
        cases.append(K.other_names(rng, _table(rng, rng.choice([3, 16, 30]), force={
            "method": "clonal", "purity": rng.choice([None, 1.0, 0.5, 0.3]), "classes": ["auto", "auto", "auto", "x", "y"]})))
    if os.environ.get("VERIF_C01_ONLY"):  # restricted runs for mutation tests: only the cases whose tag starts with this
        cases = [c for c in cases if str(c.get("tag", "")).startswith(os.environ["VERIF_C01_ONLY"])]
    return cases


def nontrivial(case, impl, resp):
    i = case["in"]
    sexrow = any(r[0].upper().replace("CHR", "") in ("X", "Y") for r in i["rows"])
    return sexrow or (i["purity_f"] is not None and i["purity_f"] < 1.0)
