"""C01 -- clonal calls invert the purity/ploidy mixing model; cn is never negative."""
from __future__ import annotations

import math
from fractions import Fraction

from ..core import frac
from . import _call as K

LEVEL = "proof"
RULE = ("tables of 40 rows per do_call; rows generated from a known tumour copy number n in 0..12 "
        "(log2 = log2((p*n+(1-p)*x)/r) with r, x from the property's prose table) over purity grid "
        "(dyadic, decimal, random, 1.0, None) x ploidy 1..6 x {auto, X, Y, PAR-X, PAR-Y incl. boundary "
        "coordinates +-1} x hapX x female x naming style x {none, grch37, grch38}; plus rows with integer / "
        "random log2 in [-30, 30]. non-trivial = the table has a sex-chromosome or PAR row, or a purity < 1; "
        "distinct by hash of the case")
EXHAUSTIVE = {"quick": False, "thorough": False}
ASSUMPTIONS = ["ratio space: the model receives the exact value of the double 2**log2 computed by Python; "
               "float rounding inside r*t, /p and np.log2 is covered by the 1e-9 tolerance and the knife-edge rule",
               "inversion clause needs r > 0 (ploidy 1 gives ploidy//2 = 0 on Y / haploid X; such rows carry no n)"]
TRUSTED_EXTRA = ["numpy round (half-even), np.log2, float pow"]
CLAUSES = {"cn_nonneg", "cn_is_n", "ratio_of_pure_sample", "cn_nearest_integer"}

run_impl = K.run_impl
to_line = K.to_line
judge = K.judge_with(CLAUSES)
shrink = K.shrink

PURITIES = [0.25, 0.5, 0.75, 0.125, 0.3, 0.1, 0.9, 0.05, 0.999, 1.0, None]


def _table(rng, nrows=40, force=None):
    ploidy = rng.randint(1, 6)
    purity = rng.choice(PURITIES) if rng.random() < 0.7 else round(rng.uniform(0.02, 1.0), rng.choice([2, 3, 6]))
    hapx, female = rng.random() < 0.5, rng.random() < 0.5
    style = rng.choice(["chr", "plain"])
    par = rng.choice([None, None, "grch37", "grch38"])
    method = "clonal" if rng.random() < 0.85 else "none"
    if force:
        ploidy, purity, hapx, female, par = (force.get("ploidy", ploidy), force.get("purity", purity),
                                            force.get("hapX", hapx), force.get("female", female), force.get("par", par))
    active = purity is not None and purity and purity < 1.0
    rows, log2s, ns = [], [], []
    classes = ["auto", "auto", "x", "y"] + (["parx", "pary"] if (par and active) else [])
    first_cls = rng.choice(classes)
    for k in range(nrows):
        cls = first_cls if k == 0 else rng.choice(classes)
        c, s, e = K.make_row(rng, cls, style, par if active else None) if cls in ("auto", "x", "y") else K.make_row(rng, cls, style, par)
        n = None
        kind = rng.random()
        lg = None
        if kind < 0.7:
            n = rng.randint(0, 12)
            if active:
                # which class does the code give this row? boundary rows made by make_row("x"/"y") are outside PAR
                r, x = K.prose_copies(cls, ploidy, hapx, female)
                mix = purity * n + (1 - purity) * x
            else:
                # pure path: reference copies by chromosome name only
                r = ploidy // 2 if (cls in ("y", "pary") or (hapx and cls in ("x", "parx"))) else ploidy
                mix = n
            if r > 0 and mix > 0:
                lg = math.log2(mix / r)
            elif cls == "pary" and active:
                # reference 0 copies: any log2; the property's premise has no r to divide by -> cn must be 0
                lg = rng.uniform(-3, 3)
                n = 0
            else:
                n = None
        if lg is None:
            lg = float(rng.randint(-30, 30)) if rng.random() < 0.4 else rng.uniform(-30, 30)
            if rng.random() < 0.5:
                lg = rng.uniform(-3, 3)
            n = None
        if not (-30 <= lg <= 30):
            lg, n = max(-30.0, min(30.0, lg)), None
        rows.append([c, s, e, frac(lg), frac(2.0 ** lg), None])
        log2s.append(lg)
        ns.append(n)
    return {"op": "call", "tag": f"{method}-{'purity' if active else 'pure'}",
            "in": {"rows": rows, "log2_f": log2s, "n": ns, "method": method, "ploidy": ploidy,
                   "purity": None if purity is None else frac(purity), "purity_f": purity,
                   "hapX": hapx, "female": female, "par": par, "thr": [frac(t) for t in K.DEFAULT_THR],
                   "thr_f": list(K.DEFAULT_THR), "has_baf": False}}


def corpus():
    import random
    rng = random.Random(1)
    # finding A witness: tiny ratio at low purity used to give a negative copy number
    c = _table(rng, 3, force={"ploidy": 2, "purity": 0.3, "par": None})
    c["in"]["rows"] = [["chr1", 0, 100, frac(-30.0), frac(2.0 ** -30.0), None]]
    c["in"]["log2_f"] = [-30.0]
    c["in"]["n"] = [None]
    c["in"]["method"] = "clonal"
    c["tag"] = "corpus-A"
    return [c]


def gen_cases(rng, tier):
    n = {"quick": 120, "thorough": 1200, "search": 400}[tier]
    cases = [_table(rng) for _ in range(n)]
    # the same calls through the command line (`cnvkit.py call` on a written .cns): option parsing, file
    # reading (sorted rows, %.6g values), sample-sex handling and the writer are then inside the tie
    for _ in range({"quick": 16, "thorough": 160, "search": 16}[tier]):
        c = _table(rng, 30)
        if c["in"]["purity_f"] is not None and not (0.0 < c["in"]["purity_f"] <= 1.0):
            continue
        c["in"]["cli"] = True
        c["tag"] += "-cli"
        cases.append(c)
    # make sure every (ploidy, hapX, female, par) cell appears with an active purity
    if tier != "search":
        for ploidy in range(1, 7):
            for hapx in (False, True):
                for female in (False, True):
                    for par in (None, "grch37", "grch38"):
                        cases.append(_table(rng, 24, force={"ploidy": ploidy, "hapX": hapx, "female": female,
                                                            "par": par, "purity": rng.choice([0.25, 0.3, 0.5, 0.9])}))
    return cases


def nontrivial(case, impl, resp):
    i = case["in"]
    sexrow = any(r[0].upper().replace("CHR", "") in ("X", "Y") for r in i["rows"])
    return sexrow or (i["purity_f"] is not None and i["purity_f"] < 1.0)
