"""C12 -- target and antitarget bins partition exactly the space they should."""
from __future__ import annotations

import os
import shutil
import tempfile
from fractions import Fraction

from .. import tables as T
from ..core import frac

LEVEL = "proof"
RULE = ("random bait tables on 1..3 chromosomes drawn from canonical and non-canonical name pools "
        "(rows overlapping, nested, abutting, duplicated, zero-width; coordinates either free or on a "
        "250-base grid so that margins touch exactly) x access tables (none / empty / sorted disjoint regions "
        "on targeted, untargeted canonical and untargeted non-canonical contigs, with or without a gene column, "
        "regions shorter than twice the margin, abutting regions; a small stream of overlapping access rows) "
        "x average sizes (1..150000, the defaults, span/k) x minimum sizes (None, 0, avg/16, floor(3/4 avg) and "
        "its successor, avg, 1.4 avg, random); do_target with/without --split, --short-names (accession-style "
        "labels sharing names between consecutive rows) and --annotate (BED written to a scratch directory). "
        "About 16 % of the random cases (tag cli-*) reach the real code through the command line instead of "
        "do_target / do_antitarget: BED files in a scratch directory, `cnvkit.py target [--split] [-a|--avg-size N] "
        "[--annotate F] [--short-names] -o|--output` (run twice: with and without the labelling options) and "
        "`cnvkit.py antitarget [-g|--access F] [-a|--avg-size N] [-m|--min-size N] -o|--output` with integer sizes, "
        "--avg-size / --min-size / --access left out when the case has the parser's default (200/0.75, 150000, "
        "None, None); the output BED file is read back and must equal the table handed to the writer; `target` also "
        "without -o (the BED text printed to standard output); the input files as BED4, BED6 (score, strand) or "
        "BED3 (labels become '-'), a third of them with their lines in another order (the reader sorts). "
        "Three private streams seeded by the case reshape part of the random cases: "
        "(dflt-*, 10 %) the function defaults: coordinates scaled until the default average (150000 / 266.67) cuts "
        "regions into several bins and the default minimum (9374) keeps some stretches and drops others; "
        "(edge-*, 20 % of the antitarget cases) sizes on a boundary of this very input: minimum = length of one "
        "off-target stretch (or +-1), average = 2 x length / 1, 3, 5, 7, 9 (length / average = 0.5, 1.5, ... : "
        "round-half-even ties, bins of exactly 1.5 x average), non-integer float averages; "
        "(field rep, 55 % of the API cases, 80-90 % of those with an annotation file or at the defaults) the "
        "REPRESENTATION handed to do_target / do_antitarget: bait / target / access tables that are filtered "
        "subsets of larger tables (pandas index labels != positions), extra columns (strand, depth), another "
        "column order, targets without a gene column, float64 / int32 coordinates, numpy or float scalars for the "
        "sizes, arguments by position / by keyword / left out when they equal the default (annotate=None, "
        "do_short_names=False, do_split=False, avg_size=200/0.75; access=None, avg_bin_size=150000, "
        "min_bin_size=None). "
        "Round 4 corpus: every bait zero-width + annotation file (empty table reaches compare_chrom_names), the 3/4 bound "
        "attained at avg = 4k with the minimum on / one above 3k, the name-length branch of the contig rule with kept and "
        "dropped untargeted contigs of both kinds, no access table with the last target row nested in an earlier one. "
        "non-trivial = the model output has at least one bin and (antitarget) some target lies on an accessible "
        "contig or (target) at least two baits interact or a bait is split; distinct = distinct case by hash")
EXHAUSTIVE = {"quick": False, "thorough": False}
ASSUMPTIONS = [
    "bait / target / access tables are sorted (chromosome key, start, end) with 0 <= start <= end, as every table "
    "read by tabio is",
    "average bin size > 0 (avg = 0 raises ZeroDivisionError as soon as a region is subdivided; run, not compared)",
    "the upper size bound (1.5 x avg) is proved for avg >= 4; the CLI takes integer sizes",
    "float `round(span/avg)` / `int(i*span/n)` vs exact arithmetic differences are knife-edge (skipped)",
    "a zero-width target row counts as a target position: bins keep 500 bases away from it too",
]
TRUSTED_EXTRA = [
    "pandas groupby/sort_values/searchsorted/boolean indexing contracts as modelled in Basic.lean, Model/Ranges.lean",
    "tabio.read_auto reading the scratch BED annotation file (C08's subject)",
    "Python `re` semantics of the contig-name pattern as interpreted by ruleMatches (Model/Access.lean)",
    "Python set iteration order in shorten_labels' `min(names, key=len)`: the model lists every minimal name",
    "harness/settrans.py (reading of the rules over sets of names: sets as duplicate-free lists, comprehensions as "
    "filters, truthiness of a collection, max(map(len, S)); rules stated at the top of the file) and the round-4 "
    "additions to harness/exprtrans.py (power of two literals, short-circuit folding, argument_of)",
]

CANON = ["chr1", "chr2", "chr10", "chr22", "chrX"]
CANON_PLAIN = ["1", "2", "10", "X"]
NONCANON = ["chrM", "chr1_KI270706v1_random", "chrUn_GL000195v1", "chr6_GL000250v2_alt", "chrEBV",
            "chr6_cox_hap2", "HLA-A*01:01"]
NONCANON_PLAIN = ["MT", "NC_007605", "GL000207.1_random", "HLA-B*07:02"]


# ---------------------------------------------------------------------------------------------
# generators


def _bait_rows(rng, chroms, size, grid, nmax=6, zero=0.15):
    """sorted bait rows: overlapping / nested / abutting / duplicated / zero-width"""
    def q(x):
        return (x // grid) * grid if grid else x
    rows = []
    for c in chroms:
        n = rng.randint(1, nmax)
        mine = []
        for _ in range(n):
            if mine and rng.random() < 0.55:
                b = rng.choice(mine)
                k = rng.random()
                if k < 0.15:
                    s, e = b[1], b[2]
                elif k < 0.4:
                    s = b[2]
                    e = s + q(rng.randint(1, max(1, size // 20))) + (grid or 0)
                elif k < 0.65 and b[2] - b[1] >= 2:
                    s = q(rng.randint(b[1], b[2] - 1))
                    e = q(rng.randint(s + 1, b[2]))
                    if e <= s:
                        e = s + (grid or 1)
                else:
                    d = rng.choice([0, 1, 499, 500, 501, 999, 1000, 1001, rng.randint(0, max(1, size // 10))])
                    s = q(max(0, b[2] + d * rng.choice([-1, 1])))
                    e = s + max(grid or 1, q(rng.randint(1, max(1, size // 15))))
            else:
                s = q(rng.randint(0, size))
                e = s + max(grid or 1, q(rng.randint(1, max(1, size // 15))))
            if rng.random() < zero:
                e = s
            mine.append([c, s, e, ""])
        rows += mine
    rows = T.sort_rows(rows)
    for i, r in enumerate(rows):
        r[3] = f"g{i}"
    return rows


def _access_rows(rng, chroms, size, grid, overlapping=False):
    def q(x):
        return (x // grid) * grid if grid else x
    rows = []
    for c in chroms:
        pos = q(rng.choice([0, 0, rng.randint(0, size // 4)]))
        k = rng.randint(1, 4)
        for _ in range(k):
            ln = rng.choice([q(rng.randint(1, 1200)), q(rng.randint(1000, max(1001, size // 2))),
                             q(rng.randint(size // 4, size))])
            ln = max(ln, grid or 1)
            rows.append([c, pos, pos + ln, "acc"])
            if overlapping and rng.random() < 0.5:
                s2 = q(rng.randint(pos, pos + ln - 1))
                rows.append([c, s2, s2 + max(grid or 1, q(rng.randint(1, ln))), "acc"])
            pos = pos + ln + rng.choice([0, 1, 999, 1000, 1001, q(rng.randint(0, max(1, size // 6)))])
            if grid:
                pos = q(pos)
    return T.sort_rows(rows)


def _sizes(rng, size):
    avg = rng.choice([max(4, size // 3), max(4, size // 8), max(4, size // 25), rng.randint(4, max(5, size // 4)),
                      rng.randint(max(1, size // 250), max(2, size // 40)), 150000, 1000])
    avg = max(avg, size // 250, 1)
    mn = rng.choice([None, None, 0, 1, avg // 16, (3 * avg) // 4, (3 * avg) // 4 + 1, avg, int(1.4 * avg),
                     rng.randint(1, max(1, 2 * avg)), rng.randint(1, max(1, (3 * avg) // 4))])
    return avg, mn


def _anti_case(rng, tag="random"):
    size = rng.choice([3000, 12000, 60000, 400000])
    grid = rng.choice([0, 0, 250, 500])
    plain = rng.random() < 0.25
    canon, noncanon = (CANON_PLAIN, NONCANON_PLAIN) if plain else (CANON, NONCANON)
    k = rng.random()
    if k < 0.65:
        tchroms = rng.sample(canon, rng.randint(1, 3))
    elif k < 0.85:
        tchroms = rng.sample(canon, rng.randint(1, 2)) + rng.sample(noncanon, 1)
    else:
        tchroms = rng.sample(noncanon, rng.randint(1, 2))  # no canonical contig targeted
        if rng.random() < 0.5:
            tchroms = [noncanon[0]]  # a short name (chrM / MT): longer canonical names are then skipped
    tg = _bait_rows(rng, tchroms, size, grid)
    mode = rng.random()
    if mode < 0.22:
        acc = None
        if rng.random() < 0.8:  # move the baits past the assumed telomere
            off = 150000 + rng.choice([0, 400, 500, 1000, rng.randint(0, 5000)])
            tg = [[c, s + off, e + off, g] for c, s, e, g in tg]
    elif mode < 0.25:
        acc = []
    else:
        achroms = [c for c in tchroms if rng.random() < 0.9]
        achroms += [c for c in rng.sample(canon, rng.randint(0, 2)) if c not in tchroms]
        achroms += [c for c in rng.sample(noncanon, rng.randint(0, 2)) if c not in tchroms]
        if not achroms or rng.random() < 0.03:
            achroms = achroms or ["chr7"]
        acc = _access_rows(rng, achroms, size, grid, overlapping=rng.random() < 0.08)
        if rng.random() < 0.06:  # chromosome names of another style: must raise
            acc = [["x" + r[0]] + r[1:] for r in acc]
    avg, mn = _sizes(rng, size)
    return {"op": "antitarget", "tag": tag,
            "in": {"tg": tg, "acc": acc, "avg": frac(avg), "avg_f": avg, "min": mn, "acc_gene": rng.random() < 0.5}}


ACCS = ["mRNA|JX093079", "ens|ENST00000342066", "mRNA|JX093077", "ref|SAMD11", "mRNA|AF161376", "ccds|CCDS3.1",
        "ref|NOC2L", "KLHL17", "A|", "|B", "x|y|z", "ab", "mRNA", "", "TP53", "mRNAx", "q|"]


def _labels(rng, n):
    out = []
    pool = rng.sample(ACCS, rng.randint(2, 7))
    prev = None
    for _ in range(n):
        if prev and rng.random() < 0.6:
            names = [x for x in prev if rng.random() < 0.7] or [rng.choice(pool)]
            if rng.random() < 0.5:
                names.append(rng.choice(pool))
        else:
            names = rng.sample(pool, rng.randint(1, min(4, len(pool))))
        rng.shuffle(names)
        lab = ",".join(names) + rng.choice(["", "", "", " ", "\t"])
        out.append(lab)
        prev = names
    return out


def _target_case(rng, tag="random"):
    size = rng.choice([20, 200, 3000, 100000])
    chroms = rng.choice([("chr1",), ("chr1", "chr2"), ("chr1", "chr2", "chrX"), ("1", "10", "2", "X", "MT"),
                         ("chr2", "chrM", "chr1_KI270706v1_random")])
    baits = _bait_rows(rng, rng.sample(chroms, rng.randint(1, min(3, len(chroms)))), size, 0, nmax=8, zero=0.2)
    split = rng.random() < 0.7
    spans = [r[2] - r[1] for r in baits if r[2] > r[1]] or [1]
    total = sum(spans)
    cand = [a for a in (1, 2, 3, 7, 50, 100, 200 / 0.75, 1000, max(spans) / rng.randint(1, 12),
                        float(max(1, max(spans) // rng.randint(1, 12))), rng.randint(1, max(1, max(spans))))
            if total / a <= 400]
    avg = rng.choice(cand or [float(total)])
    if rng.random() < 0.05 and total <= 150:
        avg = rng.choice([0.5, 0.75])  # excluded point avg < 1: more bins than bases
    short = rng.random() < 0.4
    annot = None
    if rng.random() < 0.35:
        achroms = [c for c in chroms if rng.random() < 0.8] or [chroms[0]]
        annot = _bait_rows(rng, achroms, size, 0, nmax=5, zero=0.0)
        annot = [r for r in annot if r[2] > r[1]]
        names = _labels(rng, len(annot)) if short else [f"G{i % 4}" for i in range(len(annot))]
        annot = [[r[0], r[1], r[2], nm.strip() or "-"] for r, nm in zip(annot, names)]
        if rng.random() < 0.05:
            annot = [["x" + r[0]] + r[1:] for r in annot]
        if not annot:
            annot = None
    if short and annot is None:
        for r, lab in zip(baits, _labels(rng, len(baits))):
            r[3] = lab
    return {"op": "target", "tag": tag,
            "in": {"baits": baits, "annot": annot, "short": short, "split": split, "avg": frac(avg), "avg_f": avg}}


def _shorten_case(rng, tag="shorten-run"):
    """round 5: long runs of accession-style labels on one chromosome (no --split, no --annotate), so that the state
    machine of `shorten_labels` is driven through many steps per case: groups of 1..6 consecutive baits sharing a
    common token (sometimes only an `mRNA…` one: `filter_names` then falls back to the unfiltered set), ties between
    shortest names, names with `|` at either end or several of them, empty names, trailing blanks."""
    toks = ["mRNA|J1", "mRNA|J22", "mRNA", "mRNAx", "ens|E1", "ens|E22", "ref|G1", "ref|G2", "ccds|C1.1", "G1", "G2",
            "A|", "|B", "x|y|z", "a|b", "||", "|", "ab", "abc", "", "q|", "TP53", "db|TP53", "db2|TP53"]
    n = rng.randint(1, 24)
    labels = []
    while len(labels) < n:
        common = rng.sample(toks, rng.choice([1, 1, 2, 3]))
        for _ in range(rng.randint(1, 6)):
            extra = rng.sample(toks, rng.randint(0, 3))
            names = common + extra if rng.random() < 0.85 else extra or [rng.choice(toks)]
            if rng.random() < 0.2:
                names = names + [rng.choice(names)]  # a repeated name: the set drops it
            rng.shuffle(names)
            labels.append(",".join(names) + rng.choice(["", "", "", " ", "\t", " \t"]))
    labels = labels[:n]
    pos, baits = rng.randint(0, 50), []
    for lab in labels:
        w = rng.choice([0, 1, 5, 40, 300]) if rng.random() < 0.15 else rng.randint(1, 300)
        baits.append(["chr1", pos, pos + w, lab])
        pos += w + rng.choice([0, 0, 1, 30, 500])
    avg = rng.choice([50, 200 / 0.75, 1000])
    return {"op": "target", "tag": tag,
            "in": {"baits": baits, "annot": None, "short": True, "split": rng.random() < 0.2, "avg": frac(avg),
                   "avg_f": avg}}


def corpus():
    return [
        # K: min > 3/4 avg: a 1500-base stretch is cut into two bins of 750 < 900
        {"op": "antitarget", "tag": "corpus-K",
         "in": {"tg": [["chr1", 10000, 10100, "a"]], "acc": [["chr1", 11000, 13500, "y"]], "avg": "1000",
                "avg_f": 1000, "min": 900, "acc_gene": True}},
        # V: no targeted contig is canonical: untargeted chr10 is dropped because its name is longer than "chrM"
        {"op": "antitarget", "tag": "corpus-V",
         "in": {"tg": [["chrM", 100, 200, "m"]],
                "acc": [["chr1", 0, 5000, "x"], ["chr10", 0, 5000, "x"], ["chrM", 0, 5000, "x"]],
                "avg": "1000", "avg_f": 1000, "min": 100, "acc_gene": True}},
        # U: zero-width bait dropped, then annotate (+ short names): labels were aligned on the old row index
        {"op": "target", "tag": "corpus-U",
         "in": {"baits": [["chr1", 0, 1000, "a"], ["chr1", 1000, 1000, "z"], ["chr1", 1000, 1001, "b"]],
                "annot": [["chr1", 0, 600, "G1"], ["chr1", 500, 2000, "G2"]], "short": True, "split": False,
                "avg": "200", "avg_f": 200}},
        {"op": "target", "tag": "corpus-U",
         "in": {"baits": [["chr1", 0, 1000, "a"], ["chr1", 1000, 1000, "z"], ["chr1", 1000, 1001, "b"],
                          ["chr1", 5000, 5100, "c"]],
                "annot": [["chr1", 0, 600, "G1"], ["chr1", 500, 2000, "G2"]], "short": False, "split": False,
                "avg": "200", "avg_f": 200}},
        # nested / overlapping targets (fix F): nothing may come within 500 bases of the enclosing target
        {"op": "antitarget", "tag": "corpus-F",
         "in": {"tg": [["chr1", 5000, 9000, "a"], ["chr1", 6000, 6100, "b"], ["chr1", 8900, 9500, "c"]],
                "acc": [["chr1", 0, 20000, "x"]], "avg": "1000", "avg_f": 1000, "min": None, "acc_gene": False}},
        # margins touch exactly: access [0,2000) shrunk to [500,1500); target grown to [1500, 2600)
        {"op": "antitarget", "tag": "corpus", "in": {"tg": [["chr1", 2000, 2100, "a"]],
                                                     "acc": [["chr1", 0, 2000, "x"], ["chr1", 2000, 9000, "y"]],
                                                     "avg": "700", "avg_f": 700, "min": 100, "acc_gene": True}},
        # round 4 -- every bait zero-width + an annotation file: the bait table is empty when `compare_chrom_names`
        # sees it, and `if a_chroms and ...` must let it pass (theorem chrom_names_clash_is_the_source)
        {"op": "target", "tag": "corpus-empty-annot",
         "in": {"baits": [["chr1", 100, 100, "z"], ["chr1", 300, 300, "y"]], "annot": [["chr1", 0, 600, "G1"]],
                "short": False, "split": True, "avg": "200", "avg_f": 200}},
        {"op": "target", "tag": "corpus-empty-annot",
         "in": {"baits": [["chr2", 100, 100, "z"]], "annot": [["chr1", 0, 600, "G1"]],
                "short": True, "split": False, "avg": "200", "avg_f": 200}},
        # round 4 -- the 3/4 bound attained (anti_three_quarters_bound_is_sharp, k = 300): 1800 free bases at
        # avg 1200 give two bins of 900; min = 900 = 3/4 avg is respected, min = 901 is finding K
        {"op": "antitarget", "tag": "corpus-K-sharp",
         "in": {"tg": [["chr1", 10200, 10300, "a"]], "acc": [["chr1", 0, 2800, "x"], ["chr1", 10000, 10600, "y"]],
                "avg": "1200", "avg_f": 1200, "min": 900, "acc_gene": True}},
        {"op": "antitarget", "tag": "corpus-K",
         "in": {"tg": [["chr1", 10200, 10300, "a"]], "acc": [["chr1", 0, 2800, "x"], ["chr1", 10000, 10600, "y"]],
                "avg": "1200", "avg_f": 1200, "min": 901, "acc_gene": True}},
        # round 4 -- the name-length branch of the contig rule (contig_rule_exact): no canonical target; untargeted
        # contigs are kept iff their name is no longer than the longest targeted name, canonical or not
        {"op": "antitarget", "tag": "corpus-length-rule",
         "in": {"tg": T.sort_rows([["chr6_cox_hap2", 3000, 3100, "a"], ["chrM", 3000, 3100, "m"]]),
                "acc": T.sort_rows([["chr1", 0, 5000, "x"], ["chr1_KI270706v1_random", 0, 5000, "x"],
                                    ["chr6_cox_hap2", 0, 9000, "x"], ["chrEBV", 0, 5000, "x"], ["chrM", 0, 9000, "x"]]),
                "avg": "1000", "avg_f": 1000, "min": 100, "acc_gene": True}},
        # round 4 -- no access table, the last target row nested in an earlier one: the guessed extent ends at
        # the end of the LAST row (guessed_extents), not at the largest end
        {"op": "antitarget", "tag": "corpus-guess-nested",
         "in": {"tg": [["chr1", 200000, 290000, "a"], ["chr1", 210000, 220000, "b"], ["chr2", 300000, 300100, "c"]],
                "acc": None, "avg": "10000", "avg_f": 10000, "min": None, "acc_gene": True}},
        # round 5c -- no access table, chromosomes in an order that is neither lexical nor by size of the end: each
        # guessed region ends at the last bait of ITS OWN chromosome (Props/C12SrcGuess.guessed_region_is_its_own)
        {"op": "antitarget", "tag": "corpus-guess-own-chrom",
         "in": {"tg": [["chr2", 200000, 200100, "a"], ["chr2", 390000, 390100, "b"], ["chr10", 160000, 160100, "c"],
                       ["chr10", 250000, 250100, "d"], ["chr1", 300000, 300100, "e"], ["chr1", 520000, 520100, "f"]],
                "acc": None, "avg": "20000", "avg_f": 20000, "min": None, "acc_gene": False}},
        # excluded point avg = 0 (run, not compared)
        {"op": "antitarget", "tag": "corpus-avg0", "in": {"tg": [["chr1", 2000, 2100, "a"]],
                                                          "acc": [["chr1", 0, 9000, "x"]],
                                                          "avg": "0", "avg_f": 0, "min": 100, "acc_gene": True}},
        {"op": "target", "tag": "corpus",
         "in": {"baits": [["chr1", 100, 100, "z"], ["chr1", 200, 900, "a"], ["chr1", 500, 600, "b"],
                          ["chr1", 900, 1000, "c"], ["chr2", 0, 50, "d"]],
                "annot": None, "short": False, "split": True, "avg": frac(200 / 0.75), "avg_f": 200 / 0.75}},
    ]


TARGET_AVG_DEFAULT = 200 / 0.75  # the default of do_target's avg_size and of `target --avg-size`
ANTI_AVG_DEFAULT = 150000  # the default of do_antitarget's avg_bin_size and of `antitarget --avg-size`
MARGIN = 500  # only used to pick boundary sizes below; the check itself takes the number from the property
TELOMERE = 150000


def _off_target_stretches(tg, acc):
    """lengths of the stretches of accessible sequence (shrunk by the margin) that stay clear of every target
    by the margin -- a plain interval computation used ONLY to aim sizes at their boundaries (a wrong length
    merely gives one more random size); contig selection is ignored"""
    if not acc:
        last = {}
        for c, _s, e, _g in tg:
            last[c] = e
        acc = [[c, TELOMERE, e, ""] for c, e in last.items()]
    spans = []
    for c, s, e, *_ in acc:
        s, e = max(0, s + MARGIN), e - MARGIN
        pos = s
        for _c, ts, te, _g in sorted([r for r in tg if r[0] == c], key=lambda r: (r[1], r[2])):
            ts, te = max(0, ts - MARGIN), te + MARGIN
            if ts > pos and min(ts, e) > pos:
                spans.append(min(ts, e) - pos)
            pos = max(pos, te)
        if e > pos:
            spans.append(e - pos)
    return [x for x in spans if x > 0]


DEFAULT_SHARE = 0.1


def _default_variant(case):
    """the case at the DEFAULT sizes of the two functions (or None): coordinates scaled up until the default
    average (150000 / 266.67) cuts some region into several bins and the default minimum (9374) keeps some and
    drops others; the sizes are then left out of the call wherever the call style allows it (_rep_variant,
    _cli_variant).  Private random stream seeded by the case."""
    import json
    import random
    sub = random.Random("c12dflt:" + json.dumps(case, sort_keys=True))
    if sub.random() >= DEFAULT_SHARE:
        return None
    i = dict(case["in"])
    if case["op"] == "antitarget":
        spans = _off_target_stretches(i["tg"], i["acc"])
        if not spans or max(spans) < 300:
            return None
        # the longest stretch becomes 1.2 .. 6 times the default average (at most ~40 bins per stretch)
        f = max(1, -(-int(ANTI_AVG_DEFAULT * sub.uniform(1.2, 6)) // max(spans)))
        if i["acc"] is None:  # guessed extents start at 150000 whatever the scale: shift instead
            f = 1
            off = int(ANTI_AVG_DEFAULT * sub.uniform(1.2, 4))
            i["tg"] = [[c, s + off, e + off, g] for c, s, e, g in i["tg"]]
        else:
            i["tg"] = [[c, s * f, e * f, g] for c, s, e, g in i["tg"]]
            i["acc"] = [[c, s * f, e * f, g] for c, s, e, g in i["acc"]]
        i["avg"], i["avg_f"] = frac(ANTI_AVG_DEFAULT), ANTI_AVG_DEFAULT
        i["min"] = sub.choice([None, None, None, 0, i["min"]])
    else:
        spans = [r[2] - r[1] for r in i["baits"] if r[2] > r[1]]
        if not spans:
            return None
        total = sum(spans)
        f = max(1, min(int(400 * TARGET_AVG_DEFAULT * 0.9) // total, -(-sub.randint(400, 4000) // max(spans))))
        i["baits"] = [[c, s * f, e * f, g] for c, s, e, g in i["baits"]]
        if i["annot"]:
            i["annot"] = [[c, s * f, e * f, g] for c, s, e, g in i["annot"]]
        i["avg"], i["avg_f"] = frac(TARGET_AVG_DEFAULT), TARGET_AVG_DEFAULT
        i["split"] = True
    return {"op": case["op"], "tag": "dflt-" + case["tag"], "in": i}


BOUNDARY_SHARE = 0.2


def _boundary_variant(case):
    """antitarget case with its sizes moved onto a boundary of THIS input (or None): the minimum equal to the
    length of one of the off-target stretches (or one base more / less: the stretch is binned / dropped), the
    average such that length / average is 1.5, 2.5, 3.5, 0.5 (round-half-even ties), or a non-integer average.
    Private random stream seeded by the case: the main stream is what it would be without this step."""
    import json
    import random
    if case["op"] != "antitarget":
        return None
    sub = random.Random("c12edge:" + json.dumps(case, sort_keys=True))
    if sub.random() >= BOUNDARY_SHARE:
        return None
    i = dict(case["in"])
    spans = _off_target_stretches(i["tg"], i["acc"])
    if not spans:
        return None
    span = sub.choice(spans)
    avg, mn = i["avg_f"], i["min"]
    k = sub.random()
    if k < 0.55:
        mn = max(1, span + sub.choice([0, 0, 0, 1, -1]))
        if sub.random() < 0.7 and 4 * mn > 3 * avg:  # keep the minimum at or below 3/4 of the average (finding K)
            avg = sub.choice([-(-4 * mn // 3), sub.randint(-(-4 * mn // 3), 3 * mn + 4), 2 * mn])
        if avg * 400 < max(spans):  # not thousands of bins
            avg = max(avg, max(spans) // 200)
    elif k < 0.85:
        cands = [Fraction(2 * span, d) for d in (1, 3, 5, 7, 9)]
        cands = [int(a) for a in cands if a.denominator == 1 and a >= 4 and a * 400 >= max(spans)]
        if not cands:
            return None
        avg = sub.choice(cands)
        mn = sub.choice([None, None, 0, 1, max(1, avg // 16), max(1, (3 * avg) // 4)])
    else:
        avg = avg + sub.choice([0.5, 0.25, 0.75, 1 / 3])  # a float average (the API takes any number)
    i["avg"], i["avg_f"], i["min"] = frac(avg), avg, mn
    return {"op": case["op"], "tag": "edge-" + case["tag"], "in": i}


REP_SHARE = 0.55


def _rep_variant(case):
    """the same case handed to do_target / do_antitarget in another REPRESENTATION (field `rep`, not part of
    the model's input): tables that are filtered subsets of larger ones (pandas index labels != positions),
    extra columns / another column order / no gene column, float or int32 coordinates, numpy scalars for the
    sizes, arguments by position / by keyword / left out when they equal the default.  Private stream."""
    import json
    import random
    if case["in"].get("cli"):
        return None
    sub = random.Random("c12rep:" + json.dumps(case, sort_keys=True))
    dflt = case["tag"].startswith("dflt-")
    if sub.random() >= (0.9 if dflt else 0.8 if case["in"].get("annot") else REP_SHARE):
        return None
    i = dict(case["in"])
    rep = {}
    for who in (("tg", "acc") if case["op"] == "antitarget" else ("baits",)):
        if not i.get(who):
            continue
        # labels are assigned by row label: a filtered bait table with an annotation file is the cell that matters
        if sub.random() < (0.85 if who == "baits" and i.get("annot") else 0.5):
            rep["sub_" + who] = sub.randint(1, 10 ** 6)
        k = sub.random()
        if k < 0.2:
            rep["cols_" + who] = "extra"  # strand + a numeric column after the usual four
        elif k < 0.35:
            rep["cols_" + who] = "order"  # the same, columns in another order
        elif k < 0.5 and who == "tg":
            rep["cols_" + who] = "nogene"  # a bed3 target table
        k = sub.random()
        if k < 0.15:
            rep["dtype_" + who] = "float"
        elif k < 0.3:
            rep["dtype_" + who] = "int32"
    k = sub.random()
    if k < 0.25:
        rep["num"] = "np"  # numpy scalars, as computed by autobin / read from a table
    elif k < 0.4:
        rep["num"] = "float"
    rep["call"] = "implicit" if dflt and sub.random() < 0.8 else sub.choice(["pos", "kw", "implicit", "implicit"])
    i["rep"] = rep
    return {"op": case["op"], "tag": case["tag"], "in": i}


CLI_SHARE = 0.16


def _cli_variant(case):
    """the same case routed through `cnvkit.py target` / `cnvkit.py antitarget` (or None: keep the API path).
    The choice and the adjustments are drawn from a private stream seeded by the case itself, so the main random
    stream -- and with it every API case -- is what it would be without the command-line share.
    The command line takes integer sizes only and its files cannot carry trailing blanks in a label, so the
    case is adjusted to what a BED file + argv can express; `cli_opts` records the spelling of each option
    (None = option left out: the parser's default has to reach the function)."""
    import json
    import random
    sub = random.Random("c12cli:" + json.dumps(case, sort_keys=True))
    if sub.random() >= CLI_SHARE:
        return None
    i = dict(case["in"])
    opts = {}
    if case["op"] == "antitarget":
        avg = i["avg_f"]
        big = max([r[2] for r in i["tg"] + (i["acc"] or [])] or [0]) >= 60000
        if sub.random() < (0.3 if big else 0.05):
            avg = ANTI_AVG_DEFAULT
            if i["min"] not in (None, 0) and sub.random() < 0.7:  # keep the minimum in the same relation to avg
                i["min"] = sub.choice([avg // 16, (3 * avg) // 4, (3 * avg) // 4 + 1, sub.randint(1, avg)])
        if not isinstance(avg, int) or avg <= 0:
            return None
        i["avg"], i["avg_f"] = frac(avg), avg
        opts["avg"] = None if avg == ANTI_AVG_DEFAULT and sub.random() < 0.75 else sub.choice(["-a", "--avg-size"])
        opts["min"] = None if i["min"] is None else sub.choice(["-m", "--min-size"])
        opts["access"] = None if i["acc"] is None else sub.choice(["-g", "--access"])
        if i["acc"]:  # a table read from a file is sorted (the renamed "x..." contigs of the generator are not)
            i["acc"] = T.sort_rows(i["acc"])
        # NOTE `antitarget` without -o raises AttributeError (args.interval does not exist):
        # /verif/proposed_fixes/C12-cli-antitarget-default-output.md -- every generated command line carries -o
        opts["out"] = "-o" if sub.random() < 0.5 else "--output"
        # the files: lines in another order (the reader sorts); targets as BED3 / BED4 / BED6
        opts["shuffle"] = sub.randint(1, 10 ** 6) if sub.random() < 0.3 else None
        opts["ncol"] = sub.choice([4, 4, 4, 6, 3])
        if opts["ncol"] == 3:
            i["tg"] = [[r[0], r[1], r[2], "-"] for r in i["tg"]]
    else:
        avg = i["avg_f"]
        k = sub.random()
        if k < 0.3 or not avg >= 0.5:
            avg = TARGET_AVG_DEFAULT
        elif float(avg) != int(avg):
            avg = max(1, int(round(avg)))
        else:
            avg = int(avg)
        i["avg"], i["avg_f"] = frac(avg), avg
        if avg == TARGET_AVG_DEFAULT:
            opts["avg"] = None
        else:
            opts["avg"] = sub.choice(["-a", "--avg-size"])
        if not i["split"] and avg != TARGET_AVG_DEFAULT and sub.random() < 0.5:
            # without --split the size is irrelevant: leave it out, the model gets the default
            i["avg"], i["avg_f"], opts["avg"] = frac(TARGET_AVG_DEFAULT), TARGET_AVG_DEFAULT, None
        # a BED file cannot carry a trailing blank / an empty label
        i["baits"] = [[r[0], r[1], r[2], r[3].strip() or "-"] for r in i["baits"]]
        # None: no -o / --output, the BED text goes to standard output
        opts["out"] = sub.choice(["-o", "--output", None])
        # the bait file as BED6 (score, strand) and / or with its lines in another order (the reader sorts)
        # or as BED3: the reader then labels every bait "-"
        opts["ncol"] = sub.choice([4, 4, 4, 4, 6, 6, 6, 3, 3])
        if opts["ncol"] == 3:
            i["baits"] = [[r[0], r[1], r[2], "-"] for r in i["baits"]]
        opts["shuffle"] = sub.randint(1, 10 ** 6) if sub.random() < 0.3 else None
    i["cli"] = True
    i["cli_opts"] = opts
    return {"op": case["op"], "tag": "cli-" + case["tag"], "in": i}


def gen_cases(rng, tier):
    n = {"quick": 1500, "thorough": 12000, "search": 1500}[tier]
    cases = []
    for i in range(n):
        c = (_anti_case(rng, tier if tier == "search" else "random") if i % 5 < 3
             else _target_case(rng, tier if tier == "search" else "random"))
        c = _default_variant(c) or _boundary_variant(c) or c
        c = _cli_variant(c) or c
        cases.append(_rep_variant(c) or c)
    # round 5: drawn AFTER the stream above, so that the cases of earlier rounds stay what they were
    import random
    rng2 = random.Random(rng.getrandbits(64))
    for _ in range({"quick": 120, "thorough": 1200, "search": 120}[tier]):
        c = _shorten_case(rng2, tier if tier == "search" else "shorten-run")
        cases.append(_cli_variant(c) or c)
    return cases


# ---------------------------------------------------------------------------------------------
# real code


def _write_bed(path, rows, ncol=4, shuffle=None):
    """`shuffle` (a seed): the lines in another order -- rows with equal coordinates keep their relative order,
    so that the sorted table the reader builds is `rows` again"""
    import random
    lines = ["\t".join(str(x) for x in r[:min(ncol, 4)]) + ("\t%d\t%s" % (k % 7, "+-"[k % 2]) if ncol == 6 else "") + "\n"
             for k, r in enumerate(rows)]
    if shuffle:
        order = list(range(len(rows)))
        random.Random(shuffle).shuffle(order)
        slots = {}  # restore the relative order inside each group of equal coordinates
        for pos, k in enumerate(order):
            slots.setdefault(tuple(rows[k][:3]), []).append(pos)
        for key, poss in slots.items():
            for pos, k in zip(poss, sorted(order[q] for q in poss)):
                order[pos] = k
        lines = [lines[k] for k in order]
    with open(path, "w") as f:
        f.writelines(lines)


def _read_bed_plain(path):
    """the written BED file, split on tabs (no reader of cnvkit involved)"""
    rows = []
    with open(path) as f:
        for ln in f:
            p = ln.rstrip("\n").split("\t")
            if len(p) != 4:
                raise AssertionError(f"output line with {len(p)} columns: {ln!r}")
            rows.append([p[0], int(p[1]), int(p[2]), p[3]])
    return rows


def _cnvkit(argv, fout, cap):
    """what `cnvkit.py <argv>` does, in-process; returns the rows of the BED file it wrote to `fout`, after
    checking that they are the table the command handed to the writer (as bed4).  `cap`: a generous bound on
    the number of bins this input can give at its average size (about twice span/avg); a table beyond it is
    reported as such instead of being handed to the model's clause checker (a size option that does not reach
    the function can give 10^5 one-base bins)"""
    import logging
    from cnvlib import commands
    from skgenome import tabio
    captured = []

    class _Tab:
        def __getattr__(self, name):
            return getattr(tabio, name)

        def write(self, garr, outfname=None, fmt="tab", *a, **k):
            captured.append((garr, outfname, fmt))
            return tabio.write(garr, outfname, fmt, *a, **k)
    import contextlib
    import io
    saved = commands.tabio
    commands.tabio = _Tab()
    logging.disable(logging.CRITICAL)
    stdout = io.StringIO()
    try:
        with contextlib.redirect_stdout(stdout):
            args = commands.parse_args(argv)
            args.func(args)
    finally:
        logging.disable(logging.NOTSET)
        commands.tabio = saved
    if fout is None:  # no -o: the BED text is printed
        if len(captured) != 1 or captured[0][1] is not None or captured[0][2] != "bed4":
            raise AssertionError(f"cnvkit.py {argv[0]} without -o did not print exactly one bed4 table")
        fout = argv[1] + ".stdout"
        with open(fout, "w") as f:
            f.write(stdout.getvalue())
    elif stdout.getvalue():
        raise AssertionError(f"cnvkit.py {argv[0]} -o FILE printed to standard output as well")
    if len(captured) != 1 or captured[0][1] not in (fout, None) or captured[0][2] != "bed4" or not os.path.exists(fout):
        raise AssertionError(f"cnvkit.py {argv[0]} did not write exactly one bed4 table to the requested output")
    if len(captured[0][0]) > cap:
        raise AssertionError(f"cnvkit.py {argv[0]} wrote {len(captured[0][0])} bins, more than twice what the "
                             f"input can give at this average size ({cap})")
    rows = _read_bed_plain(fout)
    if rows != T.rows_of(captured[0][0]):
        raise AssertionError(f"the BED file written by cnvkit.py {argv[0]} is not the table the command computed")
    return rows


def _check_reread(path, rows, what):
    """the input file reads back (tabio.read_auto, as the command does) as the rows given to the model"""
    from skgenome import tabio
    back = T.rows_of(tabio.read_auto(path)) if rows else []
    if [r[:3] for r in back] != [r[:3] for r in rows] or (rows and len(rows[0]) > 3 and back != rows):
        raise AssertionError(f"harness: the {what} file does not read back as the case's rows")


def _opt(argv, name, value):
    if name is not None:
        argv += [name, str(value)]


def _anti_cli(i):
    o = i["cli_opts"]
    d = tempfile.mkdtemp(dir="/var/tmp", prefix="c12cli")
    try:
        ft, fa, fo = (os.path.join(d, n) for n in ("targets.bed", "access.bed", "out.antitarget.bed"))
        _write_bed(ft, i["tg"], o.get("ncol", 4), shuffle=o.get("shuffle"))
        _check_reread(ft, i["tg"], "target")
        argv = ["antitarget", ft]
        if i["acc"] is not None:
            acc = i["acc"] if i.get("acc_gene", True) else [r[:3] for r in i["acc"]]
            _write_bed(fa, acc, 4 if i.get("acc_gene", True) else 3, shuffle=o.get("shuffle"))
            _check_reread(fa, acc, "access")
            assert o["access"]
            _opt(argv, o["access"], fa)
        else:
            assert o["access"] is None
        assert (o["avg"] is not None or i["avg_f"] == ANTI_AVG_DEFAULT) and (o["min"] is None) == (i["min"] is None)
        _opt(argv, o["avg"], i["avg_f"])
        _opt(argv, o["min"], i["min"])
        _opt(argv, o["out"], fo)
        ends = {}
        for r in i["tg"] + (i["acc"] or []):
            ends[r[0]] = max(ends.get(r[0], 0), r[2])
        cap = 50 + 10 * len(i["tg"] + (i["acc"] or [])) + 2 * int(sum(ends.values()) / i["avg_f"])
        return _cnvkit(argv, fo, cap)
    finally:
        shutil.rmtree(d, ignore_errors=True)


def _target_cli(i):
    o = i["cli_opts"]
    d = tempfile.mkdtemp(dir="/var/tmp", prefix="c12cli")
    try:
        fb, fn, fo, fp = (os.path.join(d, n) for n in ("baits.bed", "annot.bed", "out.target.bed", "plain.target.bed"))
        _write_bed(fb, i["baits"], o.get("ncol", 4), shuffle=o.get("shuffle"))
        _check_reread(fb, i["baits"], "bait")
        assert o["avg"] is not None or i["avg_f"] == TARGET_AVG_DEFAULT
        common = ["--split"] if i["split"] else []
        _opt(common, o["avg"], i["avg_f"])
        argv = ["target", fb]
        if i["annot"] is not None:
            _write_bed(fn, i["annot"])
            argv += ["--annotate", fn]
        if i["short"]:
            argv += ["--short-names"]
        cap = 50 + 2 * len(i["baits"]) + 2 * int(sum(r[2] - r[1] for r in i["baits"]) / i["avg_f"])
        if o["out"] is None:
            out = _cnvkit(argv + common, None, cap)
            plain = _cnvkit(["target", fb] + common, None, cap)
        else:
            out = _cnvkit(argv + common + [o["out"], fo], fo, cap)
            # the same bins before relabelling: neither --annotate nor --short-names on the command line
            plain = _cnvkit(["target", fb] + common + [o["out"], fp], fp, cap)
        return {"rows": out, "plain": plain}
    finally:
        shutil.rmtree(d, ignore_errors=True)


def _table(rows, rep, who):
    """the GenomicArray of `rows` in the representation `rep` asks for (see _rep_variant)"""
    import numpy as np
    arr = T.ga(rows, sub=rep.get("sub_" + who)) if rep.get("sub_" + who) else T.ga(rows)
    if not len(arr):
        return arr
    cols = rep.get("cols_" + who)
    if cols in ("extra", "order"):
        d = arr.data.assign(strand=["+-"[k % 2] for k in range(len(arr))],
                            depth=[0.5 * k for k in range(len(arr))])
        if cols == "order":
            d = d[["chromosome", "strand", "start", "end", "depth", "gene"] if len(rows) % 2
                  else ["gene", "depth", "end", "start", "chromosome", "strand"]]
        arr.data = d
    elif cols == "nogene":
        arr = arr.keep_columns(["chromosome", "start", "end"])
    dt = rep.get("dtype_" + who)
    if dt:
        arr.data = arr.data.astype({"start": float if dt == "float" else np.int32,
                                    "end": float if dt == "float" else np.int32})
    return arr


def _num(x, rep):
    """a size as the number type `rep` asks for (the value is unchanged)"""
    import numpy as np
    kind = rep.get("num")
    if x is None or not kind:
        return x
    if kind == "float":
        return float(x)
    return np.int64(x) if isinstance(x, int) else np.float64(x)


def run_impl(case):
    from cnvlib import antitarget, target
    op, i = case["op"], case["in"]
    if i.get("cli"):
        return _anti_cli(i) if op == "antitarget" else _target_cli(i)
    rep = i.get("rep") or {}
    if op == "antitarget":
        tg = _table(i["tg"], rep, "tg")
        acc = None
        if i["acc"] is not None:
            acc = _table(i["acc"], rep, "acc")
            if not i.get("acc_gene", True) and len(acc):
                acc = acc.keep_columns([c for c in acc.data.columns if c != "gene"])
        avg, mn = _num(i["avg_f"], rep), _num(i["min"], rep)
        call = rep.get("call", "pos")
        if call == "pos":
            out = antitarget.do_antitarget(tg, acc, avg, mn)
        else:
            kw = {"min_bin_size": mn, "avg_bin_size": avg, "access": acc}
            if call == "implicit":  # whatever equals the default is left out
                kw = {k: v for k, v in kw.items()
                      if not (v is None or (k == "avg_bin_size" and i["avg_f"] == ANTI_AVG_DEFAULT))}
            out = antitarget.do_antitarget(tg, **kw)
        return T.rows_of(out)
    if op == "target":
        baits = _table(i["baits"], rep, "baits")
        d = None
        try:
            path = None
            if i["annot"] is not None:
                d = tempfile.mkdtemp(dir="/var/tmp", prefix="c12-")
                path = os.path.join(d, "annot.bed")
                with open(path, "w") as f:
                    for r in i["annot"]:
                        f.write(f"{r[0]}\t{r[1]}\t{r[2]}\t{r[3]}\n")
            avg = _num(i["avg_f"], rep)
            call = rep.get("call", "pos")
            if call == "pos":
                plain = target.do_target(baits, None, False, i["split"], avg)
                out = target.do_target(baits, path, i["short"], i["split"], avg)
            else:
                kw = {"avg_size": avg, "do_split": i["split"], "do_short_names": i["short"], "annotate": path}
                if call == "implicit":  # whatever equals the default is left out
                    kw = {k: v for k, v in kw.items()
                          if not (v is None or v is False or (k == "avg_size" and i["avg_f"] == TARGET_AVG_DEFAULT))}
                plain = target.do_target(baits, **{k: v for k, v in kw.items() if k in ("avg_size", "do_split")})
                out = target.do_target(baits, **kw)
            return {"rows": T.rows_of(out), "plain": T.rows_of(plain)}
        finally:
            if d:
                shutil.rmtree(d, ignore_errors=True)
    raise ValueError(op)


def to_line(case, impl):
    inp = {k: v for k, v in case["in"].items() if k not in ("avg_f", "acc_gene", "cli", "cli_opts", "rep")}
    line = {"op": case["op"], "in": inp}
    if not (isinstance(impl, dict) and "__error__" in impl):
        line["impl"] = impl
    return line


def _float_kind(spans, avg_f):
    """where the float arithmetic of _split_targets leaves exact arithmetic on one of these spans:
    "count" (round(span/avg) differs), "cuts" (some int(i*span/n) differs) or None"""
    import numpy as np
    avg_q = Fraction(avg_f)
    kind = None
    for span in set(spans):
        if span <= 0:
            continue
        nf = int(round(np.int64(span) / avg_f)) or 1
        q = Fraction(span) / avg_q
        fl = q.numerator // q.denominator
        d = q - fl
        nq = fl if d < Fraction(1, 2) else (fl + 1 if d > Fraction(1, 2) else (fl if fl % 2 == 0 else fl + 1))
        nq = nq or 1
        if nf != nq:
            return "count"
        if nf > 20000 or kind:
            continue
        bs = np.int64(span) / nf
        for k in range(1, nf):
            if int(k * bs) != (k * span) // nf:
                kind = "cuts"
                break
    return kind


def judge(case, impl, resp):
    if "error" in resp:
        return [], ["model error: " + resp["error"]], None
    i = case["in"]
    if Fraction(i["avg"]) <= 0:
        return [], [], "avg <= 0: outside the quantifier (real code: %s)" % (
            impl.get("__error__") if isinstance(impl, dict) and "__error__" in impl else "returns")
    out = resp["out"]
    impl_err = impl["__error__"] if isinstance(impl, dict) and "__error__" in impl else None
    if "error" in out:
        # the model says the real code refuses this input (chromosome names of the two files share nothing)
        if impl_err == out["error"]:
            return [], [], None
        return [], [f"model raises {out['error']}, implementation {'raises ' + impl_err if impl_err else 'returns'}"], None
    if impl_err:
        return ["raises_" + impl_err], [], None
    spec = list(resp.get("spec") or [])
    disagree = []
    if not resp.get("bridge", True):
        disagree.append("table-level model != per-chromosome model (bridge)")
    if case["op"] == "antitarget":
        if impl != out["rows"]:
            disagree.append("antitarget: impl != model")
    else:
        if impl["plain"] != out["plain"]:
            disagree.append("target: bins before relabelling differ")
        if [r[:3] for r in impl["rows"]] != [r[:3] for r in out["rows"]]:
            disagree.append("target: coordinates differ")
        elif out.get("cands") is not None:
            bad = [k for k, (r, c) in enumerate(zip(impl["rows"], out["cands"])) if r[3] not in c]
            if bad:
                disagree.append(f"target: short label of row {bad[0]} not among the model's candidates")
        elif [r[3] for r in impl["rows"]] != [r[3] for r in out["rows"]]:
            disagree.append("target: labels differ")
    if (disagree or spec) and (case["op"] == "antitarget" or i["split"]):
        kind = _float_kind([r[2] - r[1] for r in resp.get("regions", [])], i["avg_f"])
        if kind == "count":
            # round(span/avg) sits on a .5 boundary up to the last ulp: the bin count itself is knife-edge
            return [], [], "float round(span/avg) differs from the exact rounding"
        if kind == "cuts" and not spec:
            # a cut int(i*span/n) is one base off the exact floor; the property's clauses hold on the real bins
            return [], [], "float int(i*span/n) differs from the exact floor (spec clean on the real output)"
        if kind == "cuts":
            disagree = []
    return spec, disagree, None


def _is_canonical(name):
    from cnvlib.antitarget import is_canonical_contig_name
    return bool(is_canonical_contig_name(name))


def classify_min_above_three_quarters_avg(case, impl, resp):
    """finding K: a user-chosen minimum size above 3/4 of the average size; a region of about 1.5 x avg is
    still cut in two, each half smaller than the minimum"""
    i = case["in"]
    return (case["op"] == "antitarget" and i["min"] not in (None, 0)
            and 4 * Fraction(i["min"]) > 3 * Fraction(i["avg"]))


def classify_no_canonical_target_long_names(case, impl, resp):
    """finding V: none of the targeted contigs has a canonical name, so untargeted contigs are skipped by
    name length; the uncovered contigs are exactly canonical untargeted ones with a longer name"""
    i = case["in"]
    if case["op"] != "antitarget" or not i["acc"]:
        return False
    tchroms = {r[0] for r in i["tg"]}
    if not tchroms or any(_is_canonical(c) for c in tchroms):
        return False
    mx = max(len(c) for c in tchroms)
    bad = resp.get("bad_cover")
    return bool(bad) and all(c not in tchroms and _is_canonical(c) and len(c) > mx for c in bad)


def nontrivial(case, impl, resp):
    out = resp.get("out") if isinstance(resp, dict) else None
    if not isinstance(out, dict) or not out.get("rows"):
        return False
    i = case["in"]
    if case["op"] == "antitarget":
        achroms = {r[0] for r in (i["acc"] or i["tg"])}
        return any(r[0] in achroms for r in i["tg"])
    rows = [r for r in i["baits"] if r[2] > r[1]]
    if len(out["rows"]) > len(rows):
        return True
    for x in range(len(rows)):
        for y in range(x + 1, len(rows)):
            a, b = rows[x], rows[y]
            if a[0] == b[0] and a[1] <= b[2] and b[1] <= a[2]:
                return True
    return False


def shrink(case):
    i = case["in"]
    for key in ("tg", "acc", "baits", "annot"):
        if i.get(key):
            for smaller in T.shrink_rows(i[key]):
                if key in ("tg", "baits", "annot") and not smaller:
                    continue
                c = {"op": case["op"], "tag": "shrunk", "in": dict(i)}
                c["in"][key] = smaller
                yield c
