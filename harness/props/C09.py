"""C09 -- coverage reports the mean per-base depth of the counted reads in every bin.

Real code: cnvlib.coverage.do_coverage (both algorithms, 1..16 processes, `to_chunks` with its real code and a
non-default `chunk_size`) on synthetic coordinate-sorted BAMs written with pysam, called directly or through
`cnvkit.py coverage` (commands.parse_args + _cmd_coverage + tabio.write); cnvlib.parallel.to_chunks alone.
Model + oracle: lean/CnvVerif/Model/Coverage.lean, Driver/Coverage.lean (`handleCoverage`).
"""
from __future__ import annotations

import functools
import json
import math
import os
import shutil
import tempfile
from fractions import Fraction

from ..core import frac
from . import _c09cols as _cols
from . import _c09glue as _glue

LEVEL = "proof"
RULE = ("op cov: synthetic coordinate-sorted BAM (1-3 contigs incl. names whose sort order differs from header order, "
        "0..5000 reads of length 30..150, soft/hard clips, =/X, optional insertions/deletions/ref-skips, FLAG = any "
        "subset of the 12 bits, MAPQ 0..60, reads piled on bin edges and contig ends; 10 % of the layouts moved to "
        "genome-scale coordinates 2^24..2.5e8; 30 % of the BAMs with some records stored without SEQ; 0/1/7 unplaced "
        "unmapped reads at the end) x index files next to the BAM {s.bam.bai, only s.bai, none, a stale index of "
        "another BAM under either name} x BED (3/4/6/8/12 columns, '#' comments, abutting/overlapping/nested/zero-"
        "width/duplicate bins, bins straddling and past the contig end, sorted or shuffled, numeric-looking and "
        "NA-looking names, last line with or without a line end, file named *.bed / *.BED / *.txt / without "
        "extension / with 'anti' in it) x mapq cut-off x fasta= given or not x runs {pileup, count} x processes "
        "{1,2,3,16, now and then any of 4..15} x chunk size {1,2,3,5,7,n-1,n,n+1,default 5000} x an arbitrary worker "
        "completion order for the model x call path: do_coverage with keywords / positionally / with every "
        "default-valued argument left out, and 12-18 % of the cov cases (random ones, a flags-x-mapq triple, corpus "
        "witnesses, one > 5000-line regions file) through `cnvkit.py coverage BAM BED` in-process (parse_args + "
        "args.func): -c/--count, -q/--min-mapq, -p/--processes, -f/--fasta, -o/--output in short, long and "
        "--opt=value spelling, before / between / after the positionals, values equal to the parser defaults mostly "
        "left out, -o left out in a quarter (default file name in the working directory); the table handed to the "
        "writer is judged like an API result and the written .cnn must read back (plain pandas) equal to it row by "
        "row within 1e-5 (clause cli_written_file_is_the_table); bare `-p` not generated (proposed_fixes/"
        "C09-cli-processes-bare.md); exhaustive small scope: every read [a,b) within 0..6 against every bin [s,e) "
        "within 0..7. op chunks: to_chunks on 0..40 raw lines with comments, sizes 1..8 and 4999..10001 lines at the "
        "default size. op covsched (round 4): 2-3 contigs x 6-14 distinct BED lines x 20-120 reads, runs pileup / count "
        "with 2-4 processes and chunk sizes 1..n/2 where the worker functions (_bedcov, _rdc) are delayed per task so "
        "that the REAL pool finishes in reverse / a random / its natural order; every worker logs take and finish; "
        "the observed event list is replayed through the small-step pool model and the model's table must be the "
        "real one (clause same_table_any_worker_schedule + the clauses of op cov). tag cigar-rich: reads with 2-6 "
        "aligned blocks separated by I / D / N / P, two of them in a row, insertion after the leading clip, H+S at "
        "both ends. non-trivial = valid input with a bin of positive depth (covsched: a pool run in which at least "
        "two tasks finished); distinct by hash. op covglue (round 5b): do_coverage itself with its callees replaced by "
        "recording stand-ins: ensure_bam_sorted answers {yes, no} x regions file {empty, newlines, white space | record "
        "first, after blank lines, comment line} x by_count x min_mapq {0,1,10,30,60,255} x processes {None,-3,-1,0,1,2,4,"
        "16} x call style {keywords, positional, defaults left out, mixed} x fasta given or not x mapped-read total "
        "{0, 1000}; every combination of the four decision atoms once; non-trivial = a table came back")
EXHAUSTIVE = {"quick": False, "thorough": False}
ASSUMPTIONS = [
    "regions file lines are records or '#' comments (what to_chunks recognises); every record has the same number "
    "of columns; names are non-empty and carry no surrounding blanks",
    "BAM is coordinate-sorted (its index may be present under either name, missing, or older than the BAM: "
    "do_coverage is expected to build it), every placed record's CIGAR consumes at least one reference base",
    "regions file is plain text (a .gz regions file is refused by every path of do_coverage alike) with 3, 4 or "
    ">= 6 columns (a 5-column BED whose 4th field is one of . + - is read by --count as a Picard interval list)",
    "BAM input only (no CRAM); the fasta argument names a FASTA of the contigs and is irrelevant to the result",
    "worker schedules: model = Executor.map returns results in submission order for every completion order "
    "(proved for every permutation in the model; the real pool is exercised with 1,2,3,16 processes); round 4: a "
    "small-step pool (workers take any waiting task, finish in any interleaving, results stored by submission "
    "index) with theorems over every event list, exercised by replaying the event lists observed in the real pool "
    "under forced completion orders; that concurrent.futures stores each result in the future of its submission "
    "and that Executor.map reads the futures in order remains a contract",
    "log2 itself is checked as 2**log2 == depth to 1e-9 (math.log / np.log2 are third-party numerics)",
    "pileup depth with deletions / ref-skips follows the samtools-bedcov contract (deleted and skipped reference "
    "positions count as covered); the property claims equality of the algorithms only without indels",
]
TRUSTED_EXTRA = ["pysam / htslib: BAM writer, index, fetch, AlignedSegment.positions, samtools bedcov (default flag "
                 "filter, -Q, --reference)", "concurrent.futures.ProcessPoolExecutor.map ordering",
                 "pandas read_csv / concat", "math.log, numpy.log2", "argparse"]

BITS = (1, 2, 4, 8, 16, 32, 64, 128, 256, 512, 1024, 2048)
EXCL = (4, 256, 512, 1024)
M, I, D, N, S, H, EQ, X = 0, 1, 2, 3, 4, 5, 7, 8
CONTIG_SETS = [["chr1", "chr2", "chr3"], ["1", "2", "X"], ["chr10", "chr2", "chrX"], ["chrM", "chr1", "chrY"],
               ["2", "10", "1"], ["chrUn_gl000220", "chr1", "chr1_random"], ["X", "Y", "MT"]]
NAMES = ["TP53", "BRCA1", "g1", "g2", "A,B", "x-1", "C.1", "Antitarget", "-", "MYC", "ex_7", "p53|q"]
ODD_NAMES = ["007", "12", "1e3", "NA", "null", "nan", "3.0", "N/A"]


# ------------------------------------------------------------------------------------------------
# generators


def _cigar(rng, indels, length=None):
    ln = length or rng.randint(30, 150)
    ops = []
    if rng.random() < 0.1:
        ops.append((H, rng.randint(1, 20)))
    lead = rng.randint(1, 15) if rng.random() < 0.25 else 0
    trail = rng.randint(1, 15) if rng.random() < 0.25 else 0
    body = max(1, ln - lead - trail)
    if lead:
        ops.append((S, lead))
    kind = rng.random()
    if indels and kind < 0.45 and body >= 6:
        a = rng.randint(1, body - 2)
        b = body - a
        mid = rng.choice([(I, rng.randint(1, 8)), (D, rng.randint(1, 30)), (N, rng.randint(1, 400)),
                          (D, rng.randint(1, 5))])
        ops += [(M, a), mid, (M, b)]
        if rng.random() < 0.2 and b >= 4:
            ops.pop()
            ops += [(M, b // 2), rng.choice([(D, 2), (I, 3), (N, 50)]), (M, b - b // 2)]
    elif kind > 0.9 and body >= 4:
        a = rng.randint(1, body - 2)
        ops += [(EQ, a), (X, 1), (EQ, body - a - 1)] if body - a - 1 > 0 else [(EQ, a), (X, body - a)]
    else:
        ops.append((M, body))
    if trail:
        ops.append((S, trail))
    if rng.random() < 0.05:
        ops.append((H, rng.randint(1, 9)))
    return [list(o) for o in ops]


def _rich_cigar(rng):
    """CIGAR-rich reads (round 4): 2..6 aligned blocks (M / = / X, some of length 1) separated by insertions,
    deletions, reference skips and padding, also two of them in a row (D next to N, I next to D), an insertion
    right after the leading clip, hard + soft clips at both ends"""
    P = 6
    ops = []
    if rng.random() < 0.3:
        ops.append((H, rng.randint(1, 9)))
    if rng.random() < 0.5:
        ops.append((S, rng.randint(1, 12)))
        if rng.random() < 0.3:
            ops.append((I, rng.randint(1, 4)))
    nblocks = rng.randint(2, 6)
    for b in range(nblocks):
        ops.append((rng.choice([M, M, M, EQ, X]), rng.choice([1, 1, 2, 5, rng.randint(3, 40)])))
        if b < nblocks - 1:
            sep = [rng.choice([(I, rng.randint(1, 6)), (D, rng.randint(1, 25)), (N, rng.randint(1, 300)),
                               (D, 1), (P, rng.randint(1, 3))])]
            if rng.random() < 0.3:
                sep.append(rng.choice([(N, rng.randint(1, 60)), (D, rng.randint(1, 9)), (I, 2)]))
            if all(o in (I, P) for o, _l in sep) and rng.random() < 0.5:
                sep.append((D, rng.randint(1, 7)))
            ops += sep
    if rng.random() < 0.4:
        ops.append((S, rng.randint(1, 12)))
    if rng.random() < 0.2:
        ops.append((H, rng.randint(1, 9)))
    # htslib merges nothing: adjacent equal ops are legal; keep them apart anyway so that the CIGAR reads naturally
    out = []
    for o, l in ops:
        if out and out[-1][0] == o:
            out[-1][1] += l
        else:
            out.append([o, l])
    return out


def _flag(rng):
    r = rng.random()
    if r < 0.35:
        f = rng.choice([0, 16, 99, 147, 83, 163, 65, 129, 2048, 2064])
    elif r < 0.45:
        f = sum(b for b in BITS if rng.random() < 0.5)
    else:
        f = rng.choice([0, 16, 1, 3, 2048])
        for b in EXCL:
            if rng.random() < 0.08:
                f |= b
    return f


def _mapq(rng):
    return rng.choice([0, 0, 1, 9, 10, 11, 20, 29, 30, 31, 59, 60, 60, 60, rng.randint(0, 60)])


def _bins(rng, contigs, nmax):
    """BED records per contig: abutting, gapped, overlapping, nested, zero-width, straddling / past the end"""
    recs = []
    for name, L in contigs:
        pos = rng.choice([0, 0, rng.randint(0, 50)])
        per = max(1, nmax // len(contigs))
        k = 0
        while pos < L + 150 and k < per:
            ln = rng.choice([0, 1, 2, 10, 50, 120, 200, 700, rng.randint(1, 300)])
            s = pos + rng.choice([0, 0, 0, 1, 5, 100])
            if rng.random() < 0.15:
                s = max(0, s - rng.randint(1, 60))
            recs.append([name, s, s + ln])
            if rng.random() < 0.1 and ln > 4:  # nested bin
                recs.append([name, s + 1, s + ln - rng.randint(1, 3)])
            if rng.random() < 0.05:  # duplicate line
                recs.append([name, s, s + ln])
            pos = s + ln
            k += 1
        if rng.random() < 0.5:
            recs.append([name, max(0, L - rng.randint(1, 80)), L + rng.randint(0, 90)])  # straddles the end
        if rng.random() < 0.3:
            recs.append([name, L + rng.randint(0, 500), L + rng.randint(500, 900)])  # past the end
    return recs


def _reads(rng, contigs, nreads, indels, edges, noseq=False, rich=False):
    """reads placed uniformly, on bin edges, and around contig ends; returned coordinate-sorted"""
    out = []
    for tid, (name, L) in enumerate(contigs):
        n = nreads // len(contigs) + (1 if tid < nreads % len(contigs) else 0)
        my_edges = [e for (c, e) in edges if c == name] or [0]
        for _ in range(n):
            cg = _rich_cigar(rng) if (rich and rng.random() < 0.7) else _cigar(rng, indels)
            rl = sum(l for op, l in cg if op in (M, D, N, EQ, X))
            r = rng.random()
            if r < 0.45:
                pos = rng.randint(0, max(0, L - 1))
            elif r < 0.85:
                e = rng.choice(my_edges)
                pos = e - rng.choice([0, 1, rl - 1, rl, rl + 1, rl // 2, rng.randint(0, rl)])
            else:
                pos = L - rng.choice([rl, rl - 1, rl + 1, rl // 2, 1])
            pos = max(0, pos)
            rd = [tid, pos, cg, _flag(rng), _mapq(rng)]
            if noseq and rng.random() < 0.06:
                rd.append(1)  # record stored without SEQ/QUAL ('*'), as aligners write secondary hits
            out.append(rd)
    out.sort(key=lambda r: (r[0], r[1]))
    return out


def _bed_lines(rng, recs, ncol, odd_names, comments):
    lines = []
    for k, (c, s, e) in enumerate(recs):
        rest = []
        if ncol >= 4:
            nm = rng.choice(ODD_NAMES) if (odd_names and rng.random() < 0.5) else \
                rng.choice([rng.choice(NAMES), "g%d" % k, "bin%d" % rng.randint(0, 9)])
            rest.append(nm)
        if ncol >= 6:
            rest += [str(rng.randint(0, 1000)), rng.choice("+-.")]
        if ncol >= 8:
            rest += [str(s), str(e)]
        if ncol >= 12:
            rest += ["0", "1", "%d," % (e - s), "0,"]
        lines.append([c, s, e, rest])
    if comments:
        for _ in range(rng.randint(1, 4)):
            at = rng.choice([0, 0, len(lines), rng.randint(0, len(lines))])
            lines.insert(at, rng.choice(["#chrom\tstart\tend\tname", "# targets v2", "#", "#chr1\t5\t9\tx"]))
    return lines


def _runs(rng, nrec, big=False, procs_cycle=0):
    sizes = [1, 2, 3, 5, 7, max(1, nrec - 1), max(1, nrec), nrec + 1]
    ps = [2, 3, 16]
    if rng.random() < 0.25:  # any count within 1..16, not only the three usual ones
        ps[rng.randrange(2)] = rng.randint(4, 15)
    order = lambda: [rng.randint(0, 9) for _ in range(rng.randint(0, 12))]
    runs = [["pileup", 1, 5000, []]]
    p1 = ps[procs_cycle % 3]
    p2 = ps[(procs_cycle + 1) % 3]
    sz = (lambda: rng.choice(sizes)) if not big else (lambda: rng.choice([max(1, nrec // 3), max(1, nrec // 7), nrec]))
    runs.append(["pileup", p1, sz(), order()])
    runs.append(["pileup", p2, rng.choice([sz(), 5000]), order()])
    runs.append(["count", 1, 5000, []])
    runs.append(["count", ps[(procs_cycle + 2) % 3], 5000, order()])
    return runs


INDEX_MODES = ["bam.bai", "bam.bai", "bam.bai", "bai", "none", "stale", "stale-bai"]
BED_NAMES = ["r.bed", "r.bed", "r.bed", "targets.txt", "baits", "my.antitarget.bed", "S1.targets.BED"]
CALL_STYLES = ["kw", "kw", "pos", "implicit"]
# `-p` without a number ("use the maximum number of available CPUs") makes `cnvkit.py coverage` die with
# ValueError('max_workers must be greater than 0'): proposed_fixes/C09-cli-processes-bare.md.  Until that is
# repaired no generated command line uses the bare form; set to True afterwards (half of the 16-process runs of
# the command-line cases then use it).
P_BARE = True   # finding AS fixed in /repo (55d0dca)


def _argv(rng, algo, q, procs, fasta):
    """one `cnvkit.py coverage` command line (placeholders {bam} {bed} {fa} {out}): short and long option names,
    `--opt=value`, options before / between / after the two positionals, values equal to the parser's defaults
    left out most of the time, `-o` left out now and then (default output name in the working directory)"""
    def opt(short, long, val):
        r = rng.random()
        return [short, val] if r < 0.45 else [long, val] if r < 0.8 else [long + "=" + val]
    opts = []
    if algo == "count":
        opts.append([rng.choice(["-c", "--count"])])
    if q != 0 or rng.random() < 0.25:
        opts.append(opt("-q", "--min-mapq", str(q)))
    bare = P_BARE and procs == 16 and rng.random() < 0.5
    if not bare and (procs != 1 or rng.random() < 0.25):
        opts.append(opt("-p", "--processes", str(procs)))
    if fasta:
        opts.append(opt("-f", "--fasta", "{fa}"))
    if rng.random() < 0.75:
        opts.append(opt("-o", "--output", "{out}"))
    rng.shuffle(opts)
    a, b = sorted([rng.randint(0, len(opts)), rng.randint(0, len(opts))])
    flat = lambda xs: [w for o in xs for w in o]
    # `-c` takes no value: it may sit directly before a positional; every other option here carries its value
    return ["coverage"] + flat(opts[:a]) + ["{bam}"] + flat(opts[a:b]) + ["{bed}"] + flat(opts[b:]) + (["-p"] if bare else [])


def _variant(rng, far=False, cli=None):
    """the representation / call-path cell of a case (none of it changes the expected table)"""
    x = {"index": rng.choice(INDEX_MODES),  # which index files sit next to the BAM when do_coverage is entered
         "fasta": (not far) and rng.random() < 0.25,  # the fasta= / -f argument (a FASTA of the contigs)
         "unplaced": rng.choice([0, 0, 0, 1, 7]),  # unmapped reads without a position at the end of the BAM
         "nonl": rng.random() < 0.15,  # last line of the regions file without a line end
         "bedname": rng.choice(BED_NAMES),
         "call": rng.choice(CALL_STYLES)}  # keywords / positionals / defaults left implicit
    if (rng.random() < 0.18) if cli is None else cli:
        x["cli"] = True
    return x


def _with_cli(rng, case):
    i = case["in"]
    if i.get("cli"):
        i["argv"] = [_argv(rng, algo, i["q"], procs, i.get("fasta")) for algo, procs, _s, _o in i["runs"]]
        case["tag"] = "cli-" + case["tag"]
    return case


def _case(rng, k, nreads=None, nbins=None, tag=None, comments=None, odd=None, cli=None, rich=False):
    names = rng.choice(CONTIG_SETS)[: rng.randint(1, 3)]
    contigs = [[n, rng.randint(200, 3000)] for n in names]
    indels = rng.random() < 0.4
    recs = _bins(rng, contigs, nbins or rng.choice([3, 10, 30, 60]))
    edges = [(c, x) for (c, s, e) in recs for x in (s, e)]
    n = nreads if nreads is not None else rng.choice([0, 1, 5, 40, 150, 300, 600])
    reads = _reads(rng, contigs, n, indels, edges, noseq=rng.random() < 0.3, rich=rich)
    far = rng.random() < 0.1
    if far:  # genome-scale coordinates: the same layout moved far down the contigs
        off = dict((nm, rng.choice([2 ** 24 + 1, 123456789, 2 ** 27 + 5, 248000000])) for nm in names)
        contigs = [[nm, L + off[nm]] for nm, L in contigs]
        recs = [[c, s + off[c], e + off[c]] for c, s, e in recs]
        for r in reads:
            r[1] += off[names[r[0]]]
    order = rng.random()
    if order < 0.25:
        rng.shuffle(recs)
    elif order < 0.4:  # contigs in another order than the header, rows sorted inside
        cs = names[:]
        rng.shuffle(cs)
        recs.sort(key=lambda r: (cs.index(r[0]), r[1], r[2]))
    ncol = rng.choice([3, 4, 4, 6, 8, 12])
    comments = (rng.random() < 0.2) if comments is None else comments
    odd = (rng.random() < 0.1) if odd is None else odd
    bed = _bed_lines(rng, recs, ncol, odd, comments)
    q = rng.choice([0, 0, 1, 10, 11, 30, 31, 60, rng.randint(0, 61)])
    t = tag or ("indel" if indels else "plain") + (":comments" if comments else "") + (":oddnames" if odd and ncol >= 4 else "") \
        + ":col%d" % ncol + (":far" if far else "")
    inp = {"contigs": contigs, "reads": reads, "bed": bed, "q": q, "runs": _runs(rng, len(recs), procs_cycle=k)}
    inp.update(_variant(rng, far, cli))
    return _with_cli(rng, {"op": "cov", "tag": t, "in": inp})


def _small_scope():
    """every read [a,b) within 0..6 x every bin [s,e) within 0..7 (one BAM per read, all bins in one BED),
    through both algorithms; reads are far shorter than 30 bases on purpose: this is the boundary arithmetic"""
    bins = [["chr1", s, e, ["b%d_%d" % (s, e)]] for s in range(0, 8) for e in range(s, 8)]
    cases = []
    for a in range(0, 6):
        for b in range(a + 1, 7):
            reads = [[0, a, [[M, b - a]], 0, 60]]
            cases.append({"op": "cov", "tag": "small-scope",
                          "in": {"contigs": [["chr1", 6]], "reads": reads, "bed": bins, "q": 0,
                                 "runs": [["pileup", 1, 5000, []], ["count", 1, 5000, []]]}})
    return cases


def _flag_case():
    """one read per FLAG over every subset of the four excluding bits + supplementary + reverse, all in one BAM,
    each under its own bin; and every mapq around the cut-off"""
    reads, bed = [], []
    pos = 0
    for sub in range(64):
        f = sum(b for k, b in enumerate((4, 256, 512, 1024, 2048, 16)) if sub >> k & 1)
        reads.append([0, pos, [[M, 40]], f, 60])
        bed.append(["chr1", pos, pos + 40, ["f%d" % f]])
        pos += 50
    for mq in range(25, 36):
        reads.append([0, pos, [[M, 40]], 0, mq])
        bed.append(["chr1", pos, pos + 40, ["q%d" % mq]])
        pos += 50
    runs = [["pileup", 1, 5000, []], ["count", 1, 5000, []], ["pileup", 3, 7, [3, 1, 2]], ["count", 2, 5000, [1, 0]]]
    cases = [{"op": "cov", "tag": "flags-x-mapq", "in": {"contigs": [["chr1", pos + 100]], "reads": reads, "bed": bed,
                                                         "q": q, "runs": runs}} for q in (0, 30, 31)]
    # the same through `cnvkit.py coverage`: -q left out (parser default) / short / long, -c / --count, -p N
    for q, argv in ((0, [["coverage", "{bam}", "{bed}", "-o", "{out}"], ["coverage", "-c", "{bam}", "{bed}", "-o", "{out}"],
                         ["coverage", "{bam}", "{bed}", "-p", "3", "-o", "{out}"],
                         ["coverage", "{bam}", "{bed}", "--count", "--processes", "2", "--output", "{out}"]]),
                    (30, [["coverage", "{bam}", "{bed}", "-q", "30", "-o", "{out}"],
                          ["coverage", "{bam}", "{bed}", "-q", "30", "-c", "-o", "{out}"],
                          ["coverage", "-p", "3", "-q", "30", "{bam}", "{bed}", "-o", "{out}"],
                          ["coverage", "--min-mapq", "30", "-cp", "2", "{bam}", "{bed}", "-o", "{out}"]]),
                    (31, [["coverage", "{bam}", "{bed}", "--min-mapq=31"], ["coverage", "{bam}", "-c", "{bed}", "-q31"],
                          ["coverage", "{bam}", "{bed}", "-q", "31", "-p3"],
                          ["coverage", "{bam}", "{bed}", "-q", "31", "-c", "-p", "2"]])):
        cases.append({"op": "cov", "tag": "cli-flags-x-mapq", "in": {
            "contigs": [["chr1", pos + 100]], "reads": reads, "bed": bed, "q": q, "runs": runs, "cli": True, "argv": argv}})
    return cases


def _chunk_case(rng, n=None, size=None, tag="chunks"):
    n = rng.randint(0, 40) if n is None else n
    size = rng.randint(1, 8) if size is None else size
    pc = rng.choice([0, 0.1, 0.5])
    lines = []
    for k in range(n):
        if rng.random() < pc:
            lines.append(rng.choice(["#c%d\n" % k, "#\n", "# chr1\t1\t2\n"]))
        else:
            lines.append("chr%d\t%d\t%d\tg%d\n" % (rng.randint(1, 3), k, k + rng.randint(0, 9), k))
    return {"op": "chunks", "tag": tag, "in": {"lines": lines, "size": size}}


# ------------------------------------------------------------------------------------------------
# worker schedules (op covsched, round 4): the REAL pool is run with per-task delays so that the workers finish in
# an adversarial order; every worker logs when it takes and when it finishes a task; the observed event list is
# replayed through the small-step pool model (lean/CnvVerif/Model/CoverageSched.lean)

_PLAN = None  # set in the harness worker before cnvkit's pool forks its workers (fork start method)


def _sched_log(kind, key):
    import time
    fd = os.open(_PLAN["log"], os.O_WRONLY | os.O_APPEND | os.O_CREAT, 0o600)
    try:
        os.write(fd, (json.dumps([kind, key, os.getpid(), time.monotonic_ns()]) + "\n").encode())
    finally:
        os.close(fd)


def _delayed_bedcov(args):
    """stands in for cnvlib.coverage._bedcov inside the worker processes: same result, after a planned delay"""
    import time
    with open(args[0]) as f:
        key = f.readline().rstrip("\n")  # a chunk is known by its first line (the lines of these cases are distinct)
    _sched_log("s", key)
    time.sleep(_PLAN["delay"].get(key, 0.0))
    out = _PLAN["bedcov"](args)
    _sched_log("f", key)
    return out


def _delayed_rdc(args):
    """stands in for cnvlib.coverage._rdc: one task per chromosome"""
    import time
    key = str(args[1].chromosome.iat[0])
    _sched_log("s", key)
    time.sleep(_PLAN["delay"].get(key, 0.0))
    out = _PLAN["rdc"](args)
    _sched_log("f", key)
    return out


def _observed_events(log_path, index_of_key, ntasks):
    """the pool's event list in the model's alphabet: [0, w, k] worker w took the k-th waiting task, [1, w] worker w
    finished; workers are numbered in the order in which they first show up"""
    if not os.path.exists(log_path):
        return [], 0
    recs = []
    with open(log_path) as f:
        for ln in f:
            kind, key, pid, t = json.loads(ln)
            recs.append((int(t), kind, key, int(pid)))
    recs.sort()
    pending, workers, evs = list(range(ntasks)), {}, []
    for _t, kind, key, pid in recs:
        w = workers.setdefault(pid, len(workers))
        if kind == "s":
            k = pending.index(index_of_key[key])
            pending.pop(k)
            evs.append([0, w, k])
        else:
            evs.append([1, w])
    return evs, len(workers)


def _sched_case(rng, k):
    names = rng.choice(CONTIG_SETS)[: rng.choice([2, 3, 3])]
    contigs = [[n, rng.randint(400, 1500)] for n in names]
    recs = _bins(rng, contigs, rng.choice([6, 9, 14]))
    if rng.random() < 0.5:
        rng.shuffle(recs)
    seen, uniq = set(), []
    for r in recs:  # distinct lines: a chunk file is recognised by its first line
        if tuple(r) not in seen:
            seen.add(tuple(r))
            uniq.append(r)
    bed = [[c, s, e, ["b%d" % j]] for j, (c, s, e) in enumerate(uniq)]
    if rng.random() < 0.3:
        bed.insert(rng.randint(0, len(bed)), "#chrom\tstart\tend\tname")
    edges = [(c, x) for (c, s, e) in uniq for x in (s, e)]
    reads = _reads(rng, contigs, rng.choice([20, 60, 120]), rng.random() < 0.3, edges)
    n = len(uniq)
    runs = []
    for algo in ("pileup", "count", "pileup"):
        procs = rng.choice([2, 2, 3, 4])
        size = rng.choice([1, 2, 3, max(1, n // 3), max(1, n // 2)]) if algo == "pileup" else 5000
        # delay plan: rank of each task in the wanted completion order (reverse, or a random permutation)
        runs.append([algo, procs, size, rng.choice(["reverse", "reverse", "random", "none"]), rng.randint(0, 10 ** 6)])
    runs.append(["pileup", 1, 5000, "none", 0])
    runs.append(["count", 1, 5000, "none", 0])
    return {"op": "covsched", "tag": "sched", "in": {"contigs": contigs, "reads": reads, "bed": bed,
                                                     "q": rng.choice([0, 0, 10, 30]), "runs": runs}}


def _run_sched(case):
    """do_coverage with the worker functions delayed and logged; returns per run the table and the observed events"""
    import random
    import pysam  # noqa: F401
    from cnvlib import coverage, parallel
    global _PLAN
    i = case["in"]
    d = tempfile.mkdtemp(dir="/var/tmp", prefix="c09s-")
    old_tmp = tempfile.tempdir
    tempfile.tempdir = d
    saved = (coverage._bedcov, coverage._rdc, coverage.to_chunks)
    try:
        bam = os.path.join(d, "s.bam")
        _write_bam(bam, i["contigs"], i["reads"])
        pysam.index(bam)
        bed = os.path.join(d, "r.bed")
        with open(bed, "w") as f:
            f.write(_bed_text(i["bed"]))
        records = [_bed_text([l]).rstrip("\n") for l in i["bed"] if not isinstance(l, str)]
        res = []
        for k, (algo, procs, size, plan, pseed) in enumerate(i["runs"]):
            prng = random.Random(pseed)
            log = os.path.join(d, "log%d" % k)
            if algo == "pileup":
                keys = [records[j] for j in range(0, len(records), size)]  # first line of each chunk
            else:
                keys = sorted({l[0] for l in i["bed"] if not isinstance(l, str)})  # order fixed below, from the table
            rank = list(range(len(keys)))
            if plan == "reverse":
                rank.reverse()
            elif plan == "random":
                prng.shuffle(rank)
            delay = {} if plan == "none" else dict((key, 0.02 + 0.03 * rank[j]) for j, key in enumerate(keys))
            _PLAN = {"log": log, "delay": delay, "bedcov": saved[0], "rdc": saved[1]}
            coverage._bedcov, coverage._rdc = _delayed_bedcov, _delayed_rdc
            coverage.to_chunks = parallel.to_chunks if size == 5000 else functools.partial(parallel.to_chunks, chunk_size=size)
            try:
                cn = coverage.do_coverage(bed, bam, by_count=(algo == "count"), min_mapq=i["q"], processes=procs)
            except Exception as e:  # noqa: BLE001
                res.append({"err": type(e).__name__, "msg": str(e)[:200]})
                continue
            finally:
                coverage._bedcov, coverage._rdc, coverage.to_chunks = saved
            r = _rows(cn)
            if algo == "count" and "rows" in r:  # one task per chromosome, in the order in which the table lists them
                keys = list(dict.fromkeys(x[0] for x in r["rows"]))
            try:
                evs, seen = _observed_events(log, dict((key, j) for j, key in enumerate(keys)), len(keys))
            except (KeyError, ValueError) as e:
                evs, seen = None, 0
                r["events_error"] = "%s: %s" % (type(e).__name__, e)
            r["events"], r["nw"] = evs, max(procs, seen, 1)
            res.append(r)
        return res
    finally:
        _PLAN = None
        coverage._bedcov, coverage._rdc, coverage.to_chunks = saved
        tempfile.tempdir = old_tmp
        shutil.rmtree(d, ignore_errors=True)


def _judge_sched(case, impl, resp):
    spec = list(resp.get("spec") or [])
    dis = []
    for k, (run, m, r) in enumerate(zip(case["in"]["runs"], resp["out"], impl)):
        what = f"sched run {k} {run[0]} p={run[1]} chunk={run[2]} plan={run[3]}"
        if "err" in m:
            if "err" not in r:
                dis.append(f"{what}: model refuses the regions file ({m['err']}), implementation returned a table")
            continue
        if "err" in r:
            spec.append("raises_" + r["err"])
            continue
        if "nonfinite" in r:
            spec.append("depth_and_log2_are_finite_numbers")
            continue
        if r.get("events") is None:
            dis.append(f"{what}: the worker log could not be read back as a schedule ({r.get('events_error')})")
            continue
        if m.get("unfinished"):
            dis.append(f"{what}: the observed worker events {r['events']} leave the model's pool unfinished")
            continue
        mr, ir = m["rows"], r["rows"]
        if len(mr) != len(ir):
            dis.append(f"{what}: {len(mr)} model rows, {len(ir)} implementation rows")
            continue
        for j, (a, b) in enumerate(zip(mr, ir)):
            if a[:4] != b[:4]:
                dis.append(f"{what} row {j}: bin model {a[:4]} impl {b[:4]}")
                break
            dm = Fraction(a[4])
            if not _close(float(Fraction(b[4])), float(dm)):
                dis.append(f"{what} row {j} {a[:3]}: depth model {a[4]} impl {float(Fraction(b[4]))}")
                break
            lg = float(Fraction(b[5]))
            if a[5] is not None:
                if Fraction(b[5]) != Fraction(a[5]):
                    dis.append(f"{what} row {j}: log2 model {a[5]} impl {lg}")
                    break
            elif dm <= 0 or not _close(lg, math.log2(dm)):
                dis.append(f"{what} row {j}: log2 impl {lg} is not log2 of model depth {a[4]}")
                break
    return sorted(set(spec)), dis, None


def corpus():
    c = []
    # finding C09-W: names that pandas parses as numbers / NA lose their text in the pileup path, and differently per chunk
    c.append({"op": "cov", "tag": "corpus-W", "in": {
        "contigs": [["chr1", 1000]], "reads": [[0, 10, [[M, 50]], 0, 60]],
        "bed": [["chr1", 0, 100, ["007"]], ["chr1", 50, 60, ["1e3"]], ["chr1", 0, 50, ["TP53"]], ["chr1", 5, 20, ["NA"]]],
        "q": 0, "runs": [["pileup", 1, 5000, []], ["pileup", 2, 2, [1, 0]], ["count", 1, 5000, []]]}})
    c.append({"op": "cov", "tag": "corpus-W", "in": {
        "contigs": [["chr1", 1000]], "reads": [[0, 10, [[M, 50]], 0, 60]],
        "bed": [["chr1", 0, 100, ["12"]], ["chr1", 50, 60, ["13"]]],
        "q": 0, "runs": [["pileup", 1, 5000, []], ["count", 1, 5000, []]]}})
    # finding C09-X: a '#' line in the regions file makes --count fail while pileup (serial and chunked) skips it
    c.append({"op": "cov", "tag": "corpus-X", "in": {
        "contigs": [["chr1", 1000]], "reads": [[0, 10, [[M, 50]], 0, 60]],
        "bed": ["#chrom\tstart\tend\tname", ["chr1", 0, 100, ["a"]], "#mid", ["chr1", 50, 60, ["b"]]],
        "q": 0, "runs": [["pileup", 1, 5000, []], ["pileup", 2, 1, [1, 0]], ["count", 1, 5000, []], ["count", 2, 5000, []]]}})
    # deletions / ref-skips: pileup covers them, --count does not (documented difference)
    c.append({"op": "cov", "tag": "corpus-indel", "in": {
        "contigs": [["chr1", 1000]],
        "reads": [[0, 30, [[M, 20], [D, 10], [M, 20]], 0, 60], [0, 100, [[M, 20], [I, 3], [M, 20]], 0, 60],
                  [0, 200, [[M, 10], [N, 100], [M, 10]], 0, 60]],
        "bed": [["chr1", 0, 100, ["a"]], ["chr1", 20, 400, ["b"]], ["chr1", 50, 60, ["c"]], ["chr1", 210, 300, ["d"]]],
        "q": 0, "runs": [["pileup", 1, 5000, []], ["count", 1, 5000, []]]}})
    # refused regions files: reversed record, contig absent from the BAM, comments only
    for bed in ([["chr1", 60, 50, ["r"]], ["chr1", 0, 9, ["a"]]], [["chr9", 0, 50, ["u"]], ["chr1", 0, 9, ["a"]]], ["#only"]):
        c.append({"op": "cov", "tag": "corpus-refused", "in": {
            "contigs": [["chr1", 1000]], "reads": [[0, 10, [[M, 50]], 0, 60]], "bed": bed, "q": 0,
            "runs": [["pileup", 1, 5000, []], ["pileup", 2, 1, []], ["count", 1, 5000, []]]}})
    # empty BAM, empty regions file
    c.append({"op": "cov", "tag": "corpus-empty-bam", "in": {
        "contigs": [["chr1", 1000], ["chr2", 500]], "reads": [], "bed": [["chr1", 0, 100, []], ["chr2", 490, 600, []]],
        "q": 0, "runs": [["pileup", 1, 5000, []], ["pileup", 16, 1, [1, 0]], ["count", 1, 5000, []], ["count", 16, 5000, [1, 0]]]}})
    c.append({"op": "cov", "tag": "corpus-empty-bed", "in": {
        "contigs": [["chr1", 1000]], "reads": [[0, 10, [[M, 50]], 0, 60]], "bed": [], "q": 0,
        "runs": [["pileup", 1, 5000, []], ["pileup", 2, 1, []], ["count", 1, 5000, []]]}})
    c += _flag_case()
    # call-path / representation cells, one witness each (reads of mapq 0 / 20 / 60, a duplicate, two contigs)
    base = {"contigs": [["chr1", 1000], ["chr2", 500]],
            "reads": [[0, 10, [[M, 50]], 0, 60], [0, 30, [[M, 50]], 0, 20], [0, 40, [[M, 50]], 1024, 60],
                      [0, 70, [[M, 40]], 0, 0], [0, 75, [[M, 40]], 256, 60, 1], [1, 5, [[S, 5], [M, 40]], 16, 60], [1, 460, [[M, 40]], 0, 9]],
            "bed": [["chr1", 0, 100, ["a"]], ["chr1", 20, 40, ["b"]], ["chr2", 0, 50, ["c"]], ["chr1", 100, 100, ["z"]],
                    ["chr2", 450, 600, ["d"]]],
            "runs": [["pileup", 1, 5000, []], ["count", 1, 5000, []], ["pileup", 2, 2, [1, 0]], ["count", 3, 5000, [1, 0]]]}
    for extra in ({"index": "none"}, {"index": "bai"}, {"index": "stale"}, {"index": "stale-bai"},
                  {"fasta": True}, {"fasta": True, "q": 30}, {"fasta": True, "q": 10, "index": "none"},
                  {"call": "implicit"}, {"call": "pos", "q": 1}, {"call": "implicit", "q": 21, "fasta": True},
                  {"unplaced": 3}, {"nonl": True}, {"bedname": "baits"}, {"bedname": "my.antitarget.bed", "nonl": True}):
        c.append({"op": "cov", "tag": "corpus-variant", "in": dict(base, **dict({"q": 0}, **extra))})
    # the same through the command line, every option in both spellings, defaults left to the parser
    for q, fa, argv in (
            (0, False, [["coverage", "{bam}", "{bed}"], ["coverage", "{bam}", "{bed}", "-c"],
                        ["coverage", "{bam}", "{bed}", "-p", "2"], ["coverage", "{bam}", "{bed}", "-c", "-p", "3"]]),
            (1, False, [["coverage", "-q", "1", "{bam}", "{bed}", "-o", "{out}"], ["coverage", "-q", "1", "--count", "{bam}", "{bed}", "-o", "{out}"],
                        ["coverage", "{bam}", "-q", "1", "--processes", "2", "{bed}", "-o", "{out}"],
                        ["coverage", "{bam}", "{bed}", "-o", "{out}", "-c", "--processes=3", "--min-mapq=1"]]),
            (21, True, [["coverage", "{bam}", "{bed}", "-f", "{fa}", "-q", "21", "--output", "{out}"],
                        ["coverage", "{bam}", "{bed}", "--fasta", "{fa}", "-q", "21", "-c", "--output={out}"],
                        ["coverage", "--fasta={fa}", "{bam}", "{bed}", "-q", "21", "-p", "2", "-o", "{out}"],
                        ["coverage", "-c", "-f", "{fa}", "{bam}", "{bed}", "-q", "21", "-p", "3", "-o", "{out}"]])):
        c.append({"op": "cov", "tag": "cli-corpus-variant", "in": dict(base, q=q, fasta=fa, cli=True, argv=argv,
                                                                      index="none" if q == 1 else "bam.bai")})
    # genome-scale coordinates through the command line (the .cnn must carry them digit for digit)
    off = 123456789
    c.append({"op": "cov", "tag": "cli-corpus-far", "in": dict(
        base, contigs=[["chr1", 1000 + off], ["chr2", 500 + off]], q=0, cli=True, index="bai", bedname="targets.txt",
        reads=[r[:1] + [r[1] + off] + r[2:] for r in base["reads"]], bed=[[b[0], b[1] + off, b[2] + off, b[3]] for b in base["bed"]],
        argv=[["coverage", "{bam}", "{bed}", "-o", "{out}"], ["coverage", "{bam}", "{bed}", "-c", "-o", "{out}"],
              ["coverage", "{bam}", "{bed}", "-p", "2", "-o", "{out}"], ["coverage", "{bam}", "{bed}", "-c", "-p", "3"]])})
    c += [{"op": "chunks", "tag": "corpus-chunks", "in": {"lines": l, "size": s}} for l, s in (
        ([], 3), (["#a\n"], 1), (["a\n", "b\n", "c\n"], 3), (["a\n", "b\n", "c\n", "d\n"], 3),
        (["#x\n", "a\n", "#y\n", "b\n", "#z\n"], 1), (["a\n", "b\n", "#tail\n"], 2), (["a\n", "b"], 5))]
    c += _cols.corpus()
    c += _glue.corpus()
    return c


def gen_cases(rng, tier):
    n = {"quick": 70, "thorough": 400, "search": 60}[tier]
    cases = []
    if tier != "search":
        cases += _small_scope()
    for k in range(n):
        cases.append(_case(rng, k))
    # every tier: comments and odd names on purpose, large BAMs, a regions file longer than the default chunk
    for k in range({"quick": 3, "thorough": 20, "search": 6}[tier]):
        cases.append(_case(rng, k, comments=True))
        cases.append(_case(rng, k + 1, odd=True))
    for k, nr in enumerate({"quick": [2000, 5000], "thorough": [1000, 2000, 3000, 4000, 5000, 5000], "search": [2000]}[tier]):
        c = _case(rng, k, nreads=nr, nbins=60, tag="large-bam")
        cases.append(c)
    if tier != "search":
        # (lines in the regions file, through the command line?)
        for nb, cli in ({"quick": [(5003, False), (5001, True)],
                         "thorough": [(4999, False), (5000, True), (5001, False), (10001, True), (10000, False)]}[tier]):
            contigs = [["chr1", 60000], ["chr2", 30000]]
            recs = [["chr1" if i % 3 else "chr2", (i * 7) % 29000, (i * 7) % 29000 + (i % 13), ["b%d" % i]] for i in range(nb)]
            reads = _reads(rng, contigs, 300, False, [("chr1", 100), ("chr2", 7000)])
            inp = {"contigs": contigs, "reads": reads, "bed": recs, "q": 10,
                   "runs": [["pileup", 1, 5000, []], ["pileup", 3, 5000, [2, 0, 1]], ["count", 1, 5000, []]]}
            inp.update(_variant(rng, cli=cli))
            cases.append(_with_cli(rng, {"op": "cov", "tag": "default-chunk-size", "in": inp}))
    m = {"quick": 1500, "thorough": 10000, "search": 300}[tier]
    cases += [_chunk_case(rng) for _ in range(m)]
    # worker schedules of the real pool replayed through the small-step pool model (drawn last: the cases above
    # stay what they were for a given seed)
    cases += [_sched_case(rng, k) for k in range({"quick": 16, "thorough": 80, "search": 8}[tier])]
    # CIGAR-rich BAMs: several indels / skips / pads per read (Props/C09Indel.lean says what each algorithm reports)
    for k in range({"quick": 8, "thorough": 50, "search": 6}[tier]):
        cases.append(_case(rng, k, nreads=rng.choice([40, 150, 300]), tag="cigar-rich", rich=True))
    if tier != "search":
        for nl in ({"quick": [5001], "thorough": [4999, 5000, 5001, 10000, 10001]}[tier]):
            cases.append(_chunk_case(rng, n=nl, size=5000, tag="chunks-default-size"))
    # the text side of bedcov (op covcols, harness/props/_c09cols.py); drawn last
    cases += _cols.gen_cases(rng, tier)
    # the glue do_coverage / interval_coverages (op covglue, harness/props/_c09glue.py); drawn last
    cases += _glue.gen_cases(rng, tier)
    return cases


# ------------------------------------------------------------------------------------------------
# the real code


def _write_bam(path, contigs, reads, unplaced=0):
    import pysam
    hdr = {"HD": {"VN": "1.0", "SO": "coordinate"}, "SQ": [{"SN": n, "LN": l} for n, l in contigs]}
    with pysam.AlignmentFile(path, "wb", header=hdr) as f:
        for i, (tid, pos, cigar, flag, mq, *more) in enumerate(reads):
            a = pysam.AlignedSegment()
            a.query_name = "r%d" % i
            ql = sum(l for op, l in cigar if op in (M, I, S, EQ, X))
            if not (more and more[0]):  # otherwise: a record stored without SEQ / QUAL
                a.query_sequence = "A" * ql
                a.query_qualities = pysam.qualitystring_to_array("I" * ql)
            a.cigartuples = [tuple(c) for c in cigar]
            a.flag = flag
            a.reference_id = tid
            a.reference_start = pos
            a.mapping_quality = mq
            if flag & 1:
                a.next_reference_id = tid
                a.next_reference_start = pos
            f.write(a)
        for i in range(unplaced):  # unmapped reads without a position, where sorted BAMs keep them: at the end
            a = pysam.AlignedSegment()
            a.query_name = "u%d" % i
            a.query_sequence = "C" * 40
            a.query_qualities = pysam.qualitystring_to_array("I" * 40)
            a.flag = (4, 77, 141)[i % 3]
            a.reference_id = -1
            a.reference_start = -1
            a.mapping_quality = 0
            f.write(a)


def _set_index(bam, mode, decoy):
    """the index files next to `bam` as `mode` names them; `decoy` = a valid index of ANOTHER (empty) BAM"""
    import pysam
    bai1, bai2 = bam + ".bai", bam[:-1] + "i"
    for path in (bai1, bai2):
        if os.path.exists(path):
            os.unlink(path)
    if mode == "none":
        return
    if mode in ("bam.bai", "bai"):
        pysam.index(bam)
        if mode == "bai":
            os.rename(bai1, bai2)
        return
    path = bai1 if mode == "stale" else bai2  # "stale" / "stale-bai": older than the BAM, describing other content
    with open(path, "wb") as f:
        f.write(decoy)
    t = os.stat(bam).st_mtime - 3600
    os.utime(path, (t, t))


def _bed_text(bed):
    out = []
    for l in bed:
        if isinstance(l, str):
            out.append(l + "\n")
        else:
            out.append("\t".join([l[0], str(l[1]), str(l[2])] + list(l[3])) + "\n")
    return "".join(out)


def _rows(cnarr):
    """the table as exact numbers; a NaN / infinite depth or log2 is reported as such (no row can carry it)"""
    rows = []
    for x in cnarr.data.itertuples(index=False):
        lg, dp = float(x.log2), float(x.depth)
        if not (math.isfinite(lg) and math.isfinite(dp)):
            return {"nonfinite": [str(x.chromosome), int(x.start), int(x.end), str(x.gene), repr(dp), repr(lg)]}
        rows.append([str(x.chromosome), int(x.start), int(x.end), str(x.gene), frac(dp), frac(lg), frac(2.0 ** lg)])
    return {"rows": rows}


def _file_vs_table(path, cn):
    """the written .cnn read back against the table the command handed to the writer (files carry 6 digits);
    returns a description of the first difference or None"""
    import pandas as pd
    if len(cn) == 0:
        return None if os.path.exists(path) else "no file written"
    # plain pandas, names as text: the rows in the order they were written (cnvkit's own readers re-sort, and
    # reading numeric-looking names back is C08's subject)
    back = pd.read_csv(path, sep="\t", dtype={"chromosome": str, "gene": str}, keep_default_na=False)
    if len(back) != len(cn):
        return "%d rows in the file, %d in the table" % (len(back), len(cn))
    for x, y in zip(back.itertuples(index=False), cn.data.itertuples(index=False)):
        if (str(x.chromosome), int(x.start), int(x.end)) != (str(y.chromosome), int(y.start), int(y.end)):
            return "file row %r, table row %r" % (tuple(x)[:3], tuple(y)[:3])
        if str(x.gene) != str(y.gene):
            return "file name %r, table name %r" % (x.gene, y.gene)
        for u, v in ((x.depth, y.depth), (x.log2, y.log2)):
            if not abs(float(u) - float(v)) <= 1e-5 * max(1.0, abs(float(v))):
                return "file value %r, table value %r at %r" % (u, v, tuple(y)[:3])
    return None


def _cov_cli(argv, paths, outdir):
    """`cnvkit.py coverage ...` in-process (parse_args + args.func, what the script does); returns the table the
    command hands to the writer and a description of what is wrong with the written file, if anything"""
    import glob
    import logging
    from cnvlib import commands
    from skgenome import tabio
    os.makedirs(outdir)
    paths = dict(paths, out=os.path.join(outdir, "o.cnn"))
    explicit_out = any("{out}" in w for w in argv)
    for key, val in paths.items():
        argv = [w.replace("{%s}" % key, val) for w in argv]
    captured = []

    class _Tab:
        def __getattr__(self, name):
            return getattr(tabio, name)

        def write(self, garr, outfname=None, *a, **k):
            captured.append(garr)
            return tabio.write(garr, outfname, *a, **k)
    saved, cwd, quiet = commands.tabio, os.getcwd(), logging.root.manager.disable
    commands.tabio = _Tab()
    os.chdir(outdir)  # without -o the file goes to the working directory
    logging.disable(logging.CRITICAL)
    try:
        args = commands.parse_args(argv)
        args.func(args)
    finally:
        logging.disable(quiet)
        os.chdir(cwd)
        commands.tabio = saved
    files = sorted(glob.glob(os.path.join(outdir, "*")))
    if len(captured) != 1:
        raise AssertionError("cnvkit.py coverage handed %d tables to the writer" % len(captured))
    if len(files) != 1:
        return captured[0], "%d files written: %s" % (len(files), [os.path.basename(f) for f in files])
    if explicit_out and files[0] != paths["out"]:
        return captured[0], "written to %s, not to the -o path" % os.path.basename(files[0])
    if not explicit_out and not (os.path.basename(files[0]).startswith("s.") and files[0].endswith(".cnn")):
        return captured[0], "default output name %s does not start with the BAM's base name" % os.path.basename(files[0])
    return captured[0], _file_vs_table(files[0], captured[0])


def _api(coverage, bed, bam, algo, q, procs, fasta, style):
    """do_coverage with keywords (as before), positionally (as commands.py does), or with every argument that
    equals its documented default left out"""
    by_count = algo == "count"
    if style == "pos":
        return coverage.do_coverage(bed, bam, by_count, q, procs, fasta) if fasta else \
            coverage.do_coverage(bed, bam, by_count, q, procs)
    kw = {"by_count": by_count, "min_mapq": q, "processes": procs}
    if style == "implicit":
        kw = {k: v for k, v in kw.items() if v != {"by_count": False, "min_mapq": 0, "processes": 1}[k]}
    if fasta:
        kw["fasta"] = fasta
    return coverage.do_coverage(bed, bam, **kw)


def run_impl(case):
    if case["op"] == "covcols":
        return _cols.run_impl(case)
    if case["op"] == "covglue":
        return _glue.run_impl(case)
    from cnvlib import coverage, parallel
    i = case["in"]
    if case["op"] == "covsched":
        return _run_sched(case)
    d = tempfile.mkdtemp(dir="/var/tmp", prefix="c09-")
    old_tmp = tempfile.tempdir
    tempfile.tempdir = d  # to_chunks / pysam put their temporary files here, not under /tmp
    verbosity = None
    try:
        if case["op"] == "chunks":
            path = os.path.join(d, "in.bed")
            with open(path, "w") as f:
                f.write("".join(i["lines"]))
            out = []
            for name in parallel.to_chunks(path, i["size"]):
                with open(name) as f:
                    out.append(f.readlines())
                parallel.rm(name)
            return out
        import pysam
        bam = os.path.join(d, "s.bam")
        mode = i.get("index", "bam.bai")
        decoy = None
        if mode.startswith("stale"):  # index of a BAM with the same header and no reads
            verbosity = pysam.set_verbosity(0)  # htslib warns on stderr each time it meets the old index
            _write_bam(bam, i["contigs"], [])
            pysam.index(bam)
            with open(bam + ".bai", "rb") as f:
                decoy = f.read()
            os.unlink(bam + ".bai")
        _write_bam(bam, i["contigs"], i["reads"], i.get("unplaced", 0))
        bed = os.path.join(d, i.get("bedname", "r.bed"))
        text = _bed_text(i["bed"])
        with open(bed, "w") as f:
            f.write(text[:-1] if i.get("nonl") and text.endswith("\n") else text)
        fasta = None
        if i.get("fasta"):
            fasta = os.path.join(d, "ref.fa")
            with open(fasta, "w") as f:
                for name, ln in i["contigs"]:
                    f.write(">%s\n" % name + "".join("ACGT"[(k // 60) % 4] * min(60, ln - k) + "\n" for k in range(0, ln, 60)))
        res = []
        for k, (algo, procs, size, _order) in enumerate(i["runs"]):
            _set_index(bam, mode, decoy)
            # the real generator with a non-default chunk_size (5000 = the default: left untouched)
            coverage.to_chunks = parallel.to_chunks if size == 5000 else functools.partial(parallel.to_chunks, chunk_size=size)
            bad = None
            try:
                if i.get("cli"):
                    cn, bad = _cov_cli(i["argv"][k], {"bam": bam, "bed": bed, "fa": fasta or ""}, os.path.join(d, "out%d" % k))
                else:
                    cn = _api(coverage, bed, bam, algo, i["q"], procs, fasta, i.get("call", "kw"))
            except Exception as e:  # noqa: BLE001 -- the model says whether this refusal is expected
                res.append({"err": type(e).__name__, "msg": str(e)[:200]})
                continue
            finally:
                coverage.to_chunks = parallel.to_chunks
            r = _rows(cn)
            if bad:
                r["file"] = bad
            res.append(r)
        return res
    finally:
        if verbosity is not None:
            pysam.set_verbosity(verbosity)
        tempfile.tempdir = old_tmp
        shutil.rmtree(d, ignore_errors=True)


def to_line(case, impl):
    if case["op"] == "covcols":
        return _cols.to_line(case, impl)
    if case["op"] == "covglue":
        return _glue.to_line(case, impl)
    i = case["in"]
    if case["op"] == "chunks":
        line = {"op": "chunks", "in": {"lines": i["lines"], "size": i["size"]}}
    elif case["op"] == "covsched":
        ok = isinstance(impl, list)
        runs = [[run[0], run[1], run[2], (impl[k].get("nw") or run[1]) if ok else run[1],
                 (impl[k].get("events") or []) if ok else []] for k, run in enumerate(i["runs"])]
        line = {"op": "covsched", "in": {"contigs": i["contigs"], "reads": i["reads"], "q": i["q"], "runs": runs,
                                         "bed": [None if isinstance(l, str) else l for l in i["bed"]]}}
        if ok:
            line["impl"] = [({"rows": r["rows"]} if "rows" in r else {}) for r in impl]
        return line
    else:
        line = {"op": "cov", "in": {"contigs": i["contigs"], "reads": i["reads"], "q": i["q"], "runs": i["runs"],
                                    "bed": [None if isinstance(l, str) else l for l in i["bed"]]}}
    if not (isinstance(impl, dict) and "__error__" in impl):
        line["impl"] = impl
    return line


def _close(a, b):
    return abs(a - b) <= 1e-9 * max(1.0, abs(b))


def judge(case, impl, resp):
    if case["op"] == "covcols":
        return _cols.judge(case, impl, resp)
    if case["op"] == "covglue":
        return _glue.judge(case, impl, resp)
    if isinstance(impl, dict) and "__error__" in impl:
        return ["raises_" + impl["__error__"]], [], None
    if "error" in resp:
        return [], ["model error: " + resp["error"]], None
    if case["op"] == "covsched":
        return _judge_sched(case, impl, resp)
    spec = list(resp.get("spec") or [])
    dis = []
    if case["op"] == "chunks":
        if resp["out"] != impl:
            dis.append(f"chunks: model {str(resp['out'])[:200]} impl {str(impl)[:200]}")
        return spec, dis, None
    for k, (run, m, r) in enumerate(zip(case["in"]["runs"], resp["out"], impl)):
        what = f"run {k} {run[0]} p={run[1]} chunk={run[2]}"
        if "err" in m:
            if "err" not in r:
                dis.append(f"{what}: model refuses the regions file ({m['err']}), implementation returned a table")
            elif r["err"] != "ValueError":
                dis.append(f"{what}: refusal is {r['err']}, expected ValueError")
            continue
        if "err" in r:
            # the property promises a row for every bin of a well-formed regions file
            spec.append("raises_" + r["err"])
            continue
        if "nonfinite" in r:
            spec.append("depth_and_log2_are_finite_numbers")
            continue
        if r.get("file"):  # command-line runs: the .cnn on disk is not the table the command computed
            spec.append("cli_written_file_is_the_table")
        mr, ir = m["rows"], r["rows"]
        if len(mr) != len(ir):
            dis.append(f"{what}: {len(mr)} model rows, {len(ir)} implementation rows")
            continue
        for j, (a, b) in enumerate(zip(mr, ir)):
            if a[:4] != b[:4]:
                dis.append(f"{what} row {j}: bin model {a[:4]} impl {b[:4]}")
                break
            dm = Fraction(a[4])
            if not _close(float(Fraction(b[4])), float(dm)):
                dis.append(f"{what} row {j} {a[:3]}: depth model {a[4]} impl {float(Fraction(b[4]))}")
                break
            lg = float(Fraction(b[5]))
            if a[5] is not None:
                if Fraction(b[5]) != Fraction(a[5]):
                    dis.append(f"{what} row {j}: log2 model {a[5]} impl {lg}")
                    break
            elif dm <= 0 or not _close(lg, math.log2(dm)):
                dis.append(f"{what} row {j}: log2 impl {lg} is not log2 of model depth {a[4]}")
                break
    return sorted(set(spec)), dis, None


def nontrivial(case, impl, resp):
    if case["op"] == "covcols":
        return _cols.nontrivial(case, impl, resp)
    if case["op"] == "covglue":
        return _glue.nontrivial(case, impl, resp)
    if isinstance(impl, dict):
        return False
    if case["op"] == "chunks":
        return len(impl) >= 2
    if case["op"] == "covsched":  # a pool run in which at least two tasks finished
        return bool(resp.get("valid")) and any(sum(1 for e in (r.get("events") or []) if e[0] == 1) >= 2 for r in impl)
    return bool(resp.get("valid")) and any("rows" in r and any(Fraction(x[4]) > 0 for x in r["rows"]) for r in impl)


def shrink(case):
    if case["op"] == "covcols":
        yield from _cols.shrink(case)
        return
    if case["op"] == "covglue":
        yield from _glue.shrink(case)
        return
    i = case["in"]
    if case["op"] == "chunks":
        ls = i["lines"]
        for k in range(len(ls)):
            yield {"op": "chunks", "tag": "shrunk", "in": {"lines": ls[:k] + ls[k + 1:], "size": i["size"]}}
        return
    if case["op"] == "covsched":
        runs, reads = i["runs"], i["reads"]
        for k in range(len(runs)):
            if len(runs) > 1:
                yield {"op": "covsched", "tag": "shrunk", "in": dict(i, runs=runs[:k] + runs[k + 1:])}
        for part in (reads[: len(reads) // 2], reads[len(reads) // 2:]):
            if len(part) < len(reads):
                yield {"op": "covsched", "tag": "shrunk", "in": dict(i, reads=part)}
        return

    def mk(**kw):
        c = {"op": "cov", "tag": "shrunk", "in": dict(i)}
        c["in"].update(kw)
        return c
    reads, bed, runs = i["reads"], i["bed"], i["runs"]
    if len(runs) > 1:
        for k in range(len(runs)):
            if i.get("cli"):  # each run has its command line
                yield mk(runs=runs[:k] + runs[k + 1:], argv=i["argv"][:k] + i["argv"][k + 1:])
            else:
                yield mk(runs=runs[:k] + runs[k + 1:])
    for part in (reads[: len(reads) // 2], reads[len(reads) // 2:]):
        if len(part) < len(reads):
            yield mk(reads=part)
    for part in (bed[: len(bed) // 2], bed[len(bed) // 2:]):
        if 0 < len(part) < len(bed):
            yield mk(bed=part)
    if len(reads) <= 12:
        for k in range(len(reads)):
            yield mk(reads=reads[:k] + reads[k + 1:])
    if len(bed) <= 12:
        for k in range(len(bed)):
            if len(bed) > 1:
                yield mk(bed=bed[:k] + bed[k + 1:])
    if len(reads) <= 3:
        for k, r in enumerate(reads):
            if r[3]:
                yield mk(reads=reads[:k] + [[r[0], r[1], r[2], 0, r[4]]] + reads[k + 1:])
            if len(r[2]) > 1:
                ln = sum(l for op, l in r[2] if op in (M, EQ, X))
                yield mk(reads=reads[:k] + [[r[0], r[1], [[M, max(1, ln)]], r[3], r[4]]] + reads[k + 1:])

# ------------------------------------------------------------------------------------------------
# classifiers for the two defects found (only needed if proposed_fixes/C09-W.diff / C09-X.diff are NOT applied
# and the defects are listed as open findings instead); each one is narrow: that input shape, that failure only


def _looks_numeric_or_na(name):
    if name in ("", "#N/A", "#N/A N/A", "#NA", "-1.#IND", "-1.#QNAN", "-NaN", "-nan", "1.#IND", "1.#QNAN", "<NA>",
                "N/A", "NA", "NULL", "NaN", "None", "n/a", "nan", "null"):
        return True
    try:
        float(name)
        return True
    except ValueError:
        return False


def classify_pileup_names_parsed_as_numbers(case, impl, resp):
    """C09-W: a name column entry that pandas.read_csv turns into a number / NaN, pileup runs only"""
    if case.get("op") != "cov" or not isinstance(impl, list):
        return False
    if not any(not isinstance(l, str) and l[3] and _looks_numeric_or_na(l[3][0]) for l in case["in"]["bed"]):
        return False
    # coordinates and depths of every run must still agree with the model: only names differ, only in pileup runs
    for run, m, r in zip(case["in"]["runs"], resp.get("out", []), impl):
        if "rows" not in m or "rows" not in r or len(m["rows"]) != len(r["rows"]):
            return False
        for a, b in zip(m["rows"], r["rows"]):
            if a[:3] != b[:3] or (a[3] != b[3] and (run[0] != "pileup" or not _looks_numeric_or_na(a[3]))):
                return False
    return True


def classify_count_rejects_comment_lines(case, impl, resp):
    """C09-X: the regions file has a '#' line and exactly the count runs die with ValueError('Bad line: #...')"""
    if case.get("op") != "cov" or not isinstance(impl, list):
        return False
    if not any(isinstance(l, str) for l in case["in"]["bed"]):
        return False
    bad = [(run, r) for run, r in zip(case["in"]["runs"], impl) if "err" in r]
    return bool(bad) and all(run[0] == "count" and r["err"] == "ValueError" and r.get("msg", "").startswith("Bad line: '#")
                             for run, r in bad)
