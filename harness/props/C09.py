"""C09 -- coverage reports the mean per-base depth of the counted reads in every bin.

Real code: cnvlib.coverage.do_coverage (both algorithms, 1..16 processes, `to_chunks` with its real code and a
non-default `chunk_size`) on synthetic coordinate-sorted BAMs written with pysam; cnvlib.parallel.to_chunks alone.
Model + oracle: lean/CnvVerif/Model/Coverage.lean, Driver/Coverage.lean (`handleCoverage`).
"""
from __future__ import annotations

import functools
import math
import os
import shutil
import tempfile
from fractions import Fraction

from ..core import frac

LEVEL = "proof"
RULE = ("op cov: synthetic coordinate-sorted BAM (1-3 contigs incl. names whose sort order differs from header order, "
        "0..5000 reads of length 30..150, soft/hard clips, =/X, optional insertions/deletions/ref-skips, FLAG = any "
        "subset of the 12 bits, MAPQ 0..60, reads piled on bin edges and contig ends) x BED (3/4/6/8 columns, '#' "
        "comments, abutting/overlapping/nested/zero-width/duplicate bins, bins straddling and past the contig end, "
        "sorted or shuffled, numeric-looking and NA-looking names) x mapq cut-off x runs {pileup, count} x processes "
        "{1,2,3,16} x chunk size {1,2,3,5,7,n-1,n,n+1,default 5000} x an arbitrary worker completion order for the "
        "model; exhaustive small scope: every read [a,b) within 0..6 against every bin [s,e) within 0..7. "
        "op chunks: to_chunks on 0..40 raw lines with comments, sizes 1..8 and 4999..10001 lines at the default size. "
        "non-trivial = valid input with a bin of positive depth; distinct by hash")
EXHAUSTIVE = {"quick": False, "thorough": False}
ASSUMPTIONS = [
    "regions file lines are records or '#' comments (what to_chunks recognises); every record has the same number "
    "of columns; names are non-empty and carry no surrounding blanks",
    "BAM is coordinate-sorted and indexed, every record's CIGAR consumes at least one reference base",
    "worker schedules: model = Executor.map returns results in submission order for every completion order "
    "(proved for every permutation in the model; the real pool is exercised with 1,2,3,16 processes)",
    "log2 itself is checked as 2**log2 == depth to 1e-9 (math.log / np.log2 are third-party numerics)",
    "pileup depth with deletions / ref-skips follows the samtools-bedcov contract (deleted and skipped reference "
    "positions count as covered); the property claims equality of the algorithms only without indels",
]
TRUSTED_EXTRA = ["pysam / htslib: BAM writer, index, fetch, AlignedSegment.positions, samtools bedcov (default flag "
                 "filter, -Q)", "concurrent.futures.ProcessPoolExecutor.map ordering", "pandas read_csv / concat",
                 "math.log, numpy.log2"]

BITS = (1, 2, 4, 8, 16, 32, 64, 128, 256, 512, 1024, 2048)
EXCL = (4, 256, 512, 1024)
M, I, D, N, S, H, EQ, X = 0, 1, 2, 3, 4, 5, 7, 8
CONTIG_SETS = [["chr1", "chr2", "chr3"], ["1", "2", "X"], ["chr10", "chr2", "chrX"], ["chrM", "chr1", "chrY"],
               ["2", "10", "1"], ["chrUn_gl000220", "chr1", "chr1_random"], ["X", "Y", "MT"]]
NAMES = ["TP53", "BRCA1", "g1", "g2", "A,B", "x-1", "C.1", "Antitarget", "-", "MYC", "ex_7", "p53|q"]
ODD_NAMES = ["007", "12", "1e3", "NA", "null", "nan", "3.0", "N/A"]


# ------------------------------------------------------------------------------------------------
# generators


def _cigar(rng, indels, length=None):
    ln = length or rng.randint(30, 150)
    ops = []
    if rng.random() < 0.1:
        ops.append((H, rng.randint(1, 20)))
    lead = rng.randint(1, 15) if rng.random() < 0.25 else 0
    trail = rng.randint(1, 15) if rng.random() < 0.25 else 0
    body = max(1, ln - lead - trail)
    if lead:
        ops.append((S, lead))
    kind = rng.random()
    if indels and kind < 0.45 and body >= 6:
        a = rng.randint(1, body - 2)
        b = body - a
        mid = rng.choice([(I, rng.randint(1, 8)), (D, rng.randint(1, 30)), (N, rng.randint(1, 400)),
                          (D, rng.randint(1, 5))])
        ops += [(M, a), mid, (M, b)]
        if rng.random() < 0.2 and b >= 4:
            ops.pop()
            ops += [(M, b // 2), rng.choice([(D, 2), (I, 3), (N, 50)]), (M, b - b // 2)]
    elif kind > 0.9 and body >= 4:
        a = rng.randint(1, body - 2)
        ops += [(EQ, a), (X, 1), (EQ, body - a - 1)] if body - a - 1 > 0 else [(EQ, a), (X, body - a)]
    else:
        ops.append((M, body))
    if trail:
        ops.append((S, trail))
    if rng.random() < 0.05:
        ops.append((H, rng.randint(1, 9)))
    return [list(o) for o in ops]


def _flag(rng):
    r = rng.random()
    if r < 0.35:
        f = rng.choice([0, 16, 99, 147, 83, 163, 65, 129, 2048, 2064])
    elif r < 0.45:
        f = sum(b for b in BITS if rng.random() < 0.5)
    else:
        f = rng.choice([0, 16, 1, 3, 2048])
        for b in EXCL:
            if rng.random() < 0.08:
                f |= b
    return f


def _mapq(rng):
    return rng.choice([0, 0, 1, 9, 10, 11, 20, 29, 30, 31, 59, 60, 60, 60, rng.randint(0, 60)])


def _bins(rng, contigs, nmax):
    """BED records per contig: abutting, gapped, overlapping, nested, zero-width, straddling / past the end"""
    recs = []
    for name, L in contigs:
        pos = rng.choice([0, 0, rng.randint(0, 50)])
        per = max(1, nmax // len(contigs))
        k = 0
        while pos < L + 150 and k < per:
            ln = rng.choice([0, 1, 2, 10, 50, 120, 200, 700, rng.randint(1, 300)])
            s = pos + rng.choice([0, 0, 0, 1, 5, 100])
            if rng.random() < 0.15:
                s = max(0, s - rng.randint(1, 60))
            recs.append([name, s, s + ln])
            if rng.random() < 0.1 and ln > 4:  # nested bin
                recs.append([name, s + 1, s + ln - rng.randint(1, 3)])
            if rng.random() < 0.05:  # duplicate line
                recs.append([name, s, s + ln])
            pos = s + ln
            k += 1
        if rng.random() < 0.5:
            recs.append([name, max(0, L - rng.randint(1, 80)), L + rng.randint(0, 90)])  # straddles the end
        if rng.random() < 0.3:
            recs.append([name, L + rng.randint(0, 500), L + rng.randint(500, 900)])  # past the end
    return recs


def _reads(rng, contigs, nreads, indels, edges):
    """reads placed uniformly, on bin edges, and around contig ends; returned coordinate-sorted"""
    out = []
    for tid, (name, L) in enumerate(contigs):
        n = nreads // len(contigs) + (1 if tid < nreads % len(contigs) else 0)
        my_edges = [e for (c, e) in edges if c == name] or [0]
        for _ in range(n):
            cg = _cigar(rng, indels)
            rl = sum(l for op, l in cg if op in (M, D, N, EQ, X))
            r = rng.random()
            if r < 0.45:
                pos = rng.randint(0, max(0, L - 1))
            elif r < 0.85:
                e = rng.choice(my_edges)
                pos = e - rng.choice([0, 1, rl - 1, rl, rl + 1, rl // 2, rng.randint(0, rl)])
            else:
                pos = L - rng.choice([rl, rl - 1, rl + 1, rl // 2, 1])
            pos = max(0, pos)
            out.append([tid, pos, cg, _flag(rng), _mapq(rng)])
    out.sort(key=lambda r: (r[0], r[1]))
    return out


def _bed_lines(rng, recs, ncol, odd_names, comments):
    lines = []
    for k, (c, s, e) in enumerate(recs):
        rest = []
        if ncol >= 4:
            nm = rng.choice(ODD_NAMES) if (odd_names and rng.random() < 0.5) else \
                rng.choice([rng.choice(NAMES), "g%d" % k, "bin%d" % rng.randint(0, 9)])
            rest.append(nm)
        if ncol >= 6:
            rest += [str(rng.randint(0, 1000)), rng.choice("+-.")]
        if ncol >= 8:
            rest += [str(s), str(e)]
        lines.append([c, s, e, rest])
    if comments:
        for _ in range(rng.randint(1, 4)):
            at = rng.choice([0, 0, len(lines), rng.randint(0, len(lines))])
            lines.insert(at, rng.choice(["#chrom\tstart\tend\tname", "# targets v2", "#", "#chr1\t5\t9\tx"]))
    return lines


def _runs(rng, nrec, big=False, procs_cycle=0):
    sizes = [1, 2, 3, 5, 7, max(1, nrec - 1), max(1, nrec), nrec + 1]
    ps = [2, 3, 16]
    order = lambda: [rng.randint(0, 9) for _ in range(rng.randint(0, 12))]
    runs = [["pileup", 1, 5000, []]]
    p1 = ps[procs_cycle % 3]
    p2 = ps[(procs_cycle + 1) % 3]
    sz = (lambda: rng.choice(sizes)) if not big else (lambda: rng.choice([max(1, nrec // 3), max(1, nrec // 7), nrec]))
    runs.append(["pileup", p1, sz(), order()])
    runs.append(["pileup", p2, rng.choice([sz(), 5000]), order()])
    runs.append(["count", 1, 5000, []])
    runs.append(["count", ps[(procs_cycle + 2) % 3], 5000, order()])
    return runs


def _case(rng, k, nreads=None, nbins=None, tag=None, comments=None, odd=None):
    names = rng.choice(CONTIG_SETS)[: rng.randint(1, 3)]
    contigs = [[n, rng.randint(200, 3000)] for n in names]
    indels = rng.random() < 0.4
    recs = _bins(rng, contigs, nbins or rng.choice([3, 10, 30, 60]))
    edges = [(c, x) for (c, s, e) in recs for x in (s, e)]
    n = nreads if nreads is not None else rng.choice([0, 1, 5, 40, 150, 300, 600])
    reads = _reads(rng, contigs, n, indels, edges)
    order = rng.random()
    if order < 0.25:
        rng.shuffle(recs)
    elif order < 0.4:  # contigs in another order than the header, rows sorted inside
        cs = names[:]
        rng.shuffle(cs)
        recs.sort(key=lambda r: (cs.index(r[0]), r[1], r[2]))
    ncol = rng.choice([3, 4, 4, 6, 8])
    comments = (rng.random() < 0.2) if comments is None else comments
    odd = (rng.random() < 0.1) if odd is None else odd
    bed = _bed_lines(rng, recs, ncol, odd, comments)
    q = rng.choice([0, 0, 1, 10, 11, 30, 31, 60, rng.randint(0, 61)])
    t = tag or ("indel" if indels else "plain") + (":comments" if comments else "") + (":oddnames" if odd and ncol >= 4 else "") \
        + ":col%d" % ncol
    return {"op": "cov", "tag": t, "in": {"contigs": contigs, "reads": reads, "bed": bed, "q": q,
                                           "runs": _runs(rng, len(recs), procs_cycle=k)}}


def _small_scope():
    """every read [a,b) within 0..6 x every bin [s,e) within 0..7 (one BAM per read, all bins in one BED),
    through both algorithms; reads are far shorter than 30 bases on purpose: this is the boundary arithmetic"""
    bins = [["chr1", s, e, ["b%d_%d" % (s, e)]] for s in range(0, 8) for e in range(s, 8)]
    cases = []
    for a in range(0, 6):
        for b in range(a + 1, 7):
            reads = [[0, a, [[M, b - a]], 0, 60]]
            cases.append({"op": "cov", "tag": "small-scope",
                          "in": {"contigs": [["chr1", 6]], "reads": reads, "bed": bins, "q": 0,
                                 "runs": [["pileup", 1, 5000, []], ["count", 1, 5000, []]]}})
    return cases


def _flag_case():
    """one read per FLAG over every subset of the four excluding bits + supplementary + reverse, all in one BAM,
    each under its own bin; and every mapq around the cut-off"""
    reads, bed = [], []
    pos = 0
    for sub in range(64):
        f = sum(b for k, b in enumerate((4, 256, 512, 1024, 2048, 16)) if sub >> k & 1)
        reads.append([0, pos, [[M, 40]], f, 60])
        bed.append(["chr1", pos, pos + 40, ["f%d" % f]])
        pos += 50
    for mq in range(25, 36):
        reads.append([0, pos, [[M, 40]], 0, mq])
        bed.append(["chr1", pos, pos + 40, ["q%d" % mq]])
        pos += 50
    return [{"op": "cov", "tag": "flags-x-mapq", "in": {"contigs": [["chr1", pos + 100]], "reads": reads, "bed": bed,
                                                       "q": q, "runs": [["pileup", 1, 5000, []], ["count", 1, 5000, []],
                                                                        ["pileup", 3, 7, [3, 1, 2]], ["count", 2, 5000, [1, 0]]]}}
            for q in (0, 30, 31)]


def _chunk_case(rng, n=None, size=None, tag="chunks"):
    n = rng.randint(0, 40) if n is None else n
    size = rng.randint(1, 8) if size is None else size
    pc = rng.choice([0, 0.1, 0.5])
    lines = []
    for k in range(n):
        if rng.random() < pc:
            lines.append(rng.choice(["#c%d\n" % k, "#\n", "# chr1\t1\t2\n"]))
        else:
            lines.append("chr%d\t%d\t%d\tg%d\n" % (rng.randint(1, 3), k, k + rng.randint(0, 9), k))
    return {"op": "chunks", "tag": tag, "in": {"lines": lines, "size": size}}


def corpus():
    c = []
    # finding C09-W: names that pandas parses as numbers / NA lose their text in the pileup path, and differently per chunk
    c.append({"op": "cov", "tag": "corpus-W", "in": {
        "contigs": [["chr1", 1000]], "reads": [[0, 10, [[M, 50]], 0, 60]],
        "bed": [["chr1", 0, 100, ["007"]], ["chr1", 50, 60, ["1e3"]], ["chr1", 0, 50, ["TP53"]], ["chr1", 5, 20, ["NA"]]],
        "q": 0, "runs": [["pileup", 1, 5000, []], ["pileup", 2, 2, [1, 0]], ["count", 1, 5000, []]]}})
    c.append({"op": "cov", "tag": "corpus-W", "in": {
        "contigs": [["chr1", 1000]], "reads": [[0, 10, [[M, 50]], 0, 60]],
        "bed": [["chr1", 0, 100, ["12"]], ["chr1", 50, 60, ["13"]]],
        "q": 0, "runs": [["pileup", 1, 5000, []], ["count", 1, 5000, []]]}})
    # finding C09-X: a '#' line in the regions file makes --count fail while pileup (serial and chunked) skips it
    c.append({"op": "cov", "tag": "corpus-X", "in": {
        "contigs": [["chr1", 1000]], "reads": [[0, 10, [[M, 50]], 0, 60]],
        "bed": ["#chrom\tstart\tend\tname", ["chr1", 0, 100, ["a"]], "#mid", ["chr1", 50, 60, ["b"]]],
        "q": 0, "runs": [["pileup", 1, 5000, []], ["pileup", 2, 1, [1, 0]], ["count", 1, 5000, []], ["count", 2, 5000, []]]}})
    # deletions / ref-skips: pileup covers them, --count does not (documented difference)
    c.append({"op": "cov", "tag": "corpus-indel", "in": {
        "contigs": [["chr1", 1000]],
        "reads": [[0, 30, [[M, 20], [D, 10], [M, 20]], 0, 60], [0, 100, [[M, 20], [I, 3], [M, 20]], 0, 60],
                  [0, 200, [[M, 10], [N, 100], [M, 10]], 0, 60]],
        "bed": [["chr1", 0, 100, ["a"]], ["chr1", 20, 400, ["b"]], ["chr1", 50, 60, ["c"]], ["chr1", 210, 300, ["d"]]],
        "q": 0, "runs": [["pileup", 1, 5000, []], ["count", 1, 5000, []]]}})
    # refused regions files: reversed record, contig absent from the BAM, comments only
    for bed in ([["chr1", 60, 50, ["r"]], ["chr1", 0, 9, ["a"]]], [["chr9", 0, 50, ["u"]], ["chr1", 0, 9, ["a"]]], ["#only"]):
        c.append({"op": "cov", "tag": "corpus-refused", "in": {
            "contigs": [["chr1", 1000]], "reads": [[0, 10, [[M, 50]], 0, 60]], "bed": bed, "q": 0,
            "runs": [["pileup", 1, 5000, []], ["pileup", 2, 1, []], ["count", 1, 5000, []]]}})
    # empty BAM, empty regions file
    c.append({"op": "cov", "tag": "corpus-empty-bam", "in": {
        "contigs": [["chr1", 1000], ["chr2", 500]], "reads": [], "bed": [["chr1", 0, 100, []], ["chr2", 490, 600, []]],
        "q": 0, "runs": [["pileup", 1, 5000, []], ["pileup", 16, 1, [1, 0]], ["count", 1, 5000, []], ["count", 16, 5000, [1, 0]]]}})
    c.append({"op": "cov", "tag": "corpus-empty-bed", "in": {
        "contigs": [["chr1", 1000]], "reads": [[0, 10, [[M, 50]], 0, 60]], "bed": [], "q": 0,
        "runs": [["pileup", 1, 5000, []], ["pileup", 2, 1, []], ["count", 1, 5000, []]]}})
    c += _flag_case()
    c += [{"op": "chunks", "tag": "corpus-chunks", "in": {"lines": l, "size": s}} for l, s in (
        ([], 3), (["#a\n"], 1), (["a\n", "b\n", "c\n"], 3), (["a\n", "b\n", "c\n", "d\n"], 3),
        (["#x\n", "a\n", "#y\n", "b\n", "#z\n"], 1), (["a\n", "b\n", "#tail\n"], 2), (["a\n", "b"], 5))]
    return c


def gen_cases(rng, tier):
    n = {"quick": 70, "thorough": 400, "search": 60}[tier]
    cases = []
    if tier != "search":
        cases += _small_scope()
    for k in range(n):
        cases.append(_case(rng, k))
    # every tier: comments and odd names on purpose, large BAMs, a regions file longer than the default chunk
    for k in range({"quick": 3, "thorough": 20, "search": 6}[tier]):
        cases.append(_case(rng, k, comments=True))
        cases.append(_case(rng, k + 1, odd=True))
    for k, nr in enumerate({"quick": [2000, 5000], "thorough": [1000, 2000, 3000, 4000, 5000, 5000], "search": [2000]}[tier]):
        c = _case(rng, k, nreads=nr, nbins=60, tag="large-bam")
        cases.append(c)
    if tier != "search":
        for nb in ({"quick": [5003], "thorough": [4999, 5000, 5001, 10001]}[tier]):
            contigs = [["chr1", 60000], ["chr2", 30000]]
            recs = [["chr1" if i % 3 else "chr2", (i * 7) % 29000, (i * 7) % 29000 + (i % 13), ["b%d" % i]] for i in range(nb)]
            reads = _reads(rng, contigs, 300, False, [("chr1", 100), ("chr2", 7000)])
            cases.append({"op": "cov", "tag": "default-chunk-size", "in": {
                "contigs": contigs, "reads": reads, "bed": recs, "q": 10,
                "runs": [["pileup", 1, 5000, []], ["pileup", 3, 5000, [2, 0, 1]], ["count", 1, 5000, []]]}})
    m = {"quick": 1500, "thorough": 10000, "search": 300}[tier]
    cases += [_chunk_case(rng) for _ in range(m)]
    if tier != "search":
        for nl in ({"quick": [5001], "thorough": [4999, 5000, 5001, 10000, 10001]}[tier]):
            cases.append(_chunk_case(rng, n=nl, size=5000, tag="chunks-default-size"))
    return cases


# ------------------------------------------------------------------------------------------------
# the real code


def _write_bam(path, contigs, reads):
    import pysam
    hdr = {"HD": {"VN": "1.0", "SO": "coordinate"}, "SQ": [{"SN": n, "LN": l} for n, l in contigs]}
    with pysam.AlignmentFile(path, "wb", header=hdr) as f:
        for i, (tid, pos, cigar, flag, mq) in enumerate(reads):
            a = pysam.AlignedSegment()
            a.query_name = "r%d" % i
            a.cigartuples = [tuple(c) for c in cigar]
            ql = sum(l for op, l in cigar if op in (M, I, S, EQ, X))
            a.query_sequence = "A" * ql
            a.flag = flag
            a.reference_id = tid
            a.reference_start = pos
            a.mapping_quality = mq
            a.query_qualities = pysam.qualitystring_to_array("I" * ql)
            if flag & 1:
                a.next_reference_id = tid
                a.next_reference_start = pos
            f.write(a)
    pysam.index(path)


def _bed_text(bed):
    out = []
    for l in bed:
        if isinstance(l, str):
            out.append(l + "\n")
        else:
            out.append("\t".join([l[0], str(l[1]), str(l[2])] + list(l[3])) + "\n")
    return "".join(out)


def _rows(cnarr):
    """the table as exact numbers; a NaN / infinite depth or log2 is reported as such (no row can carry it)"""
    rows = []
    for x in cnarr.data.itertuples(index=False):
        lg, dp = float(x.log2), float(x.depth)
        if not (math.isfinite(lg) and math.isfinite(dp)):
            return {"nonfinite": [str(x.chromosome), int(x.start), int(x.end), str(x.gene), repr(dp), repr(lg)]}
        rows.append([str(x.chromosome), int(x.start), int(x.end), str(x.gene), frac(dp), frac(lg), frac(2.0 ** lg)])
    return {"rows": rows}


def run_impl(case):
    from cnvlib import coverage, parallel
    i = case["in"]
    d = tempfile.mkdtemp(dir="/var/tmp", prefix="c09-")
    old_tmp = tempfile.tempdir
    tempfile.tempdir = d  # to_chunks / pysam put their temporary files here, not under /tmp
    try:
        if case["op"] == "chunks":
            path = os.path.join(d, "in.bed")
            with open(path, "w") as f:
                f.write("".join(i["lines"]))
            out = []
            for name in parallel.to_chunks(path, i["size"]):
                with open(name) as f:
                    out.append(f.readlines())
                parallel.rm(name)
            return out
        bam = os.path.join(d, "s.bam")
        _write_bam(bam, i["contigs"], i["reads"])
        bed = os.path.join(d, "r.bed")
        with open(bed, "w") as f:
            f.write(_bed_text(i["bed"]))
        res = []
        for algo, procs, size, _order in i["runs"]:
            # the real generator with a non-default chunk_size (5000 = the default: left untouched)
            coverage.to_chunks = parallel.to_chunks if size == 5000 else functools.partial(parallel.to_chunks, chunk_size=size)
            try:
                cn = coverage.do_coverage(bed, bam, by_count=(algo == "count"), min_mapq=i["q"], processes=procs)
            except Exception as e:  # noqa: BLE001 -- the model says whether this refusal is expected
                res.append({"err": type(e).__name__, "msg": str(e)[:200]})
                continue
            finally:
                coverage.to_chunks = parallel.to_chunks
            res.append(_rows(cn))
        return res
    finally:
        tempfile.tempdir = old_tmp
        shutil.rmtree(d, ignore_errors=True)


def to_line(case, impl):
    i = case["in"]
    if case["op"] == "chunks":
        line = {"op": "chunks", "in": {"lines": i["lines"], "size": i["size"]}}
    else:
        line = {"op": "cov", "in": {"contigs": i["contigs"], "reads": i["reads"], "q": i["q"], "runs": i["runs"],
                                    "bed": [None if isinstance(l, str) else l for l in i["bed"]]}}
    if not (isinstance(impl, dict) and "__error__" in impl):
        line["impl"] = impl
    return line


def _close(a, b):
    return abs(a - b) <= 1e-9 * max(1.0, abs(b))


def judge(case, impl, resp):
    if isinstance(impl, dict) and "__error__" in impl:
        return ["raises_" + impl["__error__"]], [], None
    if "error" in resp:
        return [], ["model error: " + resp["error"]], None
    spec = list(resp.get("spec") or [])
    dis = []
    if case["op"] == "chunks":
        if resp["out"] != impl:
            dis.append(f"chunks: model {str(resp['out'])[:200]} impl {str(impl)[:200]}")
        return spec, dis, None
    for k, (run, m, r) in enumerate(zip(case["in"]["runs"], resp["out"], impl)):
        what = f"run {k} {run[0]} p={run[1]} chunk={run[2]}"
        if "err" in m:
            if "err" not in r:
                dis.append(f"{what}: model refuses the regions file ({m['err']}), implementation returned a table")
            elif r["err"] != "ValueError":
                dis.append(f"{what}: refusal is {r['err']}, expected ValueError")
            continue
        if "err" in r:
            # the property promises a row for every bin of a well-formed regions file
            spec.append("raises_" + r["err"])
            continue
        if "nonfinite" in r:
            spec.append("depth_and_log2_are_finite_numbers")
            continue
        mr, ir = m["rows"], r["rows"]
        if len(mr) != len(ir):
            dis.append(f"{what}: {len(mr)} model rows, {len(ir)} implementation rows")
            continue
        for j, (a, b) in enumerate(zip(mr, ir)):
            if a[:4] != b[:4]:
                dis.append(f"{what} row {j}: bin model {a[:4]} impl {b[:4]}")
                break
            dm = Fraction(a[4])
            if not _close(float(Fraction(b[4])), float(dm)):
                dis.append(f"{what} row {j} {a[:3]}: depth model {a[4]} impl {float(Fraction(b[4]))}")
                break
            lg = float(Fraction(b[5]))
            if a[5] is not None:
                if Fraction(b[5]) != Fraction(a[5]):
                    dis.append(f"{what} row {j}: log2 model {a[5]} impl {lg}")
                    break
            elif dm <= 0 or not _close(lg, math.log2(dm)):
                dis.append(f"{what} row {j}: log2 impl {lg} is not log2 of model depth {a[4]}")
                break
    return sorted(set(spec)), dis, None


def nontrivial(case, impl, resp):
    if isinstance(impl, dict):
        return False
    if case["op"] == "chunks":
        return len(impl) >= 2
    return bool(resp.get("valid")) and any("rows" in r and any(Fraction(x[4]) > 0 for x in r["rows"]) for r in impl)


def shrink(case):
    i = case["in"]
    if case["op"] == "chunks":
        ls = i["lines"]
        for k in range(len(ls)):
            yield {"op": "chunks", "tag": "shrunk", "in": {"lines": ls[:k] + ls[k + 1:], "size": i["size"]}}
        return

    def mk(**kw):
        c = {"op": "cov", "tag": "shrunk", "in": dict(i)}
        c["in"].update(kw)
        return c
    reads, bed, runs = i["reads"], i["bed"], i["runs"]
    if len(runs) > 1:
        for k in range(len(runs)):
            yield mk(runs=runs[:k] + runs[k + 1:])
    for part in (reads[: len(reads) // 2], reads[len(reads) // 2:]):
        if len(part) < len(reads):
            yield mk(reads=part)
    for part in (bed[: len(bed) // 2], bed[len(bed) // 2:]):
        if 0 < len(part) < len(bed):
            yield mk(bed=part)
    if len(reads) <= 12:
        for k in range(len(reads)):
            yield mk(reads=reads[:k] + reads[k + 1:])
    if len(bed) <= 12:
        for k in range(len(bed)):
            if len(bed) > 1:
                yield mk(bed=bed[:k] + bed[k + 1:])
    if len(reads) <= 3:
        for k, r in enumerate(reads):
            if r[3]:
                yield mk(reads=reads[:k] + [[r[0], r[1], r[2], 0, r[4]]] + reads[k + 1:])
            if len(r[2]) > 1:
                ln = sum(l for op, l in r[2] if op in (M, EQ, X))
                yield mk(reads=reads[:k] + [[r[0], r[1], [[M, max(1, ln)]], r[3], r[4]]] + reads[k + 1:])

# ------------------------------------------------------------------------------------------------
# classifiers for the two defects found (only needed if proposed_fixes/C09-W.diff / C09-X.diff are NOT applied
# and the defects are listed as open findings instead); each one is narrow: that input shape, that failure only


def _looks_numeric_or_na(name):
    if name in ("", "#N/A", "#N/A N/A", "#NA", "-1.#IND", "-1.#QNAN", "-NaN", "-nan", "1.#IND", "1.#QNAN", "<NA>",
                "N/A", "NA", "NULL", "NaN", "None", "n/a", "nan", "null"):
        return True
    try:
        float(name)
        return True
    except ValueError:
        return False


def classify_pileup_names_parsed_as_numbers(case, impl, resp):
    """C09-W: a name column entry that pandas.read_csv turns into a number / NaN, pileup runs only"""
    if case.get("op") != "cov" or not isinstance(impl, list):
        return False
    if not any(not isinstance(l, str) and l[3] and _looks_numeric_or_na(l[3][0]) for l in case["in"]["bed"]):
        return False
    # coordinates and depths of every run must still agree with the model: only names differ, only in pileup runs
    for run, m, r in zip(case["in"]["runs"], resp.get("out", []), impl):
        if "rows" not in m or "rows" not in r or len(m["rows"]) != len(r["rows"]):
            return False
        for a, b in zip(m["rows"], r["rows"]):
            if a[:3] != b[:3] or (a[3] != b[3] and (run[0] != "pileup" or not _looks_numeric_or_na(a[3]))):
                return False
    return True


def classify_count_rejects_comment_lines(case, impl, resp):
    """C09-X: the regions file has a '#' line and exactly the count runs die with ValueError('Bad line: #...')"""
    if case.get("op") != "cov" or not isinstance(impl, list):
        return False
    if not any(isinstance(l, str) for l in case["in"]["bed"]):
        return False
    bad = [(run, r) for run, r in zip(case["in"]["runs"], impl) if "err" in r]
    return bool(bad) and all(run[0] == "count" and r["err"] == "ValueError" and r.get("msg", "").startswith("Bad line: '#")
                             for run, r in bad)
