"""C20 -- exports state exactly the calls they were given (export bed / vcf / seg / jtv / cdt / nexus-basic)."""
from __future__ import annotations

import math
import os
import shutil
import subprocess
import sys
import tempfile
from fractions import Fraction

from ..core import frac, REPO
from . import _call as K

LEVEL = "proof"
RULE = ("segment tables of 0..25 rows (classes autosome / X / Y / PAR-X / PAR-Y incl. PAR boundary coordinates +-1, "
        "segments starting at 0, either or mixed naming style, sorted or shuffled) with a cn column (values at and "
        "next to the ploidy and the expected copies, 0, random) or without one (log2 of n/r for n 0..8, integer log2 "
        "making exact .5 ties, random) x ploidy 1..6 x sample sex x reference sex x {none, grch37, grch38} through "
        "export_bed (3 show modes, label given / empty / genes) and export_vcf (sample id given / empty / default), "
        "parsed field by field; 1..5 segment files through export_seg (+- enumerate-chroms, a sample without probes, "
        "duplicate sample IDs); 1..5 bin files through merge_samples + fmt_jtv / fmt_cdt (equal bins, one coordinate / "
        "gene / chromosome / length changed, duplicate IDs, both) and export_nexus_basic; every command once or more "
        "through the cnvkit.py CLI in a subprocess. non-trivial = non-empty input; distinct by hash of the case")
EXHAUSTIVE = {"quick": False, "thorough": False}
ASSUMPTIONS = [
    "ratio space: the model receives the exact value of the double 2**log2; r*t in floats is covered by the knife-edge "
    "rule (cases within 1e-9 of a .5 boundary are skipped unless the float product is exact)",
    "files handed to export seg / jtv / cdt / nexus-basic and to the CLI are written sorted in cnvkit's order with "
    "finite log2, so that reading them (C08's subject) is the identity; the adapter checks that on every case",
    "vcf: the table has a probes column of non-negative integers (str(probes).isdigit()); tables without it or with "
    "negative counts yield no record at all -- run as a malformed stream, model mirrors it, spec not applied",
]
TRUSTED_EXTRA = ["pandas boolean-mask selection, Series.replace, concat, itertuples, to_csv as modelled in Model/Export.lean",
                 "harness parsing of the VCF / BED / SEG / TSV text into fields (split on tab, ';', '=', ':')",
                 "tabio.read (tab format) on sorted finite input is the identity (checked per case by the adapter)"]

GENES = ["A", "B", "C,D", "-", "G1", "TP53"]
RESERVED = ["chromosome", "start", "end", "gene", "label"]


class HarnessAssumption(Exception):
    pass


# ---------------------------------------------------------------------------------------------
# generation


def _chrom_key(c):
    k = c[3:] if c.lower().startswith("chr") else c
    if k in ("X", "Y"):
        return (1000, k)
    return (int(k), "")


def _sorted(rows):
    return sorted(rows, key=lambda r: (_chrom_key(r[0]), r[1], r[2]))


def _expected(cls, ploidy, female):
    return K.prose_copies(cls, ploidy, True, female)[1]


def _seg_rows(rng, n, ploidy, hapx, female, style, par, has_cn, sort):
    """rows [chrom, s, e, gene, log2, probes, cn] as Python values"""
    classes = ["auto", "auto", "auto", "x", "y"] + (["parx", "pary"] if par else [])
    rows = []
    for _ in range(n):
        cls = rng.choice(classes)
        st = style if style != "mixed" else rng.choice(["chr", "plain"])
        c, s, e = K.make_row(rng, cls, st, par)
        if cls == "auto" and rng.random() < 0.25:
            e, s = e - s, 0  # a segment starting at 0
        if cls in ("x", "y") and par is None and rng.random() < 0.2:
            e, s = e - s, 0
        exp = _expected(cls, ploidy, female)
        ref = ploidy // 2 if (cls in ("y", "pary") or (hapx and cls in ("x", "parx"))) else ploidy
        kind = rng.random()
        if kind < 0.35:
            n_true = rng.choice([exp, exp, exp + 1, max(0, exp - 1), ploidy, 0, rng.randint(0, 8)])
            lg = math.log2(n_true / ref) if (ref > 0 and n_true > 0) else float(rng.randint(-25, -3))
        elif kind < 0.6:
            lg = float(rng.choice([-3, -2, -1, -1, 0, 0, 1, 2]))  # exact products, .5 ties with odd copies
        elif kind < 0.7:
            lg = math.log2(rng.choice([1.5, 2.5, 0.75, 1.25, 0.375]))
        else:
            lg = rng.uniform(-3, 2) if rng.random() < 0.8 else rng.uniform(-30, 30)
        if sort == "cli":
            lg = round(lg, 3)
        cn = rng.choice([exp, exp, ploidy, exp + 1, max(0, exp - 1), 0, rng.randint(0, 9)])
        rows.append([c, s, e, rng.choice(GENES), lg, rng.randint(1, 500), cn])
    if sort in ("sorted", "cli"):
        rows = _sorted(rows)
    return rows


def _enc_seg(r):
    return [r[0], r[1], r[2], r[3], frac(r[4]), frac(2.0 ** r[4]), r[5], r[6]]


def _segcase(rng, op, via=None, nmax=25, force=None):
    force = force or {}
    ploidy = force.get("ploidy", rng.randint(1, 6))
    hapx = force.get("hapX", rng.random() < 0.5)
    female = force.get("female", rng.random() < 0.5)
    par = force.get("par", rng.choice([None, None, "grch37", "grch38"]))
    style = rng.choice(["chr", "chr", "plain", "plain", "mixed"])
    has_cn = force.get("has_cn", rng.random() < 0.5)
    n = rng.choice([0, 1, 2, 3]) if rng.random() < 0.15 else rng.randint(1, nmax)
    if via:
        n = max(n, 1)
    sort = "cli" if via else rng.choice(["sorted", "sorted", "shuffled"])
    rows = _seg_rows(rng, n, ploidy, hapx, female, style, par, has_cn, sort)
    i = {"rows": [_enc_seg(r) for r in rows], "log2_f": [r[4] for r in rows], "ploidy": ploidy, "hapX": hapx,
         "female": female, "par": par, "has_cn": has_cn, "has_probes": True, "seg_id": "S"}
    if op == "export_bed":
        i["label"] = rng.choice([None, "", "lab", "tumor-1"]) if not via else rng.choice([None, "lab", "@genes"])
        i["show"] = force.get("show", rng.choice(["all", "ploidy", "variant", "variant"]))
    else:
        i["sample_id"] = rng.choice([None, "", "TUMOR"]) if not via else rng.choice([None, "TUMOR"])
    if via:
        i["via"] = via
    tag = f"{'cli-' if via else ''}{i.get('show', 'vcf')}-{'cn' if has_cn else 'log2'}"
    return {"op": op, "tag": tag, "in": i}


def _malformed_vcf(rng):
    c = _segcase(rng, "export_vcf", nmax=8)
    if rng.random() < 0.5:
        c["in"]["has_probes"] = False
        c["tag"] = "malformed-no-probes"
    else:
        for r in c["in"]["rows"]:
            if rng.random() < 0.5:
                r[6] = -r[6]
        c["tag"] = "malformed-negative-probes"
    return c


def _segfile_case(rng, via=None):
    k = rng.randint(1, 5)
    ids = []
    for j in range(k):
        ids.append(rng.choice(ids) if (ids and rng.random() < 0.2) else f"S{j}{rng.choice(['', 'a', '_t'])}")
    style = rng.choice(["chr", "plain", "plain"])
    samples = []
    for j in range(k):
        n = rng.randint(1, 12)
        pre = "chr" if style == "chr" else ""
        pool = [pre + str(x) for x in rng.sample(range(1, 23), rng.randint(1, 5))] + [pre + "X", pre + "Y"]
        if style == "plain" and rng.random() < 0.5:
            pool = ["1", "2", "3", "5", "X"]
        rows = []
        for _ in range(n):
            s = rng.choice([0, 0, rng.randint(0, 10 ** 7)])
            lg = rng.uniform(-3, 2)
            if via:
                lg = round(lg, 3)
            rows.append([rng.choice(pool), s, s + rng.randint(1, 10 ** 6), "-", lg, rng.randint(1, 300), 2])
        rows = _sorted(rows)
        samples.append({"id": ids[j], "has_probes": not (k > 1 and rng.random() < 0.1),
                        "rows": [_enc_seg(r) for r in rows], "log2_f": [r[4] for r in rows]})
    i = {"samples": samples, "enumerate": rng.random() < 0.4}
    if via:
        i["via"] = via
    dup = len(set(ids)) < len(ids)
    return {"op": "export_seg", "tag": ("cli-" if via else "") + ("enum" if i["enumerate"] else "plain") + ("-dupid" if dup else ""),
            "in": i}


def _bins(rng, n, style, via):
    pre = "chr" if style == "chr" else ""
    rows = []
    chroms = [pre + str(x) for x in sorted(rng.sample(range(1, 23), rng.randint(1, 3)))] + [pre + "X"]
    for c in chroms:
        pos = rng.choice([0, rng.randint(0, 10 ** 5)])
        for _ in range(max(1, n // len(chroms))):
            ln = rng.randint(1, 5000)
            lg = rng.uniform(-4, 3)
            if via:
                lg = round(lg, 3)
            rows.append([c, pos, pos + ln, rng.choice(GENES), lg])
            pos += ln + rng.choice([0, 0, rng.randint(1, 1000)])
    return rows


def _tablecase(rng, via=None, kind=None):
    k = rng.randint(1, 5)
    style = rng.choice(["chr", "plain"])
    base = _bins(rng, rng.randint(1, 14), style, via)
    kind = kind or rng.choice(["equal", "equal", "equal", "mismatch", "mismatch", "dupid", "both", "reserved"])
    if k == 1 and kind != "reserved":
        kind = "equal"
    ids = [f"s{j}" for j in range(k)]
    if kind in ("dupid", "both"):
        a, b = rng.sample(range(k), 2)
        ids[max(a, b)] = ids[min(a, b)]
    if kind == "reserved":
        ids[rng.randrange(k)] = rng.choice(RESERVED)
    bad = rng.randrange(1, k) if kind in ("mismatch", "both") else None
    how = None
    samples = []
    for j in range(k):
        bins = [list(b) for b in base]
        for b in bins:
            b[4] = round(rng.uniform(-4, 3), 3) if via else rng.choice([rng.uniform(-4, 3), float(rng.randint(-3, 3)), b[4]])
        if j == bad:
            how = rng.choice(["start", "end", "gene", "chrom", "drop", "extra", "swapgene"])
            t = rng.randrange(len(bins))
            if how == "start":
                bins[t][1] += rng.choice([-1, 1]) if bins[t][1] > 0 else 1
                if bins[t][1] >= bins[t][2]:
                    bins[t][2] = bins[t][1] + 1
            elif how == "end":
                bins[t][2] += 1
            elif how == "gene":
                bins[t][3] = bins[t][3] + "x"
            elif how == "chrom":
                newc = ("chr" if style == "chr" else "") + "Y"
                bins[-1][0] = newc  # the last row moves to Y: stays sorted
            elif how == "drop":
                if len(bins) > 1:
                    bins.pop(t)
                else:
                    bins[t][3] = bins[t][3] + "x"
            elif how == "extra":
                last = bins[-1]
                bins.append([last[0], last[2] + 5, last[2] + 50, "A", 0.25])
            elif how == "swapgene":
                if len(bins) > 1 and bins[0][3] != bins[-1][3]:
                    bins[0][3], bins[-1][3] = bins[-1][3], bins[0][3]
                else:
                    bins[t][3] = bins[t][3] + "x"
        bins = _sorted(bins)
        samples.append({"id": ids[j], "bins": [[b[0], b[1], b[2], b[3], frac(b[4])] for b in bins],
                        "log2_f": [b[4] for b in bins]})
    i = {"samples": samples, "fmt": rng.choice(["jtv", "cdt"])}
    if via:
        i["via"] = via
    return {"op": "export_table", "tag": ("cli-" if via else "") + i["fmt"] + "-" + kind + (("-" + how) if how else ""), "in": i}


def _nexuscase(rng, via=None):
    bins = _sorted(_bins(rng, rng.randint(1, 14), rng.choice(["chr", "plain"]), via))
    i = {"bins": [[b[0], b[1], b[2], b[3], frac(b[4])] for b in bins], "log2_f": [b[4] for b in bins]}
    if via:
        i["via"] = via
    return {"op": "export_nexus_basic", "tag": ("cli-" if via else "") + "nexus", "in": i}


def corpus():
    import random
    rng = random.Random(20)
    out = []
    # half-even ties without a cn column: ploidy 1/3/5 and log2 = -1 give r*t = 0.5, 1.5, 2.5
    for ploidy in (1, 3, 5):
        c = _segcase(rng, "export_bed", force={"ploidy": ploidy, "has_cn": False, "par": None, "show": "all"})
        rows = [["chr1", 0, 100, "A", -1.0, 5, 0], ["chrX", 0, 50, "B", -1.0, 3, 0], ["chrY", 10, 20, "-", 0.0, 1, 0]]
        c["in"]["rows"] = [_enc_seg(r) for r in rows]
        c["in"]["log2_f"] = [r[4] for r in rows]
        c["tag"] = "corpus-ties"
        out.append(c)
        v = {"op": "export_vcf", "tag": "corpus-ties", "in": dict(c["in"])}
        v["in"].pop("label"), v["in"].pop("show")
        v["in"]["sample_id"] = None
        out.append(v)
    # PAR boundaries, both genomes, a start at 0, with a cn column
    for par in ("grch37", "grch38"):
        p = K.PAR[par]
        rows = [["chr1", 0, 1000, "A", 0.0, 9, 3],
                ["chrX", p["PAR1X"][0], p["PAR1X"][1], "B", 0.0, 9, 2],
                ["chrX", p["PAR1X"][0] - 1, p["PAR1X"][1], "B", 0.0, 9, 2],
                ["chrX", p["PAR2X"][0], p["PAR2X"][1] + 1, "B", 0.0, 9, 1],
                ["chrY", p["PAR1Y"][0], p["PAR1Y"][1], "C", 0.0, 9, 0],
                ["chrY", p["PAR2Y"][0], p["PAR2Y"][1], "C", 0.0, 9, 1],
                ["chrY", p["PAR2Y"][0] - 1, p["PAR2Y"][1], "C", 0.0, 9, 1]]
        for female in (False, True):
            base = {"rows": [_enc_seg(r) for r in rows], "log2_f": [r[4] for r in rows], "ploidy": 2, "hapX": True,
                    "female": female, "par": par, "has_cn": True, "has_probes": True, "seg_id": "S"}
            out.append({"op": "export_bed", "tag": "corpus-par", "in": dict(base, label=None, show="variant")})
            out.append({"op": "export_vcf", "tag": "corpus-par", "in": dict(base, sample_id="T")})
    # finding U: a neutral PAR1-X segment against a male reference (diploid-PAR genome) has 2 copies, not 1
    p = K.PAR["grch38"]["PAR1X"]
    rows = [["chr1", 0, 1000, "A", 0.0, 9, 0], ["chrX", p[0], p[1], "B", 0.0, 9, 0], ["chrX", p[1] + 10, p[1] + 500, "B", 0.0, 9, 0]]
    for show in ("variant", "all"):
        out.append({"op": "export_bed", "tag": "corpus-U",
                    "in": {"rows": [_enc_seg(r) for r in rows], "log2_f": [r[4] for r in rows], "ploidy": 2, "hapX": True,
                           "female": False, "par": "grch38", "has_cn": False, "has_probes": True, "seg_id": "S",
                           "label": None, "show": show}})
    # finding V: a sample whose ID is one of merge_samples' own column names
    bins = [["chr1", 0, 100, "A", "1/2"], ["chr1", 100, 250, "B", "-1/4"]]
    for ids in (["gene"], ["s0", "start"], ["label", "s1"]):
        for fmt in ("jtv", "cdt"):
            out.append({"op": "export_table", "tag": "corpus-V",
                        "in": {"samples": [{"id": x, "bins": bins, "log2_f": [0.5, -0.25]} for x in ids], "fmt": fmt}})
    # header-only bin files
    out.append({"op": "export_table", "tag": "corpus-empty",
                "in": {"samples": [{"id": "a", "bins": [], "log2_f": []}, {"id": "b", "bins": [], "log2_f": []}], "fmt": "jtv"}})
    return out


def gen_cases(rng, tier):
    n = {"quick": 450, "thorough": 4000, "search": 1200}[tier]
    cases = []
    for _ in range(n):
        cases.append(_segcase(rng, "export_bed"))
        cases.append(_segcase(rng, "export_vcf"))
    # every (ploidy, sex, reference, PAR genome) cell, both commands, with and without cn
    if tier != "search":
        for ploidy in range(1, 7):
            for hapx in (False, True):
                for female in (False, True):
                    for par in (None, "grch37", "grch38"):
                        f = {"ploidy": ploidy, "hapX": hapx, "female": female, "par": par,
                             "has_cn": rng.random() < 0.5, "show": "variant"}
                        cases.append(_segcase(rng, "export_bed", force=f))
                        cases.append(_segcase(rng, "export_vcf", force=f))
    m = {"quick": 100, "thorough": 800, "search": 200}[tier]
    for _ in range(m):
        cases.append(_segfile_case(rng))
        cases.append(_tablecase(rng))
        cases.append(_tablecase(rng))
    for _ in range(m // 3):
        cases.append(_nexuscase(rng))
        cases.append(_malformed_vcf(rng))
    # the command line, end to end
    k = {"quick": 1, "thorough": 4, "search": 0}[tier]
    for _ in range(k):
        for show in ("all", "ploidy", "variant"):
            cases.append(_segcase(rng, "export_bed", via="cli", nmax=10, force={"show": show}))
        cases.append(_segcase(rng, "export_vcf", via="cli", nmax=10, force={"has_cn": True}))
        cases.append(_segcase(rng, "export_vcf", via="cli", nmax=10, force={"has_cn": False}))
        cases.append(_segfile_case(rng, via="cli"))
        cases.append(_tablecase(rng, via="cli", kind="equal"))
        cases.append(_tablecase(rng, via="cli", kind="mismatch"))
        cases.append(_nexuscase(rng, via="cli"))
    return cases


# ---------------------------------------------------------------------------------------------
# the real code


def _f(x):
    return float(x)


def _cell(v):
    import numpy as np
    if isinstance(v, str):
        return ["s", v]
    if isinstance(v, (bool, np.bool_)):
        return ["s", str(v)]
    if isinstance(v, (int, np.integer)):
        return ["i", int(v)]
    if isinstance(v, (float, np.floating)):
        if math.isnan(v):
            return ["s", "nan"]
        return ["q", frac(float(v))]
    return ["s", str(v)]


def _seg_cna(i, rows, log2s, has_cn, has_probes, sid="S"):
    from cnvlib.cnary import CopyNumArray as CNA
    cols = ["chromosome", "start", "end", "gene", "log2"]
    data = []
    for r, lg in zip(rows, log2s):
        row = [r[0], r[1], r[2], r[3], lg]
        if has_probes:
            row.append(r[6])
        if has_cn:
            row.append(r[7])
        data.append(tuple(row))
    if has_probes:
        cols = cols + ["probes"]
    if has_cn:
        cols = cols + ["cn"]
    return CNA.from_rows(data, columns=cols, meta_dict={"sample_id": sid})


def _write_tab(path, cols, data):
    with open(path, "w") as fh:
        fh.write("\t".join(cols) + "\n")
        for row in data:
            fh.write("\t".join(repr(x) if isinstance(x, float) else str(x) for x in row) + "\n")


def _write_segfile(path, rows, log2s, has_cn, has_probes):
    cols = ["chromosome", "start", "end", "gene", "log2"] + (["probes"] if has_probes else []) + (["cn"] if has_cn else [])
    data = []
    for r, lg in zip(rows, log2s):
        data.append([r[0], r[1], r[2], r[3], lg] + ([r[6]] if has_probes else []) + ([r[7]] if has_cn else []))
    _write_tab(path, cols, data)
    _check_readback(path, [(r[0], r[1], r[2]) for r in rows], log2s)


def _write_binfile(path, bins, log2s):
    _write_tab(path, ["chromosome", "start", "end", "gene", "log2"], [[b[0], b[1], b[2], b[3], lg] for b, lg in zip(bins, log2s)])
    _check_readback(path, [(b[0], b[1], b[2]) for b in bins], log2s)


def _check_readback(path, coords, log2s):
    from cnvlib.cmdutil import read_cna
    a = read_cna(path)
    got = list(zip(a.data["chromosome"].astype(str), a.data["start"].astype(int), a.data["end"].astype(int))) if len(a) else []
    if got != [tuple(c) for c in coords]:
        raise HarnessAssumption("reading the generated file is not the identity")
    if len(a) and any(abs(x - y) > 1e-12 * max(1.0, abs(y)) for x, y in zip(a.data["log2"], log2s)):
        raise HarnessAssumption("log2 read back differs")


def _cli(args, tmp):
    env = dict(os.environ)
    env["PYTHONDONTWRITEBYTECODE"] = "1"
    env["TMPDIR"] = tmp
    boot = f"import sys; sys.path.insert(0, {REPO!r}); from cnvlib.cnvkit import main; sys.exit(main())"
    r = subprocess.run([sys.executable, "-c", boot] + args, capture_output=True, text=True,
                       timeout=600, env=env, cwd=tmp)
    return r


def _parse_vcf(body):
    lines = [l for l in body.split("\n") if l and not l.startswith("##")]
    if not lines or not lines[0].startswith("#CHROM"):
        raise HarnessAssumption("no #CHROM line")
    head = lines[0].split("\t")
    recs = []
    for l in lines[1:]:
        f = l.split("\t")
        if len(f) != 10:
            raise HarnessAssumption(f"vcf line with {len(f)} fields")
        keys, kv = [], {}
        for item in f[7].split(";"):
            if "=" in item:
                k, v = item.split("=", 1)
                keys.append(k)
                kv[k] = v
            else:
                keys.append(item)
        recs.append([f[0], int(f[1]), f[2], f[3], f[4], f[5], f[6], keys, kv.get("SVTYPE", ""), int(kv["END"]),
                     int(kv["SVLEN"]), frac(float(kv["FOLD_CHANGE"])), frac(float(kv["FOLD_CHANGE_LOG"])),
                     int(kv["PROBES"]), f[8].split(":"), f[9].split(":")])
    return {"sample_col": head[9], "records": recs}


def _run_bed(i, tmp):
    from cnvlib import export
    if i.get("via") == "cli":
        path = os.path.join(tmp, i["seg_id"] + ".cns")
        _write_segfile(path, i["rows"], i["log2_f"], i["has_cn"], True)
        out = os.path.join(tmp, "out.bed")
        args = ["export", "bed", path, "--ploidy", str(i["ploidy"]), "-x", "female" if i["female"] else "male",
                "--show", i["show"], "-o", out]
        if i["hapX"]:
            args.append("-y")
        if i["par"]:
            args += ["--diploid-parx-genome", i["par"]]
        if i["label"] == "@genes":
            args.append("--label-genes")
        elif i["label"]:
            args += ["-i", i["label"]]
        r = _cli(args, tmp)
        if r.returncode != 0:
            raise RuntimeError("cli failed: " + r.stderr[-500:])
        rows = []
        for l in open(out).read().split("\n"):
            if l:
                f = l.split("\t")
                rows.append([f[0], int(f[1]), int(f[2]), f[3], int(f[4])])
        return rows
    seg = _seg_cna(i, i["rows"], i["log2_f"], i["has_cn"], i["has_probes"], i["seg_id"])
    t = export.export_bed(seg, i["ploidy"], i["hapX"], i["par"], i["female"], i["label"], i["show"])
    return [[str(a), int(b), int(c), str(d), int(e)] for a, b, c, d, e in
            zip(t["chromosome"], t["start"], t["end"], t["label"], t["ncopies"])]


def _run_vcf(i, tmp):
    from cnvlib import export
    if i.get("via") == "cli":
        path = os.path.join(tmp, i["seg_id"] + ".cns")
        _write_segfile(path, i["rows"], i["log2_f"], i["has_cn"], True)
        out = os.path.join(tmp, "out.vcf")
        args = ["export", "vcf", path, "--ploidy", str(i["ploidy"]), "-x", "female" if i["female"] else "male", "-o", out]
        if i["hapX"]:
            args.append("-y")
        if i["par"]:
            args += ["--diploid-parx-genome", i["par"]]
        if i["sample_id"]:
            args += ["-i", i["sample_id"]]
        r = _cli(args, tmp)
        if r.returncode != 0:
            raise RuntimeError("cli failed: " + r.stderr[-500:])
        return _parse_vcf(open(out).read())
    seg = _seg_cna(i, i["rows"], i["log2_f"], i["has_cn"], i["has_probes"], i["seg_id"])
    _header, body = export.export_vcf(seg, i["ploidy"], i["hapX"], i["par"], i["female"], i["sample_id"])
    return _parse_vcf(body)


def _run_seg(i, tmp):
    from cnvlib import export
    fnames = []
    for k, sm in enumerate(i["samples"]):
        d = os.path.join(tmp, str(k))
        os.makedirs(d)
        p = os.path.join(d, sm["id"] + ".cns")
        _write_segfile(p, sm["rows"], sm["log2_f"], False, sm["has_probes"])
        fnames.append(p)
    if i.get("via") == "cli":
        out = os.path.join(tmp, "out.seg")
        r = _cli(["export", "seg"] + fnames + (["--enumerate-chroms"] if i["enumerate"] else []) + ["-o", out], tmp)
        if r.returncode != 0:
            raise RuntimeError("cli failed: " + r.stderr[-500:])
        lines = [l for l in open(out).read().split("\n") if l]
        head = lines[0].split("\t")
        rows = []
        for l in lines[1:]:
            f = dict(zip(head, l.split("\t")))
            nm = f.get("num.mark", "")
            rows.append([f["ID"], f["chrom"], int(f["loc.start"]), int(f["loc.end"]),
                         None if nm == "" else int(float(nm)), frac(float(f["seg.mean"]))])
        return rows
    t = export.export_seg(fnames, chrom_ids=i["enumerate"])
    rows = []
    for k in range(len(t)):
        nm = t["num.mark"].iat[k] if "num.mark" in t.columns else float("nan")
        rows.append([str(t["ID"].iat[k]), str(t["chrom"].iat[k]), int(t["loc.start"].iat[k]), int(t["loc.end"].iat[k]),
                     None if (isinstance(nm, float) and math.isnan(nm)) or nm != nm else int(nm),
                     frac(float(t["seg.mean"].iat[k]))])
    return rows


def _typed_cells(fmt, text):
    """cells of a jtv/cdt file written by write_tsv: (header, rows)"""
    lines = [l for l in text.split("\n") if l != ""]
    header = lines[0].split("\t")
    rows = []
    npre = 4 if fmt == "cdt" else 2
    for k, l in enumerate(lines[1:]):
        f = l.split("\t")
        if fmt == "cdt" and k < 2:
            rows.append([["s", x] for x in f])
            continue
        row = [["s", x] for x in f[:npre]]
        if fmt == "cdt":
            row[3] = ["i", int(f[3])]
        row += [["q", frac(float(x))] for x in f[npre:]]
        rows.append(row)
    return header, rows


def _run_table(i, tmp):
    from cnvlib import export, core
    fnames = []
    for k, sm in enumerate(i["samples"]):
        d = os.path.join(tmp, str(k))
        os.makedirs(d)
        p = os.path.join(d, sm["id"] + ".cnr")
        _write_binfile(p, sm["bins"], sm["log2_f"])
        fnames.append(p)
    if i.get("via") == "cli":
        out = os.path.join(tmp, "out.txt")
        r = _cli(["export", i["fmt"]] + fnames + ["-o", out], tmp)
        if r.returncode != 0:
            if "Mismatched row coordinates" in r.stderr:
                return {"error": "mismatch"}
            if "Duplicate sample ID" in r.stderr:
                return {"error": "duplicate"}
            raise RuntimeError("cli failed: " + r.stderr[-500:])
        header, rows = _typed_cells(i["fmt"], open(out).read())
        return {"error": None, "header": header, "rows": rows}
    sample_ids = list(map(core.fbase, fnames))
    try:
        table = export.merge_samples(fnames)
    except ValueError as e:
        if str(e).startswith("Mismatched row coordinates"):
            return {"error": "mismatch"}
        if str(e).startswith("Duplicate sample ID"):
            return {"error": "duplicate"}
        raise
    header, rows = export.EXPORT_FORMATS[i["fmt"]](sample_ids, table)
    return {"error": None, "header": [str(h) for h in header], "rows": [[_cell(v) for v in row] for row in rows]}


def _run_nexus(i, tmp):
    from cnvlib import export
    from cnvlib.cnary import CopyNumArray as CNA
    if i.get("via") == "cli":
        p = os.path.join(tmp, "S.cnr")
        _write_binfile(p, i["bins"], i["log2_f"])
        out = os.path.join(tmp, "out.txt")
        r = _cli(["export", "nexus-basic", p, "-o", out], tmp)
        if r.returncode != 0:
            raise RuntimeError("cli failed: " + r.stderr[-500:])
        lines = [l for l in open(out).read().split("\n") if l]
        rows = []
        for l in lines[1:]:
            f = l.split("\t")
            rows.append([["s", f[0]], ["i", int(f[1])], ["i", int(f[2])], ["s", f[3]], ["q", frac(float(f[4]))], ["s", f[5]]])
        return rows
    data = [(b[0], b[1], b[2], b[3], lg) for b, lg in zip(i["bins"], i["log2_f"])]
    a = CNA.from_rows(data, columns=["chromosome", "start", "end", "gene", "log2"], meta_dict={"sample_id": "S"})
    t = export.export_nexus_basic(a)
    cols = ["chromosome", "start", "end", "gene", "log2", "probe"]
    return [[_cell(t[c].iat[k]) for c in cols] for k in range(len(t))]


def run_impl(case):
    i = case["in"]
    tmp = tempfile.mkdtemp(dir="/var/tmp", prefix="c20-")
    try:
        return {"export_bed": _run_bed, "export_vcf": _run_vcf, "export_seg": _run_seg,
                "export_table": _run_table, "export_nexus_basic": _run_nexus}[case["op"]](i, tmp)
    finally:
        shutil.rmtree(tmp, ignore_errors=True)


# ---------------------------------------------------------------------------------------------
# line protocol, judgement


def _strip(o):
    if isinstance(o, dict):
        return {k: _strip(v) for k, v in o.items() if not k.endswith("_f") and k != "via"}
    if isinstance(o, list):
        return [_strip(x) for x in o]
    return o


def to_line(case, impl):
    line = {"op": case["op"], "in": _strip(case["in"])}
    if case["in"].get("via") == "cli" and case["op"] == "export_bed":
        # the command line labels rows with the sample ID unless -i / --label-genes is given
        lab = case["in"]["label"]
        line["in"]["label"] = None if lab == "@genes" else (lab or case["in"]["seg_id"])
    if not (isinstance(impl, dict) and "__error__" in impl):
        line["impl"] = impl
    return line


def _exact_product(lg):
    """r * 2**log2 is computed without rounding for every possible number of reference copies"""
    t = 2.0 ** lg
    return all(Fraction(r * t) == r * Fraction(t) for r in range(0, 7))


def _close(a, b):
    a, b = float(Fraction(a)), float(Fraction(b))
    return abs(a - b) <= 1e-9 * max(1.0, abs(b))


def _cells_equal(m, im):
    if len(m) != len(im):
        return False
    for a, b in zip(m, im):
        if a[0] == "q" or b[0] == "q":
            if a[0] == "s" or b[0] == "s" or not _close(b[1], a[1]):
                return False
        elif a != b:
            return False
    return True


def judge(case, impl, resp):
    op = case["op"]
    if isinstance(impl, dict) and "__error__" in impl:
        return ["raises_" + impl["__error__"]], [], None
    if "error" in resp:
        return [], ["model error: " + resp["error"]], None
    spec = list(resp.get("spec") or [])
    out = resp["out"]
    disagree = []
    if op in ("export_bed", "export_vcf"):
        i = case["in"]
        if not i["has_cn"] and any(Fraction(sl) < Fraction(1, 10 ** 9) and not _exact_product(lg)
                                   for sl, lg in zip(resp["slack"], i["log2_f"])):
            return [], [], "rounding boundary within 1e-9"
        if op == "export_bed":
            if out != impl:
                k = next((k for k, (a, b) in enumerate(zip(out, impl)) if a != b), min(len(out), len(impl)))
                disagree.append(f"bed rows differ at {k}: model {out[k:k+1]} impl {impl[k:k+1]} ({len(out)} vs {len(impl)} rows)")
        else:
            if out["sample_col"] != impl["sample_col"]:
                disagree.append(f"sample column: model {out['sample_col']!r} impl {impl['sample_col']!r}")
            mr, ir = out["records"], impl["records"]
            if len(mr) != len(ir):
                disagree.append(f"record count model {len(mr)} impl {len(ir)}")
            else:
                for k, (a, b) in enumerate(zip(mr, ir)):
                    same = all(a[x] == b[x] for x in (0, 1, 2, 3, 4, 5, 6, 7, 8, 9, 10, 13, 14, 15))
                    if not (same and _close(b[11], a[11]) and _close(b[12], a[12])):
                        disagree.append(f"record {k}: model {a} impl {b}")
                        break
    elif op == "export_seg":
        if len(out) != len(impl):
            disagree.append(f"row count model {len(out)} impl {len(impl)}")
        else:
            for k, (a, b) in enumerate(zip(out, impl)):
                if a[:5] != b[:5] or not _close(b[5], a[5]):
                    disagree.append(f"row {k}: model {a} impl {b}")
                    break
    elif op == "export_table":
        if out.get("error") != impl.get("error"):
            disagree.append(f"refusal: model {out.get('error')} impl {impl.get('error')}")
        elif out.get("error") is None:
            if out["header"] != impl["header"]:
                disagree.append(f"header model {out['header']} impl {impl['header']}")
            elif len(out["rows"]) != len(impl["rows"]):
                disagree.append(f"row count model {len(out['rows'])} impl {len(impl['rows'])}")
            else:
                for k, (a, b) in enumerate(zip(out["rows"], impl["rows"])):
                    if not _cells_equal(a, b):
                        disagree.append(f"row {k}: model {a} impl {b}")
                        break
    elif op == "export_nexus_basic":
        if len(out) != len(impl):
            disagree.append(f"row count model {len(out)} impl {len(impl)}")
        else:
            for k, (a, b) in enumerate(zip(out, impl)):
                if not _cells_equal(a, b):
                    disagree.append(f"row {k}: model {a} impl {b}")
                    break
    return spec, disagree, None


def classify_reserved_sample_id(case, impl, resp):
    """a jtv/cdt input in which a sample is named like one of merge_samples' own columns"""
    return case["op"] == "export_table" and any(sm["id"] in RESERVED for sm in case["in"]["samples"])


def classify_bed_reference_copies(case, impl, resp):
    """export_bed without a cn column on a table where the class table (PAR genome, naming style of the first
    row) and the chromosome name alone can give different reference copies (finding U, pre-fix code)"""
    if case["op"] != "export_bed" or case["in"]["has_cn"]:
        return False
    rows = case["in"]["rows"]
    return case["in"]["par"] is not None or len({r[0].startswith("chr") for r in rows}) > 1


def nontrivial(case, impl, resp):
    i = case["in"]
    if "rows" in i:
        return len(i["rows"]) > 0
    if "samples" in i:
        return any(len(sm.get("rows", sm.get("bins", []))) > 0 for sm in i["samples"])
    return len(i.get("bins", [])) > 0


def shrink(case):
    i = case["in"]
    if "rows" in i:
        for k in range(len(i["rows"])):
            c = {"op": case["op"], "tag": "shrunk", "in": dict(i)}
            c["in"]["rows"] = i["rows"][:k] + i["rows"][k + 1:]
            c["in"]["log2_f"] = i["log2_f"][:k] + i["log2_f"][k + 1:]
            yield c
    elif "samples" in i:
        ss = i["samples"]
        if len(ss) > 1:
            for k in range(len(ss)):
                c = {"op": case["op"], "tag": "shrunk", "in": dict(i)}
                c["in"]["samples"] = ss[:k] + ss[k + 1:]
                yield c
        key = "rows" if case["op"] == "export_seg" else "bins"
        n = max(len(sm[key]) for sm in ss)
        for k in range(n):
            c = {"op": case["op"], "tag": "shrunk", "in": dict(i)}
            c["in"]["samples"] = [dict(sm, **{key: sm[key][:k] + sm[key][k + 1:],
                                              "log2_f": sm["log2_f"][:k] + sm["log2_f"][k + 1:]}) for sm in ss]
            if all(len(sm[key]) > 0 for sm in c["in"]["samples"]):
                yield c
    elif "bins" in i:
        for k in range(len(i["bins"])):
            c = {"op": case["op"], "tag": "shrunk", "in": dict(i)}
            c["in"]["bins"] = i["bins"][:k] + i["bins"][k + 1:]
            c["in"]["log2_f"] = i["log2_f"][:k] + i["log2_f"][k + 1:]
            yield c
